// C02 One tampering helper can abort a query but never change its result.
//
// Pass 1 (honest, passive tap) inventories every MPC chunk (gate, sender, receiver, shard, chunk#, len)
// of a malicious-mode hybrid query. Pass 2..n replay the same deterministic execution (same seeds,
// paused single-thread runtime) with exactly one chunk of one sender altered. Oracle: either an honest
// helper (any shard) fails / never finishes, or the value determined by the two honest helpers'
// shares equals the untampered result. "accepted but different" is the violation.

use std::{
    collections::{BTreeMap, BTreeSet},
    sync::{Arc, Mutex},
};

use serde_json::{Value, json};

use super::{
    vlib::{self, Recorder, VRng},
    wl::{self, ChanKey, ChunkInfo, Exec, Fault, HelperOut, HybridCase, HybridRun, Pattern, Rep, TapState},
};

fn input(i: usize, shards: usize, r: &mut VRng) -> Vec<Rep> {
    let mut v = Vec::new();
    let npairs = if shards == 1 { 3 } else { 16 * shards as u64 };
    for k in 0..npairs {
        v.push(Rep::Imp { mk: 100 + k, bk: (r.below(256)) as u8 });
        v.push(Rep::Conv { mk: 100 + k, v: 1 + r.below(7) as u8 });
    }
    match i % 3 {
        0 => {}
        1 => {
            // a >2 group and a conv+conv pair
            v.extend([Rep::Imp { mk: 7, bk: 5 }, Rep::Conv { mk: 7, v: 3 }, Rep::Conv { mk: 7, v: 2 }]);
            v.extend([Rep::Conv { mk: 8, v: 6 }, Rep::Conv { mk: 8, v: 5 }]);
        }
        _ => {
            v.push(Rep::Imp { mk: 9, bk: 200 });
            v.push(Rep::Imp { mk: 9, bk: 100 });
            v.push(Rep::Conv { mk: 10, v: 7 });
        }
    }
    r.shuffle(&mut v);
    v
}

fn pattern(k: usize, len: usize, r: &mut VRng) -> Pattern {
    match k % 5 {
        0 => Pattern::FlipBit { byte: 0, bit: 0 },
        1 => Pattern::FlipLastBit,
        2 => Pattern::XorFf { byte: r.below(len.max(1) as u64) as usize },
        3 => Pattern::Zero,
        _ => Pattern::AddOne { byte: 0, width: 8 },
    }
}
fn pattern_name(p: &Pattern) -> &'static str {
    match p {
        Pattern::FlipBit { .. } => "flip_bit0",
        Pattern::FlipLastBit => "flip_last_bit",
        Pattern::XorFf { .. } => "xor_ff",
        Pattern::Zero => "zero",
        Pattern::AddOne { .. } => "add_one",
    }
}

fn run_tapped(case: &HybridCase, fault: Option<Fault>) -> (HybridRun, TapState) {
    let st = Arc::new(Mutex::new(TapState { fault, ..Default::default() }));
    let run = wl::run_hybrid(case, Some(wl::tap(Arc::clone(&st))));
    let st = std::mem::take(&mut *st.lock().unwrap());
    (run, st)
}

/// value determined by the two honest helpers (corrupt = c) on the leader shard
fn honest_value(run: &HybridRun, c: usize) -> Result<Vec<u128>, String> {
    let a = (c + 1) % 3;
    let b = (c + 2) % 3;
    let (HelperOut::Ok(ha), HelperOut::Ok(hb)) = (&run.outs[0][a], &run.outs[0][b]) else {
        return Err("honest helper without output".into());
    };
    if ha.len() != hb.len() {
        return Err("honest outputs differ in length".into());
    }
    let mut out = Vec::with_capacity(ha.len());
    for i in 0..ha.len() {
        if ha[i].1 != hb[i].0 {
            return Err(format!("honest helpers hold different copies of the shared share at bucket {i}"));
        }
        out.push(ha[i].0 ^ hb[i].0 ^ hb[i].1);
    }
    Ok(out)
}

fn honest_all_ok(run: &HybridRun, c: usize) -> bool {
    run.outs.iter().all(|o| (0..3).filter(|h| *h != c).all(|h| matches!(o[h], HelperOut::Ok(_))))
}

fn abort_class(run: &HybridRun, c: usize) -> &'static str {
    let mut cls = "abort-no-output";
    for o in &run.outs {
        for h in (0..3).filter(|h| *h != c) {
            match o[h] {
                HelperOut::Err(_) => return "abort-honest-err",
                HelperOut::Panic(_) => cls = "abort-honest-panic",
                _ => {}
            }
        }
    }
    cls
}

struct Plan {
    case: HybridCase,
    expected: Vec<u128>,
    faults: Vec<(Fault, usize)>, // (fault, chunk len)
    families: BTreeSet<String>,
}

fn plan(env: &vlib::Env, rec: &mut Recorder, which: usize, shards: usize, padding: bool) -> Option<Plan> {
    let mut r = VRng::new(env.seed ^ 0xc02, (which * 16 + shards * 2 + usize::from(padding)) as u64);
    let reports = input(which, shards, &mut r);
    let assign = (0..reports.len()).map(|i| i % shards).collect();
    let case = HybridCase {
        reports,
        assign,
        shards,
        malicious: true,
        padding,
        hv_bits: 32,
        world_seed: env.seed.wrapping_mul(31) + (which * 100 + shards * 10 + usize::from(padding)) as u64,
        exec: Exec::Paused,
    };
    let (run, st) = run_tapped(&case, None);
    let expected = wl::reference_histogram(&case.reports, case.hv_bits);
    let honest_ok = run.all_ok()
        && matches!((&run.outs[0][0], &run.outs[0][1], &run.outs[0][2]),
            (HelperOut::Ok(a), HelperOut::Ok(b), HelperOut::Ok(c)) if wl::reconstruct3([a, b, c]).as_ref() == Ok(&expected));
    if !honest_ok {
        rec.inconclusive(format!(
            "honest pass of input {which} (S={shards}, padding={padding}) did not give the reference result (leader {}, empty stage {:?}); C01 decides that - no faults injected for it",
            run.leader_classes(), run.first_empty_stage()
        ));
        return None;
    }
    rec.add("honest_chunks_inventoried", st.chunks.len() as u64);
    let mut families = BTreeSet::new();
    let mut by_family: BTreeMap<(String, u8), Vec<&ChunkInfo>> = BTreeMap::new();
    for c in &st.chunks {
        let fam = wl::step_family(&c.key.gate);
        families.insert(fam.clone());
        by_family.entry((fam, c.key.src)).or_default().push(c);
    }
    let mut faults = Vec::new();
    if env.thorough {
        // every inventoried chunk x 2 patterns (S=1); seeded 30 % sample for S>1
        for (n, c) in st.chunks.iter().enumerate() {
            if shards > 1 && r.below(10) >= 3 {
                continue;
            }
            for k in 0..2 {
                let p = pattern(n + k * 2, c.len, &mut r);
                faults.push((Fault { key: c.key.clone(), chunk_no: c.chunk_no, pattern: p }, c.len));
            }
        }
    } else {
        // one fault per (step family, corrupt helper)
        for (n, ((_, _), chunks)) in by_family.iter().enumerate() {
            let c = chunks[r.below(chunks.len() as u64) as usize];
            let p = pattern(n + which, c.len, &mut r);
            faults.push((Fault { key: c.key.clone(), chunk_no: c.chunk_no, pattern: p }, c.len));
        }
    }
    Some(Plan { case, expected, faults, families })
}

fn replay_fault() -> Option<Value> {
    let p = vlib::env().replay?;
    let w: Value = serde_json::from_str(&std::fs::read_to_string(p).ok()?).ok()?;
    Some(w["witness"].clone())
}

fn parse_pattern(s: &str) -> Pattern {
    let num = |key: &str| -> usize {
        s.split(key).nth(1).map(|t| t.trim_start_matches([':', ' ']).chars().take_while(char::is_ascii_digit).collect::<String>()).and_then(|d| d.parse().ok()).unwrap_or(0)
    };
    if s.starts_with("FlipBit") {
        Pattern::FlipBit { byte: num("byte"), bit: num("bit") as u8 }
    } else if s.starts_with("FlipLastBit") {
        Pattern::FlipLastBit
    } else if s.starts_with("XorFf") {
        Pattern::XorFf { byte: num("byte") }
    } else if s.starts_with("Zero") {
        Pattern::Zero
    } else {
        Pattern::AddOne { byte: num("byte"), width: num("width") }
    }
}

fn decide(rec: &mut Recorder, plan_case: &HybridCase, expected: &[u128], fault: &Fault, len: usize, idx: usize) {
    // Row-count words (shuffle cardinality, number of fake records): the receiver allocates that many rows, and a huge
    // value aborts the process on allocation failure, which cannot be observed in-process. Only small changes there.
    let fam0 = wl::step_family(&fault.key.gate);
    let small = fam0.contains("cardinality") || fam0.contains("send_num_fake_records");
    let patched;
    let fault = if small && !matches!(fault.pattern, Pattern::FlipBit { byte: 0, bit: 0..=3 }) {
        patched = Fault { key: fault.key.clone(), chunk_no: fault.chunk_no, pattern: Pattern::FlipBit { byte: 0, bit: (idx % 3) as u8 } };
        &patched
    } else {
        fault
    };
    let c = fault.key.src as usize;
    let (run, st) = run_tapped(plan_case, Some(fault.clone()));
    let fam = wl::step_family(&fault.key.gate);
    match st.fault_applied {
        None => {
            rec.count("fault_not_reached");
            return;
        }
        Some((_, false)) => {
            rec.count("fault_pattern_left_bytes_unchanged");
            return;
        }
        Some((_, true)) => {}
    }
    rec.eval();
    rec.seen("step_families_faulted", fam.clone());
    let pname = pattern_name(&fault.pattern);
    let witness = || {
        json!({"case": idx, "hybrid_case": plan_case.to_json(), "fault": fault.to_json(), "chunk_len": len,
               "outs": run.outs.iter().map(|o| o.iter().map(HelperOut::brief).collect::<Vec<_>>()).collect::<Vec<_>>(),
               "quiescent": run.quiescent})
    };
    if !honest_all_ok(&run, c) {
        let cls = abort_class(&run, c);
        rec.count(cls);
        rec.distinct(&(fam.as_str(), fault.key.src, fault.key.dst, pname));
        return;
    }
    match honest_value(&run, c) {
        Ok(v) if v == expected => {
            rec.count("accepted-correct");
            rec.seen("accepted_correct_families", fam.clone());
            rec.distinct(&(fam.as_str(), fault.key.src, fault.key.dst, pname));
        }
        Ok(_) => rec.violation(
            "tampering by one helper was accepted and changed the result determined by the honest helpers",
            json!({"kind": "accepted_wrong", "step_family": fam, "src": fault.key.src, "dst": fault.key.dst, "pattern": pname}),
            witness(),
        ),
        Err(e) => rec.violation(
            "tampering by one helper was accepted and left the honest helpers with inconsistent output shares",
            json!({"kind": "accepted_inconsistent_honest_shares", "step_family": fam, "src": fault.key.src, "dst": fault.key.dst, "pattern": pname}),
            json!({"w": witness(), "detail": e}),
        ),
    }
}

#[test]
fn verif_c02_tamper_sweep() {
    let env = vlib::env();
    let mut rec = Recorder::new("C02", "verif_c02_tamper_sweep");
    if let Some(w) = replay_fault() {
        let w = if w.get("hybrid_case").is_some() { w } else { w["w"].clone() };
        let case = HybridCase::from_json(&w["hybrid_case"]);
        let f = &w["fault"];
        let fault = Fault {
            key: ChanKey {
                gate: f["gate"].as_str().unwrap().to_string(),
                src: f["src"].as_u64().unwrap() as u8,
                dst: f["dst"].as_u64().unwrap() as u8,
                shard: f["shard"].as_u64().unwrap() as u32,
            },
            chunk_no: f["chunk"].as_u64().unwrap() as u32,
            pattern: parse_pattern(f["pattern"].as_str().unwrap()),
        };
        let expected = wl::reference_histogram(&case.reports, case.hv_bits);
        decide(&mut rec, &case, &expected, &fault, 0, 0);
        rec.finish();
        return;
    }
    // (input, shards, padding)
    let configs: Vec<(usize, usize, bool)> = if env.thorough {
        vec![(0, 1, false), (1, 1, true), (2, 1, false), (1, 2, false), (2, 2, true)]
    } else {
        vec![(1, 1, true), (2, 1, false), (0, 2, false)]
    };
    let mut idx = 0usize;
    for (which, shards, padding) in configs {
        let Some(p) = plan(&env, &mut rec, which, shards, padding) else { continue };
        for f in &p.families {
            rec.seen("step_families_seen", f.clone());
        }
        // quick: for S=2 only every 4th fault (S=1 already covers each family once per helper)
        for (n, (fault, len)) in p.faults.iter().enumerate() {
            idx += 1;
            if !env.thorough && shards > 1 && n % 4 != 0 {
                continue;
            }
            if !env.mine(idx) {
                continue;
            }
            decide(&mut rec, &p.case, &p.expected, fault, *len, idx);
            if rec.want_sample() && n % 37 == 5 {
                rec.sample(json!({"input": which, "shards": shards, "padding": padding, "fault": fault.to_json(), "chunk_len": len}));
            }
        }
        rec.add("faults_planned", p.faults.len() as u64);
    }
    rec.finish();
}

fn seen_first(seen: &mut [bool; 6], slot: usize) -> bool {
    let first = !seen[slot];
    seen[slot] = true;
    first
}

/// Coordinated two-message attack on the pseudonym computation inside a complete query: the corrupt helper adds
/// +d / -d to two lanes of the first vectorised record of its PRF multiplication message and the same offsets to the
/// share it sends when the product is opened. A MAC that does not bind every lane separately accepts this and the
/// query returns a different histogram. Oracle as for single faults: abort, or unchanged result.
#[test]
fn verif_c02_cross_lane_prf_attack() {
    use crate::ff::{Serializable, ec_prime_field::Fp25519};
    let env = vlib::env();
    let mut rec = Recorder::new("C02", "verif_c02_cross_lane_prf_attack");
    let n = env.pick(6, 24);
    for idx in 0..n {
        if !env.mine(idx) {
            continue;
        }
        let mut r = VRng::new(env.seed ^ 0x1a2e, idx as u64);
        let attacker = idx % 3;
        let shards = 1 + (idx / 3) % 2;
        // every row belongs to a pair, so two corrupted pseudonyms always change the histogram if accepted
        let mut reports = Vec::new();
        for k in 0..(if shards == 1 { 8 } else { 34 }) {
            reports.push(Rep::Imp { mk: 300 + k, bk: 1 + r.below(200) as u8 });
            reports.push(Rep::Conv { mk: 300 + k, v: 1 + r.below(7) as u8 });
        }
        r.shuffle(&mut reports);
        let case = HybridCase {
            assign: (0..reports.len()).map(|i| i % shards).collect(),
            reports,
            shards,
            malicious: true,
            padding: false,
            hv_bits: 32,
            world_seed: env.seed.wrapping_mul(733) + idx as u64,
            exec: Exec::Paused,
        };
        let expected = wl::reference_histogram(&case.reports, 32);
        let (l0, l1) = (r.below(16) as usize, 0usize);
        let l1 = (l0 + 1 + r.below(15) as usize + l1) % 16;
        let hits = Arc::new(Mutex::new((0u32, 0u32, [false; 6])));
        let h2 = Arc::clone(&hits);
        let interceptor: crate::helpers::in_memory_config::DynStreamInterceptor =
            Arc::new(move |ctx: &crate::helpers::in_memory_config::InspectContext, data: &mut Vec<u8>| {
                if let crate::helpers::in_memory_config::InspectContext::MpcMessage { source, dest, gate, shard } = ctx {
                    let ids = [crate::helpers::HelperIdentity::ONE, crate::helpers::HelperIdentity::TWO, crate::helpers::HelperIdentity::THREE];
                    let src = ids.iter().position(|i| i == source).unwrap();
                    let dst = ids.iter().position(|i| i == dest).unwrap();
                    let on_shard0 = shard.map(u32::from).unwrap_or(0) == 0;
                    let g = gate.as_ref();
                    let mult = g.ends_with("mult_mask_with_p_r_f_input") && src == attacker && dst == (attacker + 2) % 3;
                    // the opened share it sends to its right peer, and - so that the corrupt helper itself opens the same
                    // (shifted) value and behaves consistently afterwards - the two copies it receives (a corrupt helper
                    // may treat what it receives as it likes)
                    let reveal_out = g.ends_with("revealz") && src == attacker && dst == (attacker + 1) % 3;
                    let reveal_in = g.ends_with("revealz") && dst == attacker;
                    let reveal = reveal_out || reveal_in;
                    let mut h = h2.lock().unwrap();
                    let slot = if mult { 0 } else if reveal_out { 1 } else { 2 + src.min(2) };
                    if on_shard0 && (mult || reveal) && data.len() >= 32 * 16 && seen_first(&mut h.2, slot) {
                        let d = Fp25519::from(0x0dd_ba11_u64);
                        for (lane, plus) in [(l0, true), (l1, false)] {
                            let sl = &mut data[32 * lane..32 * (lane + 1)];
                            let v = Fp25519::deserialize_infallible(generic_array::GenericArray::from_slice(sl));
                            let v = if plus { v + d } else { v - d };
                            let mut buf = generic_array::GenericArray::default();
                            v.serialize(&mut buf);
                            sl.copy_from_slice(&buf);
                        }
                        if mult { h.0 += 1 } else { h.1 += 1 }
                    }
                }
            });
        let run = wl::run_hybrid(&case, Some(interceptor));
        let (hm, hr, _) = *hits.lock().unwrap();
        if hm == 0 {
            rec.inconclusive(format!("case {idx}: the PRF multiplication message was never seen"));
            continue;
        }
        rec.eval();
        rec.seen("lane_attack_messages_hit", format!("mult{hm}/reveal{hr}"));
        if !honest_all_ok(&run, attacker) {
            rec.count(abort_class(&run, attacker));
            rec.count("lane_attack_aborted");
            rec.distinct(&("lane", attacker, shards, l0, l1));
            continue;
        }
        match honest_value(&run, attacker) {
            Ok(v) if v == expected => rec.count("accepted-correct"),
            other => rec.violation(
                "a coordinated cross-lane alteration of the pseudonym multiplication and opening was accepted and changed the result",
                json!({"kind": "accepted_wrong", "attack": "cross_lane_prf", "multi_shard": shards > 1}),
                json!({"case": idx, "hybrid_case": case.to_json(), "attacker": attacker, "lanes": [l0, l1],
                       "honest_value": format!("{other:?}").chars().take(200).collect::<String>()}),
            ),
        }
    }
    rec.sample(json!({"attack": "+d/-d on two lanes of the PRF multiplication message and of the opened share", "lanes": 16}));
    rec.finish();
}
