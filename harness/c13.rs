// C13 Channel delivery: record i -> receive i, any order, no leaks, close, no deadlock.
//
// Histories are recorded AT THE CLIENT BOUNDARY of the gateway with one logical clock (the index
// into one event vector under one mutex): call/ret of `send(chan, i)`, `receive(chan, i)` and
// `close(chan)`. Payloads are unique ids (channel tag, record index) padded to the message width,
// so every read identifies its write. An offline checker (`judge`) decides
//   R1 receive(chan, i) returned exactly the payload sent for (chan, i), after send(chan, i) was called
//   R2 no payload of another (peer, step, shard) channel surfaced (classified by looking the bytes up)
//   R3 receive(total) = EndOfStream, send(i >= total) = TooManyRecords, legal operations succeed
//   R4 a workload with <= `active` records outstanding per channel completes (shuttle deadlock report /
//      paused-clock quiescence; open operations stay open in the history)
//   R5 EndOfStream is not observed before all `total` records were handed to send (before close() for
//      indeterminate channels)
// Executors: shuttle (random / PCT depth 3 / bounded DFS) in build b2, tokio paused clock, tokio
// multi-thread stress, and the deterministic poll scheduler (permutations of first polls).

use std::{
    collections::{HashMap, HashSet},
    future::Future,
    pin::Pin,
    sync::{Arc, Mutex},
    task::{Context as TaskContext, Poll, Waker},
};

use futures::{
    future::BoxFuture,
    stream::{FuturesUnordered, StreamExt},
};
use generic_array::GenericArray;
use serde_json::{Value, json};

use super::vlib::{self, Recorder, VRng, catch, catch_fut, fxhash, hex};
use crate::{
    ff::{
        Fp31, Fp32BitPrime, Fp61BitPrime, Gf40Bit, Serializable,
        boolean_array::{BA8, BA16, BA20, BA32, BA64, BA96, BA112, BA144, BA256},
        ec_prime_field::Fp25519,
    },
    helpers::{
        ChannelId, Error as HelperError, Gateway, GatewayConfig, Message, MpcMessage,
        MpcReceivingEnd, Role, SendingEnd, ShardReceivingEnd, TotalRecords,
    },
    protocol::{Gate, RecordId},
    sharding::ShardIndex,
    test_fixture::{TestWorld, TestWorldConfig, WithShards},
};

// ---------------------------------------------------------------------------------------------
// message types by width
// ---------------------------------------------------------------------------------------------

const WIDTHS: [usize; 10] = [1, 2, 3, 4, 5, 8, 12, 14, 18, 32];

fn n_alts(w: usize) -> u8 {
    match w {
        1 | 4 | 8 | 32 => 2,
        _ => 1,
    }
}

fn type_name(w: usize, alt: u8) -> &'static str {
    match (w, alt) {
        (1, 0) => "BA8",
        (1, _) => "Fp31",
        (2, _) => "BA16",
        (3, _) => "BA20",
        (4, 0) => "BA32",
        (4, _) => "Fp32BitPrime",
        (5, _) => "Gf40Bit",
        (8, 0) => "BA64",
        (8, _) => "Fp61BitPrime",
        (12, _) => "BA96",
        (14, _) => "BA112",
        (18, _) => "BA144",
        (32, 0) => "BA256",
        (32, _) => "Fp25519",
        _ => "?",
    }
}

/// `with_msg!(w, alt, M => expr)` evaluates `expr` with `M` bound to the message type of that width.
macro_rules! with_msg {
    ($w:expr, $alt:expr, $m:ident => $body:expr) => {
        match ($w, $alt) {
            (1, 0) => { type $m = BA8; $body }
            (1, _) => { type $m = Fp31; $body }
            (2, _) => { type $m = BA16; $body }
            (3, _) => { type $m = BA20; $body }
            (4, 0) => { type $m = BA32; $body }
            (4, _) => { type $m = Fp32BitPrime; $body }
            (5, _) => { type $m = Gf40Bit; $body }
            (8, 0) => { type $m = BA64; $body }
            (8, _) => { type $m = Fp61BitPrime; $body }
            (12, _) => { type $m = BA96; $body }
            (14, _) => { type $m = BA112; $body }
            (18, _) => { type $m = BA144; $body }
            (32, 0) => { type $m = BA256; $body }
            (32, _) => { type $m = Fp25519; $body }
            (w, _) => panic!("harness: no message type of width {w}"),
        }
    };
}

fn encode<M: Serializable>(m: &M) -> Vec<u8> {
    let mut b = GenericArray::<u8, M::Size>::default();
    m.serialize(&mut b);
    b.to_vec()
}

fn decode<M: Serializable>(b: &[u8]) -> M {
    match M::deserialize(GenericArray::from_slice(b)) {
        Ok(m) => m,
        Err(_) => panic!("harness: payload {} is not a canonical encoding", hex(b)),
    }
}

/// Clear as few top bits of the last byte as needed for `raw` to be a canonical encoding of `M`.
fn canon<M: Serializable>(raw: &[u8]) -> Vec<u8> {
    for k in 0..=8u32 {
        let mut b = raw.to_vec();
        let last = b.len() - 1;
        b[last] &= (0xffu16 >> k) as u8;
        if let Ok(m) = M::deserialize(GenericArray::from_slice(&b)) {
            if encode(&m) == b {
                return b;
            }
        }
    }
    panic!("harness: cannot canonicalise {}", hex(raw));
}

/// Unique id of (channel, record) padded to the width. Widths >= 8 carry the tag and the index in
/// clear, narrower ones a hash of both.
fn raw_payload(salt: u64, tag: u32, i: usize, w: usize) -> Vec<u8> {
    let mut out = Vec::with_capacity(w);
    if w >= 8 {
        out.extend(tag.to_le_bytes());
        out.extend((i as u32).to_le_bytes());
    }
    let mut r = VRng::new(salt ^ (u64::from(tag) << 17), i as u64);
    while out.len() < w {
        out.push(r.next() as u8);
    }
    out
}

// ---------------------------------------------------------------------------------------------
// case description
// ---------------------------------------------------------------------------------------------

#[derive(Clone, Copy, Debug, PartialEq, Eq, Hash)]
enum Mode {
    /// no coordination between the two ends
    Free,
    /// send(i) is called only after receive(i) was requested (request before the data)
    RecvFirst,
    /// receive(i) is requested only after send(i) returned (data before the request)
    SendFirst,
    /// duplex pair of channels used like a multiplication with batched validation: unit i = send(i) on
    /// the own channel, then receive(i) on the reverse channel, then wait until every receive of the
    /// batch [k*active, (k+1)*active) returned; at most `active` units are outstanding
    Circuit,
}

#[derive(Clone, Copy, Debug, PartialEq, Eq, Hash)]
enum Kind {
    Mpc { from: u8, to: u8, shard: u8 },
    Shard { helper: u8, from: u8, to: u8 },
}

impl Kind {
    fn label(&self) -> String {
        match self {
            Kind::Mpc { from, to, .. } => format!("mpc:H{}->H{}", from + 1, to + 1),
            Kind::Shard { .. } => "shard".to_string(),
        }
    }
    fn is_mpc(&self) -> bool {
        matches!(self, Kind::Mpc { .. })
    }
}

#[derive(Clone, Debug)]
struct Chan {
    kind: Kind,
    gate: String,
    w: usize,
    alt: u8,
    /// records actually sent
    n: usize,
    /// declared total (None = TotalRecords::Indeterminate, closed explicitly at n)
    total: Option<usize>,
    total_class: &'static str,
    /// window used by both drivers (= active work of the channel)
    active: usize,
    mode: Mode,
    send_order: Vec<usize>,
    /// n+1 entries for MPC channels: index n is the EndOfStream probe
    recv_order: Vec<usize>,
    spawn_ops: bool,
    per_op: bool,
    /// number of returned sends after which send(total + d) probes are issued
    probe_at: usize,
    probe_offsets: Vec<usize>,
    tag: u32,
    payloads: Vec<Vec<u8>>,
    probe_payload: Vec<u8>,
    /// Circuit mode: index of the reverse channel
    peer: Option<usize>,
}

#[derive(Clone, Copy, Debug, PartialEq, Eq)]
enum Jit {
    /// virtual-time sleeps (paused clock)
    Sleep,
    /// yields
    Yield,
    None,
}

#[derive(Clone, Debug)]
struct Case {
    idx: usize,
    world_seed: u64,
    active: usize,
    read_size: usize,
    shards: usize,
    chans: Vec<Chan>,
    jitter_seed: u64,
    jit: Jit,
}

impl Chan {
    fn to_json(&self) -> Value {
        json!({
            "kind": format!("{:?}", self.kind), "gate": self.gate, "width": self.w, "type": type_name(self.w, self.alt),
            "n": self.n, "total": self.total, "total_class": self.total_class, "active": self.active,
            "mode": format!("{:?}", self.mode), "send_order": self.send_order, "recv_order": self.recv_order,
            "spawn_ops": self.spawn_ops, "per_op_endpoint": self.per_op, "probe_at": self.probe_at,
            "probe_offsets": self.probe_offsets, "tag": self.tag, "reverse_channel": self.peer,
        })
    }
}

impl Case {
    fn to_json(&self) -> Value {
        json!({
            "case": self.idx, "world_seed": self.world_seed, "active": self.active, "read_size": self.read_size,
            "shards": self.shards, "jitter_seed": self.jitter_seed, "jit": format!("{:?}", self.jit),
            "channels": self.chans.iter().map(Chan::to_json).collect::<Vec<_>>(),
        })
    }
    fn shape(&self) -> String {
        let mut s = format!("a{}r{}s{}", self.active, self.read_size, self.shards);
        for c in &self.chans {
            s.push_str(&format!(
                "|{}{}w{}{}n{}{}{:?}",
                c.kind.label(),
                c.gate,
                c.w,
                c.alt,
                c.n,
                c.total_class,
                c.mode
            ));
        }
        s
    }
}

/// Order in which indices 0..n are handed out such that each one is < (lowest not yet handed out) + w.
fn windowed_order(r: &mut VRng, n: usize, w: usize, style: u64) -> Vec<usize> {
    let mut done = vec![false; n];
    let mut low = 0;
    let mut out = Vec::with_capacity(n);
    while out.len() < n {
        while low < n && done[low] {
            low += 1;
        }
        let hi = (low + w).min(n);
        let avail: Vec<usize> = (low..hi).filter(|i| !done[*i]).collect();
        let pick = match style {
            0 => avail[0],
            1 => *avail.last().unwrap(),
            _ => *r.choose(&avail),
        };
        done[pick] = true;
        out.push(pick);
    }
    out
}

#[derive(Clone, Copy)]
struct Flavor {
    max_k: usize,
    actives: &'static [usize],
    /// allowed total classes (indices into CLASSES)
    classes: &'static [usize],
    shard_worlds: bool,
    circuits: bool,
    jit: Jit,
}

const CLASSES: [&str; 7] = ["1", "2", "a-1", "a", "a+1", "3a", "indet"];

fn class_n(class: usize, a: usize, r: &mut VRng) -> (usize, Option<usize>) {
    let n_of = |c: usize| match c {
        0 => 1,
        1 => 2,
        2 => a - 1,
        3 => a,
        4 => a + 1,
        _ => 3 * a,
    };
    if class == 6 {
        (n_of(r.below(6) as usize), None)
    } else {
        let n = n_of(class);
        (n, Some(n))
    }
}

const GATES: [&str; 6] = ["c13/a", "c13/ab", "c13/a/b", "c13/b", "g1", "g10"];
const SMALL_READ: [usize; 6] = [1, 3, 7, 16, 40, 96];

fn gen_case(seed: u64, idx: usize, fl: Flavor) -> Case {
    let mut r = VRng::new(seed ^ 0xC13_0001, idx as u64);
    let active = fl.actives[idx % fl.actives.len()];
    let read_size = if (idx / fl.actives.len()) % 2 == 0 {
        SMALL_READ[(idx / (2 * fl.actives.len())) % SMALL_READ.len()]
    } else {
        2048
    };
    let shards = if fl.shard_worlds && idx % 3 == 2 { 2 + (idx / 3) % 2 } else { 1 };
    let circuit = fl.circuits && idx % 4 == 3;
    let k = if circuit { 2 * (1 + (idx / 8) % (fl.max_k / 2).max(1)) } else { 1 + (idx / 2) % fl.max_k };
    let mut chans: Vec<Chan> = Vec::new();
    let mut used: HashSet<(Kind, String)> = HashSet::new();
    let salt = r.next();
    while chans.len() < k {
        // relation to the previous channel: same gate to another peer / reverse direction / unrelated
        let rel = r.below(4);
        let prev = chans.last().map(|c| (c.kind, c.gate.clone()));
        let want_shard = !circuit && shards > 1 && (chans.len() % 2 == 1 || r.below(3) == 0);
        // circuit: every odd channel is the reverse of its predecessor
        let rel = if circuit { if chans.len() % 2 == 1 { 1 } else { 3 } } else { rel };
        let (kind, gate) = match (prev, rel, want_shard) {
            (Some((Kind::Mpc { from, to, shard }, g)), 0, false) => (Kind::Mpc { from, to: 3 - from - to, shard }, g),
            (Some((Kind::Mpc { from, to, shard }, g)), 1, false) => (Kind::Mpc { from: to, to: from, shard }, g),
            // same peers, another (look-alike) step
            (Some((k @ Kind::Mpc { .. }, _)), 2, false) => (k, GATES[r.below(6) as usize].to_string()),
            (Some((k @ Kind::Shard { .. }, _)), 2, true) => (k, GATES[r.below(6) as usize].to_string()),
            (Some((Kind::Shard { helper, from, to }, g)), 0, true) => (Kind::Shard { helper, from: to, to: from }, g),
            (_, _, true) => {
                let from = r.below(shards as u64) as u8;
                let to = (from + 1 + r.below(shards as u64 - 1) as u8) % shards as u8;
                (Kind::Shard { helper: r.below(3) as u8, from, to }, GATES[r.below(6) as usize].to_string())
            }
            _ => {
                let from = r.below(3) as u8;
                let to = (from + 1 + r.below(2) as u8) % 3;
                (
                    Kind::Mpc { from, to, shard: r.below(shards as u64) as u8 },
                    GATES[r.below(6) as usize].to_string(),
                )
            }
        };
        let ci = chans.len();
        if circuit {
            if ci % 2 == 0 {
                let Kind::Mpc { from, to, shard } = kind else { unreachable!() };
                let rev = Kind::Mpc { from: to, to: from, shard };
                if used.contains(&(kind, gate.clone())) || used.contains(&(rev, gate.clone())) {
                    continue;
                }
                used.insert((kind, gate.clone()));
                used.insert((rev, gate.clone()));
            }
        } else if !used.insert((kind, gate.clone())) {
            continue;
        }
        let w = WIDTHS[(idx + 3 * ci) % WIDTHS.len()];
        let alt = (r.below(u64::from(n_alts(w)))) as u8;
        // channel-level active work: MPC senders may override the gateway's value in both directions
        // (the receiving side always uses the gateway's)
        let ch_active = match (kind.is_mpc(), r.below(4)) {
            (true, 0) if active > 2 => active / 2,
            (true, 1) if active < 16 => active * 2,
            _ => active,
        };
        let class = fl.classes[(idx / 3 + 2 * ci) % fl.classes.len()];
        let (n, total) = class_n(class, ch_active, &mut r);
        let mode = match (idx / 5 + ci) % 3 {
            _ if circuit => Mode::Circuit,
            0 => Mode::Free,
            1 => Mode::RecvFirst,
            _ => Mode::SendFirst,
        };
        if circuit && ci % 2 == 1 {
            // the reverse channel mirrors the forward one
            let f = chans[ci - 1].clone();
            let tag = fxhash(&(format!("{kind:?}"), &gate, salt)) as u32;
            let payloads: Vec<Vec<u8>> = (0..f.n)
                .map(|i| {
                    let raw = raw_payload(salt, tag, i, f.w);
                    with_msg!(f.w, f.alt, M => canon::<M>(&raw))
                })
                .collect();
            let st = r.below(3);
            chans[ci - 1].peer = Some(ci);
            chans.push(Chan {
                kind,
                gate,
                send_order: windowed_order(&mut r, f.n, f.active, st),
                tag,
                payloads,
                peer: Some(ci - 1),
                per_op: r.below(3) == 0,
                ..f
            });
            continue;
        }
        let send_order = windowed_order(&mut r, n, ch_active, (idx as u64 + ci as u64) % 3);
        let recv_order = if kind.is_mpc() {
            let st = r.below(3);
            windowed_order(&mut r, n + 1, ch_active, st)
        } else {
            (0..=n).collect()
        };
        let tag = fxhash(&(format!("{kind:?}"), &gate, salt)) as u32;
        let payloads: Vec<Vec<u8>> = (0..n)
            .map(|i| {
                let raw = raw_payload(salt, tag, i, w);
                with_msg!(w, alt, M => canon::<M>(&raw))
            })
            .collect();
        let probe_payload = {
            let raw = raw_payload(salt ^ 0x55, tag, 0xffff, w);
            with_msg!(w, alt, M => canon::<M>(&raw))
        };
        let probe_offsets = match r.below(3) {
            0 => vec![0],
            1 => vec![0, 1],
            _ => vec![0, 1000],
        };
        chans.push(Chan {
            kind,
            gate,
            w,
            alt,
            n,
            total,
            total_class: CLASSES[class],
            active: ch_active,
            mode,
            send_order,
            recv_order,
            spawn_ops: r.below(2) == 0,
            per_op: r.below(3) == 0,
            probe_at: [0, n / 2, n][r.below(3) as usize],
            probe_offsets,
            tag,
            payloads,
            probe_payload,
            peer: None,
        });
    }
    Case {
        idx,
        world_seed: seed.wrapping_mul(1000).wrapping_add(idx as u64),
        active,
        read_size,
        shards,
        chans,
        jitter_seed: r.next(),
        jit: fl.jit,
    }
}

// ---------------------------------------------------------------------------------------------
// history
// ---------------------------------------------------------------------------------------------

#[derive(Clone, Debug, PartialEq, Eq)]
enum SendRes {
    Ok,
    TooMany,
    Err(String),
    Panic(String),
}

#[derive(Clone, Debug, PartialEq, Eq)]
enum RecvRes {
    Data(Vec<u8>),
    Eos,
    Err(String),
    Panic(String),
}

#[derive(Clone, Debug)]
enum Ev {
    CallSend(usize, usize),
    RetSend(usize, usize, SendRes),
    CallRecv(usize, usize),
    RetRecv(usize, usize, RecvRes),
    CallClose(usize),
    RetClose(usize, Result<(), String>),
    /// creating an endpoint panicked
    Broken(usize, String),
}

impl Ev {
    fn brief(&self) -> String {
        match self {
            Ev::CallSend(c, i) => format!("call send({c},{i})"),
            Ev::RetSend(c, i, r) => format!("ret send({c},{i}) = {r:?}"),
            Ev::CallRecv(c, i) => format!("call receive({c},{i})"),
            Ev::RetRecv(c, i, RecvRes::Data(d)) => format!("ret receive({c},{i}) = {}", hex(d)),
            Ev::RetRecv(c, i, r) => format!("ret receive({c},{i}) = {r:?}"),
            Ev::CallClose(c) => format!("call close({c})"),
            Ev::RetClose(c, r) => format!("ret close({c}) = {r:?}"),
            Ev::Broken(c, m) => format!("endpoint({c}) panicked: {m}"),
        }
    }
    /// (kind, channel, index) without payloads: the schedule-relevant part
    fn key(&self) -> (u8, usize, usize) {
        match self {
            Ev::CallSend(c, i) => (0, *c, *i),
            Ev::RetSend(c, i, _) => (1, *c, *i),
            Ev::CallRecv(c, i) => (2, *c, *i),
            Ev::RetRecv(c, i, _) => (3, *c, *i),
            Ev::CallClose(c) => (4, *c, 0),
            Ev::RetClose(c, _) => (5, *c, 0),
            Ev::Broken(c, _) => (6, *c, 0),
        }
    }
}

#[derive(Default)]
struct Board {
    events: Vec<Ev>,
    wakers: Vec<Waker>,
    send_ret: Vec<Vec<bool>>,
    sends_returned: Vec<usize>,
    recv_called: Vec<Vec<bool>>,
    recv_ret: Vec<Vec<bool>>,
    close_ret: Vec<bool>,
}

type Hist = Arc<Mutex<Board>>;

fn new_hist(case: &Case) -> Hist {
    Arc::new(Mutex::new(Board {
        events: Vec::new(),
        wakers: Vec::new(),
        send_ret: case.chans.iter().map(|c| vec![false; c.n]).collect(),
        sends_returned: vec![0; case.chans.len()],
        recv_called: case.chans.iter().map(|c| vec![false; c.n + 1]).collect(),
        recv_ret: case.chans.iter().map(|c| vec![false; c.n + 1]).collect(),
        close_ret: vec![false; case.chans.len()],
    }))
}

fn log(h: &Hist, ev: Ev) {
    let wakers = {
        let mut b = h.lock().unwrap_or_else(|e| e.into_inner());
        match &ev {
            Ev::RetSend(c, i, _) if *i < b.send_ret[*c].len() => {
                b.send_ret[*c][*i] = true;
                b.sends_returned[*c] += 1;
            }
            Ev::CallRecv(c, i) if *i < b.recv_called[*c].len() => b.recv_called[*c][*i] = true,
            Ev::RetRecv(c, i, _) if *i < b.recv_ret[*c].len() => b.recv_ret[*c][*i] = true,
            Ev::RetClose(c, _) => b.close_ret[*c] = true,
            _ => {}
        }
        b.events.push(ev);
        std::mem::take(&mut b.wakers)
    };
    for w in wakers {
        w.wake();
    }
}

#[derive(Clone, Copy, Debug)]
enum GateCond {
    Open,
    RecvCalled(usize, usize),
    SendReturned(usize, usize),
    /// all n sends returned (and close returned when `need_close`)
    AllSent(usize, usize, bool),
    /// every receive of records lo..hi of the channel returned
    BatchReceived(usize, usize, usize),
}

struct WaitGate {
    h: Hist,
    cond: GateCond,
}

impl Future for WaitGate {
    type Output = ();
    fn poll(self: Pin<&mut Self>, cx: &mut TaskContext<'_>) -> Poll<()> {
        let mut b = self.h.lock().unwrap_or_else(|e| e.into_inner());
        let open = match self.cond {
            GateCond::Open => true,
            GateCond::RecvCalled(c, i) => b.recv_called[c][i],
            GateCond::SendReturned(c, i) => b.send_ret[c][i],
            GateCond::AllSent(c, n, need_close) => b.sends_returned[c] >= n && (!need_close || b.close_ret[c]),
            GateCond::BatchReceived(c, lo, hi) => (lo..hi).all(|i| b.recv_ret[c][i]),
        };
        if open {
            Poll::Ready(())
        } else {
            b.wakers.push(cx.waker().clone());
            Poll::Pending
        }
    }
}

// ---------------------------------------------------------------------------------------------
// executor shims
// ---------------------------------------------------------------------------------------------

#[cfg(feature = "shuttle")]
fn spawn_task<T: Send + 'static>(f: impl Future<Output = T> + Send + 'static) -> BoxFuture<'static, T> {
    let h = shuttle::future::spawn(f);
    Box::pin(async move { h.await.expect("harness: shuttle task cancelled") })
}

#[cfg(not(feature = "shuttle"))]
fn spawn_task<T: Send + 'static>(f: impl Future<Output = T> + Send + 'static) -> BoxFuture<'static, T> {
    let h = tokio::spawn(f);
    Box::pin(async move { h.await.expect("harness: task failed") })
}

#[cfg(feature = "shuttle")]
async fn jitter(j: Jit, k: u64) {
    if j != Jit::None {
        for _ in 0..(k % 3) {
            shuttle::future::yield_now().await;
        }
    }
}

#[cfg(not(feature = "shuttle"))]
async fn jitter(j: Jit, k: u64) {
    match j {
        Jit::Sleep if k > 0 => tokio::time::sleep(std::time::Duration::from_micros(k)).await,
        Jit::Yield => {
            for _ in 0..(k % 3) {
                tokio::task::yield_now().await;
            }
        }
        _ => {}
    }
}

// ---------------------------------------------------------------------------------------------
// the world and type-erased channel ends
// ---------------------------------------------------------------------------------------------

enum World {
    N(TestWorld),
    S2(TestWorld<WithShards<2>>),
    S3(TestWorld<WithShards<3>>),
}

impl World {
    fn new(case: &Case) -> World {
        let mut cfg = TestWorldConfig::default();
        cfg.seed = case.world_seed;
        cfg.timeout = None;
        cfg.gateway_config = GatewayConfig {
            active: case.active.try_into().unwrap(),
            read_size: case.read_size.try_into().unwrap(),
            ..Default::default()
        };
        match case.shards {
            1 => World::N(TestWorld::new_with(&cfg)),
            2 => World::S2(TestWorld::<WithShards<2>>::with_shards(&cfg)),
            3 => World::S3(TestWorld::<WithShards<3>>::with_shards(&cfg)),
            n => panic!("harness: unsupported shard count {n}"),
        }
    }
    fn gateway(&self, role: u8, shard: u8) -> &Gateway {
        let role = Role::all()[usize::from(role)];
        match self {
            World::N(w) => w.gateway(role),
            World::S2(w) => w.gateway(role, ShardIndex::from(u32::from(shard))),
            World::S3(w) => w.gateway(role, ShardIndex::from(u32::from(shard))),
        }
    }
}

trait TxEnd: Send + Sync {
    fn send(&self, i: usize, payload: Vec<u8>) -> BoxFuture<'_, SendRes>;
    fn close(&self, at: usize) -> BoxFuture<'_, Result<(), String>>;
}

trait RxEnd: Send + Sync {
    fn recv(&self, i: usize) -> BoxFuture<'_, RecvRes>;
}

fn total_records(ch: &Chan) -> TotalRecords {
    match ch.total {
        Some(t) => TotalRecords::specified(t).unwrap(),
        None => TotalRecords::Indeterminate,
    }
}

fn gate_of(ch: &Chan) -> Gate {
    Gate::from(ch.gate.as_str())
}

fn class_send<I: crate::helpers::TransportIdentity>(r: Result<Result<(), HelperError<I>>, String>) -> SendRes {
    match r {
        Ok(Ok(())) => SendRes::Ok,
        Ok(Err(HelperError::TooManyRecords { .. })) => SendRes::TooMany,
        Ok(Err(e)) => SendRes::Err(format!("{e}")),
        Err(p) => SendRes::Panic(p),
    }
}

struct MpcTx<M: MpcMessage> {
    world: Arc<World>,
    from: u8,
    shard: u8,
    id: ChannelId<Role>,
    total: TotalRecords,
    active: usize,
    fixed: Option<SendingEnd<Role, M>>,
}

impl<M: MpcMessage> MpcTx<M> {
    fn end(&self) -> SendingEnd<Role, M> {
        self.world.gateway(self.from, self.shard).get_mpc_sender::<M>(
            &self.id,
            self.total,
            self.active.try_into().unwrap(),
        )
    }
}

impl<M: MpcMessage> TxEnd for MpcTx<M> {
    fn send(&self, i: usize, payload: Vec<u8>) -> BoxFuture<'_, SendRes> {
        Box::pin(async move {
            let m: M = decode(&payload);
            let r = match &self.fixed {
                Some(s) => catch_fut(s.send(RecordId::from(i), m)).await,
                None => {
                    catch_fut(async {
                        let s = self.end();
                        s.send(RecordId::from(i), m).await
                    })
                    .await
                }
            };
            class_send(r)
        })
    }
    fn close(&self, at: usize) -> BoxFuture<'_, Result<(), String>> {
        Box::pin(async move {
            match &self.fixed {
                Some(s) => catch_fut(s.close(RecordId::from(at))).await,
                None => {
                    catch_fut(async {
                        let s = self.end();
                        s.close(RecordId::from(at)).await;
                    })
                    .await
                }
            }
        })
    }
}

struct ShardTx<M: Message> {
    world: Arc<World>,
    helper: u8,
    from: u8,
    id: ChannelId<ShardIndex>,
    total: TotalRecords,
    fixed: Option<SendingEnd<ShardIndex, M>>,
}

impl<M: Message> ShardTx<M> {
    fn end(&self) -> SendingEnd<ShardIndex, M> {
        self.world.gateway(self.helper, self.from).get_shard_sender::<M>(&self.id, self.total)
    }
}

impl<M: Message> TxEnd for ShardTx<M> {
    fn send(&self, i: usize, payload: Vec<u8>) -> BoxFuture<'_, SendRes> {
        Box::pin(async move {
            let m: M = decode(&payload);
            let r = match &self.fixed {
                Some(s) => catch_fut(s.send(RecordId::from(i), m)).await,
                None => {
                    catch_fut(async {
                        let s = self.end();
                        s.send(RecordId::from(i), m).await
                    })
                    .await
                }
            };
            class_send(r)
        })
    }
    fn close(&self, at: usize) -> BoxFuture<'_, Result<(), String>> {
        Box::pin(async move {
            match &self.fixed {
                Some(s) => catch_fut(s.close(RecordId::from(at))).await,
                None => {
                    catch_fut(async {
                        let s = self.end();
                        s.close(RecordId::from(at)).await;
                    })
                    .await
                }
            }
        })
    }
}

struct MpcRx<M: MpcMessage> {
    world: Arc<World>,
    to: u8,
    shard: u8,
    id: ChannelId<Role>,
    fixed: Option<MpcReceivingEnd<M>>,
}

impl<M: MpcMessage> RxEnd for MpcRx<M> {
    fn recv(&self, i: usize) -> BoxFuture<'_, RecvRes> {
        Box::pin(async move {
            let r = match &self.fixed {
                Some(e) => catch_fut(e.receive(RecordId::from(i))).await,
                None => {
                    catch_fut(async {
                        let e = self.world.gateway(self.to, self.shard).get_mpc_receiver::<M>(&self.id);
                        e.receive(RecordId::from(i)).await
                    })
                    .await
                }
            };
            match r {
                Ok(Ok(m)) => RecvRes::Data(encode(&m)),
                Ok(Err(HelperError::EndOfStream { .. })) => RecvRes::Eos,
                Ok(Err(e)) => RecvRes::Err(format!("{e}")),
                Err(p) => RecvRes::Panic(p),
            }
        })
    }
}

struct ShardRx<M: Message> {
    rx: futures::lock::Mutex<Pin<Box<ShardReceivingEnd<M>>>>,
}

impl<M: Message> RxEnd for ShardRx<M> {
    fn recv(&self, _i: usize) -> BoxFuture<'_, RecvRes> {
        Box::pin(async move {
            let mut g = self.rx.lock().await;
            match catch_fut(g.as_mut().next()).await {
                Ok(Some(Ok(m))) => RecvRes::Data(encode(&m)),
                Ok(None) => RecvRes::Eos,
                Ok(Some(Err(e))) => RecvRes::Err(format!("{e}")),
                Err(p) => RecvRes::Panic(p),
            }
        })
    }
}

fn mk_mpc_tx<M: MpcMessage>(world: &Arc<World>, ch: &Chan, from: u8, to: u8, shard: u8) -> Arc<dyn TxEnd> {
    let mut tx = MpcTx::<M> {
        world: Arc::clone(world),
        from,
        shard,
        id: ChannelId::new(Role::all()[usize::from(to)], gate_of(ch)),
        total: total_records(ch),
        active: ch.active,
        fixed: None,
    };
    if !ch.per_op {
        tx.fixed = Some(tx.end());
    }
    Arc::new(tx)
}

fn mk_shard_tx<M: Message>(world: &Arc<World>, ch: &Chan, helper: u8, from: u8, to: u8) -> Arc<dyn TxEnd> {
    let mut tx = ShardTx::<M> {
        world: Arc::clone(world),
        helper,
        from,
        id: ChannelId::new(ShardIndex::from(u32::from(to)), gate_of(ch)),
        total: total_records(ch),
        fixed: None,
    };
    if !ch.per_op {
        tx.fixed = Some(tx.end());
    }
    Arc::new(tx)
}

fn mk_mpc_rx<M: MpcMessage>(world: &Arc<World>, ch: &Chan, from: u8, to: u8, shard: u8) -> Arc<dyn RxEnd> {
    let id = ChannelId::new(Role::all()[usize::from(from)], gate_of(ch));
    let fixed = if ch.per_op { None } else { Some(world.gateway(to, shard).get_mpc_receiver::<M>(&id)) };
    Arc::new(MpcRx::<M> { world: Arc::clone(world), to, shard, id, fixed })
}

fn mk_shard_rx<M: Message>(world: &Arc<World>, ch: &Chan, helper: u8, from: u8, to: u8) -> Arc<dyn RxEnd> {
    let id = ChannelId::new(ShardIndex::from(u32::from(from)), gate_of(ch));
    let end = world.gateway(helper, to).get_shard_receiver::<M>(&id);
    Arc::new(ShardRx::<M> { rx: futures::lock::Mutex::new(Box::pin(end)) })
}

fn make_tx(world: &Arc<World>, ch: &Chan) -> Arc<dyn TxEnd> {
    match ch.kind {
        Kind::Mpc { from, to, shard } => with_msg!(ch.w, ch.alt, M => mk_mpc_tx::<M>(world, ch, from, to, shard)),
        Kind::Shard { helper, from, to } => with_msg!(ch.w, ch.alt, M => mk_shard_tx::<M>(world, ch, helper, from, to)),
    }
}

fn make_rx(world: &Arc<World>, ch: &Chan) -> Arc<dyn RxEnd> {
    match ch.kind {
        Kind::Mpc { from, to, shard } => with_msg!(ch.w, ch.alt, M => mk_mpc_rx::<M>(world, ch, from, to, shard)),
        Kind::Shard { helper, from, to } => with_msg!(ch.w, ch.alt, M => mk_shard_rx::<M>(world, ch, helper, from, to)),
    }
}

// ---------------------------------------------------------------------------------------------
// client operations and drivers
// ---------------------------------------------------------------------------------------------

fn send_op(
    h: &Hist,
    tx: &Arc<dyn TxEnd>,
    c: usize,
    i: usize,
    payload: Vec<u8>,
    gate: GateCond,
    jit: (Jit, u64),
    spawn: bool,
) -> BoxFuture<'static, usize> {
    let h = Arc::clone(h);
    let tx = Arc::clone(tx);
    let f = async move {
        WaitGate { h: Arc::clone(&h), cond: gate }.await;
        jitter(jit.0, jit.1).await;
        log(&h, Ev::CallSend(c, i));
        let r = tx.send(i, payload).await;
        log(&h, Ev::RetSend(c, i, r));
        i
    };
    if spawn { spawn_task(f) } else { Box::pin(f) }
}

fn recv_op(
    h: &Hist,
    rx: &Arc<dyn RxEnd>,
    c: usize,
    i: usize,
    gate: GateCond,
    jit: (Jit, u64),
    spawn: bool,
) -> BoxFuture<'static, usize> {
    let h = Arc::clone(h);
    let rx = Arc::clone(rx);
    let f = async move {
        WaitGate { h: Arc::clone(&h), cond: gate }.await;
        jitter(jit.0, jit.1).await;
        log(&h, Ev::CallRecv(c, i));
        let r = rx.recv(i).await;
        log(&h, Ev::RetRecv(c, i, r));
        i
    };
    if spawn { spawn_task(f) } else { Box::pin(f) }
}

/// Starts the operations of `order` (a priority order) such that an index is only started while it is
/// < (lowest unfinished index) + w; an index that is not yet inside the window never holds back a later
/// entry of `order` that is, so every index inside the window is eventually started.
async fn windowed(order: &[usize], w: usize, mut start: impl FnMut(usize) -> BoxFuture<'static, usize>, mut on_ret: impl FnMut(usize) -> Vec<BoxFuture<'static, usize>>) {
    let n = order.len();
    let mut finished = vec![false; n];
    let mut started = vec![false; n];
    let mut nstarted = 0;
    let mut low = 0;
    let mut nret = 0;
    let mut pending = FuturesUnordered::new();
    for f in on_ret(0) {
        pending.push(f);
    }
    loop {
        for &i in order {
            if !started[i] && i < low + w {
                started[i] = true;
                nstarted += 1;
                pending.push(start(i));
            }
        }
        let Some(i) = pending.next().await else { break };
        if i < n {
            finished[i] = true;
            nret += 1;
            while low < n && finished[low] {
                low += 1;
            }
            for f in on_ret(nret) {
                pending.push(f);
            }
        }
    }
    assert!(nstarted == n, "harness: window stalled with nothing in flight");
}

async fn sender_driver(h: Hist, world: Arc<World>, case: Arc<Case>, c: usize) {
    let ch = &case.chans[c];
    let mut jr = VRng::new(case.jitter_seed, 2 * c as u64);
    jitter(case.jit, jr.below(8)).await;
    let tx = match catch(|| make_tx(&world, ch)) {
        Ok(tx) => tx,
        Err(p) => {
            log(&h, Ev::Broken(c, p));
            return;
        }
    };
    let jits: Vec<u64> = (0..ch.n + 4).map(|_| jr.below(40)).collect();
    let weak_gate = !ch.kind.is_mpc();
    windowed(
        &ch.send_order,
        ch.active,
        |i| {
            let gate = match ch.mode {
                Mode::RecvFirst if !weak_gate || i == 0 => GateCond::RecvCalled(c, i),
                _ => GateCond::Open,
            };
            send_op(&h, &tx, c, i, ch.payloads[i].clone(), gate, (case.jit, jits[i]), ch.spawn_ops)
        },
        |nret| {
            // probes beyond the declared total: indices >= n are not part of the window accounting
            match ch.total {
                Some(t) if nret == ch.probe_at => ch
                    .probe_offsets
                    .iter()
                    .map(|d| send_op(&h, &tx, c, t + d, ch.probe_payload.clone(), GateCond::Open, (case.jit, jits[ch.n]), false))
                    .collect(),
                _ => Vec::new(),
            }
        },
    )
    .await;
    if ch.total.is_none() {
        jitter(case.jit, jits[ch.n + 1]).await;
        log(&h, Ev::CallClose(c));
        let r = tx.close(ch.n).await;
        log(&h, Ev::RetClose(c, r));
    }
}

async fn receiver_driver(h: Hist, world: Arc<World>, case: Arc<Case>, c: usize) {
    let ch = &case.chans[c];
    let mut jr = VRng::new(case.jitter_seed, 2 * c as u64 + 1);
    jitter(case.jit, jr.below(8)).await;
    let rx = match catch(|| make_rx(&world, ch)) {
        Ok(rx) => rx,
        Err(p) => {
            log(&h, Ev::Broken(c, p));
            return;
        }
    };
    let jits: Vec<u64> = (0..ch.n + 2).map(|_| jr.below(40)).collect();
    let w = if ch.kind.is_mpc() { ch.active } else { 1 };
    windowed(
        &ch.recv_order,
        w,
        |i| {
            let gate = match ch.mode {
                Mode::SendFirst if i < ch.n => GateCond::SendReturned(c, i),
                Mode::SendFirst => GateCond::AllSent(c, ch.n, ch.total.is_none()),
                _ => GateCond::Open,
            };
            recv_op(&h, &rx, c, i, gate, (case.jit, jits[i]), ch.spawn_ops && ch.kind.is_mpc())
        },
        |_| Vec::new(),
    )
    .await;
}

/// One side of a duplex pair in Circuit mode: sends on channel `c`, receives on its reverse channel.
async fn circuit_driver(h: Hist, world: Arc<World>, case: Arc<Case>, c: usize) {
    let ch = &case.chans[c];
    let rc = ch.peer.expect("harness: circuit channel without reverse channel");
    let rch = &case.chans[rc];
    let mut jr = VRng::new(case.jitter_seed, 2 * c as u64);
    jitter(case.jit, jr.below(8)).await;
    let (tx, rx) = match catch(|| (make_tx(&world, ch), make_rx(&world, rch))) {
        Ok(p) => p,
        Err(p) => {
            log(&h, Ev::Broken(c, p));
            return;
        }
    };
    let jits: Vec<u64> = (0..ch.n + 4).map(|_| jr.below(40)).collect();
    let w = ch.active;
    windowed(
        &ch.send_order,
        w,
        |i| {
            let s = send_op(&h, &tx, c, i, ch.payloads[i].clone(), GateCond::Open, (case.jit, jits[i]), false);
            let r = recv_op(&h, &rx, rc, i, GateCond::Open, (case.jit, jits[i] / 2), false);
            let lo = i / w * w;
            let barrier = WaitGate { h: Arc::clone(&h), cond: GateCond::BatchReceived(rc, lo, (lo + w).min(ch.n)) };
            let unit = async move {
                s.await;
                r.await;
                barrier.await;
                i
            };
            if ch.spawn_ops { spawn_task(unit) } else { Box::pin(unit) }
        },
        |nret| match ch.total {
            Some(t) if nret == ch.probe_at => ch
                .probe_offsets
                .iter()
                .map(|d| send_op(&h, &tx, c, t + d, ch.probe_payload.clone(), GateCond::Open, (case.jit, jits[ch.n]), false))
                .collect(),
            _ => Vec::new(),
        },
    )
    .await;
    if ch.total.is_none() {
        jitter(case.jit, jits[ch.n + 1]).await;
        log(&h, Ev::CallClose(c));
        let r = tx.close(ch.n).await;
        log(&h, Ev::RetClose(c, r));
    }
    // the reverse channel must now report its end
    recv_op(&h, &rx, rc, rch.n, GateCond::Open, (case.jit, jits[ch.n + 2]), false).await;
}

/// The whole workload of a case: one world, two driver tasks per channel.
async fn body(case: Arc<Case>, h: Hist) {
    let world = Arc::new(World::new(&case));
    let mut tasks = Vec::new();
    for c in 0..case.chans.len() {
        if case.chans[c].mode == Mode::Circuit {
            tasks.push(spawn_task(circuit_driver(Arc::clone(&h), Arc::clone(&world), Arc::clone(&case), c)));
            continue;
        }
        tasks.push(spawn_task(sender_driver(Arc::clone(&h), Arc::clone(&world), Arc::clone(&case), c)));
        tasks.push(spawn_task(receiver_driver(Arc::clone(&h), Arc::clone(&world), Arc::clone(&case), c)));
    }
    futures::future::join_all(tasks).await;
    drop(world);
}

// ---------------------------------------------------------------------------------------------
// the offline checker
// ---------------------------------------------------------------------------------------------

struct Finding {
    what: String,
    sig: Value,
    detail: Value,
}

#[derive(Default)]
struct Stats {
    recv_ok: u64,
    eos_ok: u64,
    too_many_ok: u64,
    send_ok: u64,
    close_ok: u64,
    recv_before_send_call: u64,
    recv_after_send_ret: u64,
    sends_called_out_of_order: u64,
    recvs_called_out_of_order: u64,
    eos_requested_before_last_send: u64,
    recv_beyond_capacity: u64,
}

fn judge(case: &Case, ev: &[Ev], completed: bool, exec: &str) -> (Vec<Finding>, Stats) {
    let mut out: Vec<Finding> = Vec::new();
    let mut st = Stats::default();
    // who owns which payload (for classification of a wrong one)
    let mut owner: HashMap<(usize, &[u8]), Vec<(usize, usize)>> = HashMap::new();
    for (c, ch) in case.chans.iter().enumerate() {
        for (i, p) in ch.payloads.iter().enumerate() {
            owner.entry((ch.w, p.as_slice())).or_default().push((c, i));
        }
    }
    let k = case.chans.len();
    let mut call_send: Vec<HashMap<usize, usize>> = vec![HashMap::new(); k];
    let mut ret_send: Vec<HashMap<usize, usize>> = vec![HashMap::new(); k];
    let mut call_recv: Vec<HashMap<usize, usize>> = vec![HashMap::new(); k];
    let mut ret_recv: Vec<HashMap<usize, usize>> = vec![HashMap::new(); k];
    let mut call_close: Vec<Option<usize>> = vec![None; k];
    let mut ret_close: Vec<Option<usize>> = vec![None; k];
    let mut last_send_call: Vec<Option<usize>> = vec![None; k];
    let mut last_recv_call: Vec<Option<usize>> = vec![None; k];
    let chan_sig = |c: usize| {
        let ch = &case.chans[c];
        json!(if ch.kind.is_mpc() { "mpc" } else { "shard" })
    };
    for (t, e) in ev.iter().enumerate() {
        match e {
            Ev::CallSend(c, i) => {
                if *i < case.chans[*c].n {
                    if last_send_call[*c].is_some_and(|p| p > *i) {
                        st.sends_called_out_of_order += 1;
                    }
                    last_send_call[*c] = Some(last_send_call[*c].map_or(*i, |p| p.max(*i)));
                }
                assert!(call_send[*c].insert(*i, t).is_none(), "harness: send({c},{i}) called twice");
            }
            Ev::CallRecv(c, i) => {
                // the receiver's waker table has `active` (gateway value) slots behind its read cursor
                if case.chans[*c].kind.is_mpc() && *i > ret_recv[*c].len() + case.active {
                    st.recv_beyond_capacity += 1;
                }
                if last_recv_call[*c].is_some_and(|p| p > *i) {
                    st.recvs_called_out_of_order += 1;
                }
                last_recv_call[*c] = Some(last_recv_call[*c].map_or(*i, |p| p.max(*i)));
                assert!(call_recv[*c].insert(*i, t).is_none(), "harness: receive({c},{i}) called twice");
            }
            Ev::CallClose(c) => call_close[*c] = Some(t),
            Ev::RetClose(c, r) => {
                ret_close[*c] = Some(t);
                match r {
                    Ok(()) => st.close_ok += 1,
                    Err(p) => out.push(Finding {
                        what: "close() of an indeterminate channel panicked".into(),
                        sig: json!({"kind": "close_panic", "exec": exec, "on": chan_sig(*c)}),
                        detail: json!({"t": t, "chan": c, "panic": p}),
                    }),
                }
            }
            Ev::Broken(c, p) => out.push(Finding {
                what: "creating a channel end panicked".into(),
                sig: json!({"kind": "endpoint_panic", "exec": exec, "on": chan_sig(*c)}),
                detail: json!({"t": t, "chan": c, "panic": p}),
            }),
            Ev::RetSend(c, i, r) => {
                ret_send[*c].insert(*i, t);
                let ch = &case.chans[*c];
                let legal = *i < ch.n;
                match (legal, r) {
                    (true, SendRes::Ok) => st.send_ok += 1,
                    (false, SendRes::TooMany) => st.too_many_ok += 1,
                    (true, other) => out.push(Finding {
                        what: "send of a record below the declared total did not succeed".into(),
                        sig: json!({"kind": "legal_send_failed", "exec": exec, "on": chan_sig(*c),
                                    "result": res_class_s(other)}),
                        detail: json!({"t": t, "chan": c, "i": i, "result": format!("{other:?}")}),
                    }),
                    (false, other) => out.push(Finding {
                        what: "send of a record at or beyond the declared total was not rejected with TooManyRecords".into(),
                        sig: json!({"kind": "send_beyond_total", "exec": exec, "on": chan_sig(*c),
                                    "result": res_class_s(other)}),
                        detail: json!({"t": t, "chan": c, "i": i, "total": ch.total, "result": format!("{other:?}")}),
                    }),
                }
            }
            Ev::RetRecv(c, i, r) => {
                ret_recv[*c].insert(*i, t);
                let ch = &case.chans[*c];
                if *i < ch.n {
                    match r {
                        RecvRes::Data(d) if *d == ch.payloads[*i] => {
                            st.recv_ok += 1;
                            match call_send[*c].get(i) {
                                None => out.push(Finding {
                                    what: "receive returned the payload of a record before send was called for it".into(),
                                    sig: json!({"kind": "received_before_sent", "exec": exec, "on": chan_sig(*c)}),
                                    detail: json!({"t": t, "chan": c, "i": i}),
                                }),
                                Some(ts) => {
                                    let tc = call_recv[*c][i];
                                    if tc < *ts {
                                        st.recv_before_send_call += 1;
                                    }
                                    if ret_send[*c].get(i).is_some_and(|tr| *tr < tc) {
                                        st.recv_after_send_ret += 1;
                                    }
                                }
                            }
                        }
                        RecvRes::Data(d) => {
                            let owners = owner.get(&(ch.w, d.as_slice())).cloned().unwrap_or_default();
                            let relation = |oc: usize| {
                                let o = &case.chans[oc];
                                match (o.kind, ch.kind) {
                                    _ if oc == *c => "same_channel_other_record",
                                    (Kind::Mpc { from: a, to: b, shard: s }, Kind::Mpc { from: x, to: y, shard: z }) => {
                                        if (a, b, s) == (x, y, z) {
                                            "other_step_same_peers"
                                        } else if s != z {
                                            "other_shard"
                                        } else {
                                            "other_peer"
                                        }
                                    }
                                    (Kind::Shard { .. }, Kind::Shard { .. }) => "other_shard_channel",
                                    _ => "other_transport",
                                }
                            };
                            // exact owner (same width) first, else the bytes as a slice of another channel's stream
                            let in_stream_of = (0..k).filter(|oc| oc != c).find(|oc| {
                                let stream: Vec<u8> = case.chans[*oc].payloads.concat();
                                d.len() >= 3 && stream.windows(d.len()).any(|w| w == d.as_slice())
                            });
                            let class = if owners.iter().any(|(oc, _)| oc == c) {
                                "same_channel_other_record".to_string()
                            } else if let Some((oc, _)) = owners.first() {
                                relation(*oc).to_string()
                            } else if let Some(oc) = in_stream_of {
                                format!("bytes_of_{}", relation(oc))
                            } else {
                                "unknown_bytes".to_string()
                            };
                            out.push(Finding {
                                what: "receive returned a payload other than the one sent for this (channel, record)".into(),
                                sig: json!({"kind": "wrong_payload", "exec": exec, "on": chan_sig(*c), "payload_of": class}),
                                detail: json!({"t": t, "chan": c, "i": i, "got": hex(d), "expected": hex(&ch.payloads[*i]),
                                               "payload_belongs_to": owners}),
                            });
                        }
                        other => out.push(Finding {
                            what: "receive of a record below the declared total failed".into(),
                            sig: json!({"kind": "legal_receive_failed", "exec": exec, "on": chan_sig(*c),
                                        "result": res_class_r(other)}),
                            detail: json!({"t": t, "chan": c, "i": i, "result": format!("{other:?}")}),
                        }),
                    }
                } else {
                    match r {
                        RecvRes::Eos => {
                            st.eos_ok += 1;
                            // R5: not before everything was handed to send / close was called
                            let early = match ch.total {
                                Some(_) => (0..ch.n).any(|j| call_send[*c].get(&j).is_none()),
                                None => call_close[*c].is_none(),
                            };
                            if early {
                                out.push(Finding {
                                    what: "channel reported EndOfStream before all declared records were sent / close was called".into(),
                                    sig: json!({"kind": "closed_early", "exec": exec, "on": chan_sig(*c)}),
                                    detail: json!({"t": t, "chan": c, "i": i}),
                                });
                            }
                            let tc = call_recv[*c][i];
                            if ch.n > 0 && call_send[*c].get(&(ch.n - 1)).is_none_or(|ts| tc < *ts) {
                                st.eos_requested_before_last_send += 1;
                            }
                        }
                        other => out.push(Finding {
                            what: "receive at the declared total did not yield EndOfStream".into(),
                            sig: json!({"kind": "receive_beyond_total", "exec": exec, "on": chan_sig(*c),
                                        "result": res_class_r(other)}),
                            detail: json!({"t": t, "chan": c, "i": i, "result": format!("{other:?}")}),
                        }),
                    }
                }
            }
        }
    }
    // R4 completion
    let mut open_send = 0;
    let mut open_recv = 0;
    let mut open_close = 0;
    let mut never_called = 0;
    let mut open_list = Vec::new();
    for c in 0..k {
        let ch = &case.chans[c];
        for (i, _) in &call_send[c] {
            if !ret_send[c].contains_key(i) {
                open_send += 1;
                open_list.push(format!("send({c},{i})"));
            }
        }
        for (i, _) in &call_recv[c] {
            if !ret_recv[c].contains_key(i) {
                open_recv += 1;
                open_list.push(format!("receive({c},{i})"));
            }
        }
        if call_close[c].is_some() && ret_close[c].is_none() {
            open_close += 1;
            open_list.push(format!("close({c})"));
        }
        never_called += (0..ch.n).filter(|i| !call_send[c].contains_key(i)).count();
        never_called += (0..=ch.n).filter(|i| !call_recv[c].contains_key(i)).count();
    }
    open_list.sort();
    if completed {
        let broken = ev.iter().any(|e| matches!(e, Ev::Broken(..)));
        assert!(
            broken || (open_send + open_recv + open_close + never_called == 0),
            "harness: run completed with open operations {open_list:?} / {never_called} never called"
        );
    } else {
        let mut open = Vec::new();
        if open_send > 0 {
            open.push("send");
        }
        if open_recv > 0 {
            open.push("receive");
        }
        if open_close > 0 {
            open.push("close");
        }
        out.push(Finding {
            what: "workload with at most `active` records outstanding per channel did not complete".into(),
            sig: json!({"kind": "no_completion", "exec": exec, "open": open.join("+")}),
            detail: json!({"open_operations": open_list.iter().take(60).collect::<Vec<_>>(), "open_send": open_send,
                           "open_receive": open_recv, "open_close": open_close, "operations_never_started": never_called}),
        });
    }
    (out, st)
}

fn res_class_s(r: &SendRes) -> &'static str {
    match r {
        SendRes::Ok => "ok",
        SendRes::TooMany => "too_many_records",
        SendRes::Err(_) => "other_error",
        SendRes::Panic(_) => "panic",
    }
}

fn res_class_r(r: &RecvRes) -> &'static str {
    match r {
        RecvRes::Data(_) => "payload",
        RecvRes::Eos => "end_of_stream",
        RecvRes::Err(_) => "other_error",
        RecvRes::Panic(_) => "panic",
    }
}

fn trace_hash(ev: &[Ev]) -> u64 {
    fxhash(&ev.iter().map(Ev::key).collect::<Vec<_>>())
}

/// Common bookkeeping for one finished (or stuck) history.
fn account(rec: &mut Recorder, case: &Case, ev: &[Ev], completed: bool, exec: &str, extra: Value) -> usize {
    rec.eval();
    rec.count("histories");
    let (findings, st) = judge(case, ev, completed, exec);
    rec.add("events", ev.len() as u64);
    rec.add("receives_matched", st.recv_ok);
    rec.add("end_of_stream_at_total", st.eos_ok);
    rec.add("too_many_records_rejected", st.too_many_ok);
    rec.add("sends_ok", st.send_ok);
    rec.add("closes_ok", st.close_ok);
    rec.add("receive_requested_before_send_called", st.recv_before_send_call);
    rec.add("receive_requested_after_send_returned", st.recv_after_send_ret);
    rec.add("sends_called_out_of_order", st.sends_called_out_of_order);
    rec.add("receives_called_out_of_order", st.recvs_called_out_of_order);
    rec.add("eos_requested_before_last_send", st.eos_requested_before_last_send);
    rec.add("receive_requested_beyond_receiver_capacity", st.recv_beyond_capacity);
    if case.chans.iter().any(|c| c.mode == Mode::Circuit) {
        rec.count("histories_duplex_circuit");
    }
    if case.chans.iter().any(|c| c.kind.is_mpc() && c.active != case.active) {
        rec.count("histories_with_active_work_override");
    }
    if completed {
        rec.count("completed");
    }
    if completed && findings.is_empty() && (st.recv_ok > 0 || st.eos_ok > 0) {
        rec.distinct(&(exec, case.shape(), trace_hash(ev)));
    }
    rec.seen("executors", exec);
    rec.seen("channel_counts", case.chans.len().to_string());
    rec.seen("actives", case.active.to_string());
    rec.seen("read_sizes", case.read_size.to_string());
    rec.seen("shard_counts", case.shards.to_string());
    for ch in &case.chans {
        rec.seen("widths", ch.w.to_string());
        rec.seen("message_types", type_name(ch.w, ch.alt));
        rec.seen("total_classes", ch.total_class);
        rec.seen("channel_kinds", ch.kind.label());
        rec.seen("modes", format!("{:?}", ch.mode));
    }
    let gates: HashSet<(&str, u8)> = case
        .chans
        .iter()
        .filter_map(|c| match c.kind {
            Kind::Mpc { from, .. } => Some((c.gate.as_str(), from)),
            Kind::Shard { .. } => None,
        })
        .collect();
    if gates.len() < case.chans.iter().filter(|c| c.kind.is_mpc()).count() {
        rec.count("histories_same_gate_to_two_peers");
    }
    let nf = findings.len();
    for f in findings {
        let mut w = json!({
            "case": case.idx, "exec": exec, "description": case.to_json(), "finding": f.detail, "completed": completed,
            "history": ev.iter().take(600).map(Ev::brief).collect::<Vec<_>>(),
        });
        if let (Some(o), Some(e)) = (w.as_object_mut(), extra.as_object()) {
            for (k, v) in e {
                o.insert(k.clone(), v.clone());
            }
        }
        rec.violation(&f.what, f.sig, w);
    }
    if rec.want_sample() && completed && nf == 0 {
        rec.sample(json!({"case": case.idx, "exec": exec, "shape": case.shape(), "events": ev.len(),
                          "first_events": ev.iter().take(12).map(Ev::brief).collect::<Vec<_>>()}));
    }
    nf
}

fn replay_witness() -> Option<Value> {
    let p = vlib::env().replay?;
    let w: Value = serde_json::from_str(&std::fs::read_to_string(p).ok()?).ok()?;
    Some(w["witness"].clone())
}

fn replay_case() -> Option<usize> {
    replay_witness()?["case"].as_u64().map(|v| v as usize)
}

fn snapshot(h: &Hist) -> Vec<Ev> {
    h.lock().unwrap_or_else(|e| e.into_inner()).events.clone()
}

// ---------------------------------------------------------------------------------------------
// tokio executors
// ---------------------------------------------------------------------------------------------

#[cfg(not(feature = "shuttle"))]
mod tk {
    use std::time::Duration;

    use super::*;
    use crate::verif::vlib::{Manual, Paused, run_mt, run_paused, settle};

    const TOKIO: Flavor = Flavor {
        max_k: 6,
        actives: &[2, 4, 16],
        classes: &[0, 1, 2, 3, 4, 5, 6],
        shard_worlds: true,
        circuits: true,
        jit: Jit::Sleep,
    };

    fn run_case_paused(case: &Arc<Case>) -> (Vec<Ev>, bool) {
        let h = new_hist(case);
        let done = matches!(
            run_paused(Duration::from_secs(60), body(Arc::clone(case), Arc::clone(&h))),
            Paused::Done(())
        );
        (snapshot(&h), done)
    }

    /// "As long as no more than the configured window of records is outstanding the exchange cannot deadlock", for windows
    /// far above what the other workloads use (the DZKP validator configures a channel's window from the proof batch size,
    /// in production well above the gateway default of 2^15): exactly one window of records is sent before the peer starts
    /// to read; every send must be accepted, then every record comes back under its own id. Quiescence decides a stall.
    #[test]
    fn verif_c13_full_window_x1() {
        use ipa_step::StepNarrow;
        use crate::{ff::{U128Conversions, boolean_array::BA8}, utils::NonZeroU32PowerOfTwo};
        let env = vlib::env();
        let mut rec = Recorder::new("C13", "verif_c13_full_window_x1");
        let windows: &[usize] = if env.thorough { &[1 << 10, 1 << 14, 1 << 15, 1 << 16, 1 << 17, 1 << 18] } else { &[1 << 10, 1 << 15, 1 << 16, 1 << 17] };
        for (k, &window) in windows.iter().enumerate() {
            for (from, to) in [(Role::H1, Role::H2), (Role::H3, Role::H1)] {
                rec.eval();
                let seed = env.seed.wrapping_mul(131) + k as u64;
                let progress = Arc::new(Mutex::new((0usize, 0usize, 0usize)));
                let p2 = Arc::clone(&progress);
                let out = run_paused(Duration::from_secs(600), async move {
                    let mut cfg = TestWorldConfig::default();
                    cfg.seed = seed;
                    cfg.timeout = None;
                    let world = TestWorld::new_with(&cfg);
                    let w = NonZeroU32PowerOfTwo::try_from(window).unwrap();
                    let value = |i: usize| BA8::truncate_from(u128::try_from(i % 251).unwrap());
                    let gate = Gate::default().narrow("c13-window");
                    let sender = world.gateway(from).get_mpc_sender::<BA8>(&ChannelId::new(to, gate.clone()), TotalRecords::specified(4 * window).unwrap(), w);
                    for i in 0..window {
                        if sender.send(RecordId::from(i), value(i)).await.is_err() {
                            p2.lock().unwrap().2 += 1;
                        }
                        p2.lock().unwrap().0 = i + 1;
                    }
                    let recv = world.gateway(to).get_mpc_receiver::<BA8>(&ChannelId::new(from, gate));
                    let mut wrong = 0;
                    for i in 0..window {
                        match recv.receive(RecordId::from(i)).await {
                            Ok(v) if v == value(i) => {}
                            _ => wrong += 1,
                        }
                        p2.lock().unwrap().1 = i + 1;
                    }
                    wrong
                });
                let (sent, received, send_errors) = *progress.lock().unwrap();
                let witness = json!({"window": window, "from": format!("{from:?}"), "to": format!("{to:?}"), "sends_accepted": sent, "received": received, "send_errors": send_errors});
                match out {
                    Paused::Quiescent => rec.violation(
                        "sending exactly one window of records (nothing else outstanding) stalled, or the records did not all come back",
                        json!({"kind": "full_window_stall", "phase": if sent < window { "send" } else { "receive" }, "window_above_gateway_default": window > (1 << 15)}),
                        witness,
                    ),
                    Paused::Done(wrong) if wrong > 0 || send_errors > 0 => rec.violation(
                        "a record sent inside the window did not come back under its own id",
                        json!({"kind": "full_window_wrong_records"}),
                        json!({"w": witness, "wrong": wrong}),
                    ),
                    Paused::Done(_) => {
                        rec.count("full_windows_sent_then_received");
                        rec.add("full_window_records_matched", window as u64);
                        rec.distinct(&("window", window, from as usize));
                        rec.seen("full_window_sizes", window.to_string());
                    }
                }
            }
        }
        rec.sample(json!({"workload": "one full window outstanding before the peer reads", "windows": windows}));
        rec.finish();
    }

    /// E-paused: single-threaded deterministic runs with seeded virtual-time jitter between operations.
    #[test]
    fn verif_c13_paused() {
        let env = vlib::env();
        let mut rec = Recorder::new("C13", "verif_c13_paused");
        let n = env.pick(4000, 48000);
        let only = replay_case();
        for idx in 0..n {
            if !env.mine(idx) || only.is_some_and(|c| c != idx) {
                continue;
            }
            let case = Arc::new(gen_case(env.seed, idx, TOKIO));
            let (ev, done) = run_case_paused(&case);
            account(&mut rec, &case, &ev, done, "paused", json!({}));
        }
        rec.finish();
    }

    /// E-mt: the same workloads on 4 worker threads. A run that misses the wall deadline is re-run on the
    /// paused clock: quiescent there => violation, otherwise the case is reported as inconclusive.
    #[test]
    fn verif_c13_threads() {
        let env = vlib::env();
        let mut rec = Recorder::new("C13", "verif_c13_threads");
        let n = env.pick(1200, 24000);
        let only = replay_case();
        let mut misses = 0;
        for idx in 0..n {
            if !env.mine(idx) || only.is_some_and(|c| c != idx) {
                continue;
            }
            let mut case = gen_case(env.seed ^ 0x7, idx, TOKIO);
            case.jit = Jit::Yield;
            let case = Arc::new(case);
            let h = new_hist(&case);
            // after two misses of the wall deadline the remaining cases go straight to the paused clock
            let skip = misses >= 2;
            let done = !skip && run_mt(4, Duration::from_secs(20), body(Arc::clone(&case), Arc::clone(&h))).is_some();
            if done {
                account(&mut rec, &case, &snapshot(&h), true, "threads", json!({}));
                continue;
            }
            if skip {
                rec.count("threads_skipped_after_deadlines");
            } else {
                rec.count("threads_wall_deadline");
                misses += 1;
                // what the unfinished threaded run did return is still judged (everything except completion)
                let ev = snapshot(&h);
                let (findings, _) = judge(&case, &ev, false, "threads");
                for f in findings {
                    if f.sig["kind"] != "no_completion" {
                        rec.violation(&f.what, f.sig, json!({"case": idx, "exec": "threads", "description": case.to_json(),
                            "finding": f.detail, "completed": false,
                            "history": ev.iter().take(600).map(Ev::brief).collect::<Vec<_>>()}));
                    }
                }
            }
            let mut c2 = (*case).clone();
            c2.jit = Jit::Sleep;
            let c2 = Arc::new(c2);
            let (ev, done2) = run_case_paused(&c2);
            if done2 && !skip {
                // wall time is not a verdict: the same case completed under the paused clock, which decides it; the
                // thread run merely gave no verdict for its schedule
                rec.count("thread_runs_past_wall_deadline_decided_by_paused_rerun");
                rec.note(format!("case {idx}: 4-thread run missed the wall deadline, paused-clock re-run completed"));
            }
            account(&mut rec, &c2, &ev, done2, "paused", json!({"rerun_of": "threads"}));
        }
        rec.finish();
    }

    // ---- E-manual ------------------------------------------------------------------------------

    /// All client operations of a small case as individually polled futures; `perm` = order of the
    /// first polls, afterwards woken operations are polled FIFO. The spawned transport tasks run on the
    /// paused tokio runtime; `settle` lets them run until idle (after every poll when `eager`, else only
    /// when no client operation is ready).
    fn run_manual(case: &Arc<Case>, perm: &[usize], eager: bool, repoll: u8) -> (Vec<Ev>, bool, usize, u64) {
        let h = new_hist(case);
        let h2 = Arc::clone(&h);
        let case2 = Arc::clone(case);
        let perm = perm.to_vec();
        let r = run_paused(Duration::from_secs(60), async move {
            let world = Arc::new(World::new(&case2));
            let mut ops: Vec<BoxFuture<'static, usize>> = Vec::new();
            let mut txs = Vec::new();
            for (c, ch) in case2.chans.iter().enumerate() {
                let tx = make_tx(&world, ch);
                let rx = make_rx(&world, ch);
                for i in 0..ch.n {
                    ops.push(send_op(&h2, &tx, c, i, ch.payloads[i].clone(), GateCond::Open, (Jit::None, 0), false));
                }
                for i in 0..=ch.n {
                    ops.push(recv_op(&h2, &rx, c, i, GateCond::Open, (Jit::None, 0), false));
                }
                if let Some(t) = ch.total {
                    ops.push(send_op(&h2, &tx, c, t, ch.probe_payload.clone(), GateCond::Open, (Jit::None, 0), false));
                }
                txs.push(tx);
            }
            let nops = ops.len();
            let mut m: Manual<'_, usize> = Manual::new();
            for f in ops {
                m.spawn(f);
            }
            // first polls in the order of the permutation
            // `repoll`: an operation that is still pending is polled a second time (the poll scheduler hands out
            // a new waker for every poll and ignores wakes through older ones) 1 = right away, 2 = after the
            // first poll of the next operation
            let mut prev: Option<usize> = None;
            for p in &perm {
                let id = *p % nops;
                m.poll_task(id);
                if eager {
                    settle().await;
                }
                if repoll == 1 && !m.is_done(id) {
                    m.poll_task(id);
                }
                if repoll == 2 {
                    if let Some(q) = prev {
                        if !m.is_done(q) {
                            m.poll_task(q);
                        }
                    }
                    prev = Some(id);
                }
            }
            let mut fifo = |_: &[usize]| 0usize;
            loop {
                if m.all_done() {
                    break;
                }
                if m.step(&mut fifo) {
                    if eager {
                        settle().await;
                    }
                    continue;
                }
                settle().await;
                if m.ready_ids().is_empty() {
                    break; // quiescent: nothing ready although the transport tasks are idle
                }
            }
            let done = m.all_done();
            let stale = m.stale_wakes();
            drop(m);
            drop(txs);
            drop(world);
            (done, nops, stale)
        });
        match r {
            Paused::Done((done, nops, stale)) => (snapshot(&h), done, nops, stale),
            Paused::Quiescent => (snapshot(&h), false, 0, 0),
        }
    }

    fn nth_permutation(n: usize, mut k: u64) -> Vec<usize> {
        let mut items: Vec<usize> = (0..n).collect();
        let mut out = Vec::with_capacity(n);
        for m in (1..=n as u64).rev() {
            let f: u64 = (1..m).product();
            let pos = (k / f) as usize % items.len();
            k %= f;
            out.push(items.remove(pos));
        }
        out
    }

    /// E-manual: every order of the first polls of {send(0..n), receive(0..=n), send(total)} on one channel
    /// with n <= 2 (<= 6 operations, 720 orders), sampled orders for two channels.
    #[test]
    fn verif_c13_manual() {
        let env = vlib::env();
        let mut rec = Recorder::new("C13", "verif_c13_manual");
        let only = replay_witness();
        let shapes: usize = env.pick(8, 24);
        let mut job = 0usize;
        for s in 0..shapes {
            // single channel, n in {1, 2}, determinate; widths rotate
            let fl = Flavor { max_k: 1, actives: &[2, 4], classes: &[1, 2, 1, 0], shard_worlds: false, circuits: false, jit: Jit::None };
            let mut case = gen_case(env.seed ^ 0x3a, s, fl);
            if s % 5 == 4 {
                // two channels: same gate to two peers
                let fl2 = Flavor { max_k: 2, ..fl };
                case = gen_case(env.seed ^ 0x3b, 2 + 4 * s, fl2);
            }
            for ch in &mut case.chans {
                ch.per_op = false;
                ch.spawn_ops = false;
            }
            let case = Arc::new(case);
            let nops: usize = case.chans.iter().map(|c| 2 * c.n + 1 + usize::from(c.total.is_some())).sum();
            let total_perms: u64 = (1..=nops as u64).product();
            let take = total_perms.min(720);
            for p in 0..take {
                for (eager, repoll) in [(true, 0u8), (false, 0), (true, 1), (false, 2)] {
                    job += 1;
                    if !env.mine(job) {
                        continue;
                    }
                    if let Some(w) = &only {
                        if w["job"].as_u64() != Some(job as u64) {
                            continue;
                        }
                    }
                    let pk = if take == total_perms { p } else { VRng::new(env.seed ^ 0x77, p).below(total_perms) };
                    let perm = nth_permutation(nops, pk);
                    let (ev, done, _, stale) = run_manual(&case, &perm, eager, repoll);
                    let nf = account(&mut rec, &case, &ev, done, "manual", json!({"job": job, "perm": perm, "eager": eager, "repoll": repoll}));
                    if nf == 0 {
                        rec.count("manual_orders_completed");
                        if repoll != 0 {
                            rec.count("manual_orders_with_second_poll_under_new_waker");
                        }
                    }
                    rec.add("manual_wakes_through_superseded_wakers", stale);
                }
            }
        }
        rec.finish();
    }
}

// ---------------------------------------------------------------------------------------------
// shuttle executors (build b2)
// ---------------------------------------------------------------------------------------------

#[cfg(feature = "shuttle")]
mod sh {
    use shuttle::scheduler::{DfsScheduler, PctScheduler, RandomScheduler, Scheduler};

    use super::*;

    const SMALL: Flavor = Flavor {
        max_k: 3,
        actives: &[2, 4, 2, 4, 16],
        classes: &[0, 1, 2, 3, 4, 6, 5],
        shard_worlds: true,
        circuits: true,
        jit: Jit::Yield,
    };

    const TINY: Flavor = Flavor { max_k: 1, actives: &[2], classes: &[1, 0, 6], shard_worlds: false, circuits: false, jit: Jit::None };

    fn config() -> shuttle::Config {
        let mut c = shuttle::Config::new();
        c.stack_size = 0x40000;
        c.max_steps = shuttle::MaxSteps::FailAfter(3_000_000);
        c.silence_warnings = true;
        c
    }

    fn schedule_of(msg: &str) -> Option<String> {
        let a = msg.find("failing schedule:")?;
        let rest = &msg[a..];
        let q1 = rest.find('"')?;
        let rest = &rest[q1 + 1..];
        let q2 = rest.find('"')?;
        Some(rest[..q2].trim().to_string())
    }

    /// Run `iters` schedules of one case under `sched`; every finished iteration is judged, a shuttle
    /// failure (deadlock report / panic of an infrastructure task) ends the case with its history.
    fn explore<S: Scheduler + 'static>(rec: &mut Recorder, case: &Arc<Case>, sched: S, exec: &'static str, extra: Value) {
        let finished: Arc<Mutex<Vec<Vec<Ev>>>> = Arc::new(Mutex::new(Vec::new()));
        let current: Arc<Mutex<Option<Hist>>> = Arc::new(Mutex::new(None));
        let (f2, c2, case2) = (Arc::clone(&finished), Arc::clone(&current), Arc::clone(case));
        let r = catch(move || {
            let runner = shuttle::Runner::new(sched, config());
            runner.run(move || {
                let h = new_hist(&case2);
                *c2.lock().unwrap() = Some(Arc::clone(&h));
                shuttle::future::block_on(body(Arc::clone(&case2), Arc::clone(&h)));
                f2.lock().unwrap().push(snapshot(&h));
                *c2.lock().unwrap() = None;
            })
        });
        let done = std::mem::take(&mut *finished.lock().unwrap_or_else(|e| e.into_inner()));
        let mut hashes = HashSet::new();
        for ev in &done {
            hashes.insert(trace_hash(ev));
            account(rec, case, ev, true, exec, extra.clone());
        }
        rec.add("schedules_run", done.len() as u64);
        rec.add("distinct_schedules", hashes.len() as u64);
        if let Err(msg) = r {
            let cur = current.lock().unwrap_or_else(|e| e.into_inner()).take();
            let ev = cur.map(|h| snapshot(&h)).unwrap_or_default();
            let mut x = extra.clone();
            x["failed_iteration"] = json!(done.len());
            x["shuttle_schedule"] = json!(schedule_of(&msg));
            x["shuttle_message"] = json!(msg.chars().take(400).collect::<String>());
            if msg.contains("deadlock") {
                rec.count("shuttle_deadlock_reports");
                account(rec, case, &ev, false, exec, x);
            } else if msg.contains("exceeded max_steps") {
                rec.inconclusive(format!("case {}: shuttle step bound exceeded", case.idx));
            } else if msg.starts_with("harness:") || msg.contains("harness:") {
                panic!("{msg}");
            } else {
                // a panic outside the client operations (transport / listener task)
                rec.eval();
                let first = msg.lines().next().unwrap_or("").to_string();
                let second: String = msg.lines().find(|l| !l.starts_with("test panicked") && !l.is_empty()).unwrap_or("").chars().take(90).collect();
                x["case"] = json!(case.idx);
                x["description"] = case.to_json();
                x["history"] = json!(ev.iter().take(600).map(Ev::brief).collect::<Vec<_>>());
                rec.violation(
                    "panic in a gateway / transport task during a legal workload",
                    json!({"kind": "infrastructure_panic", "exec": exec, "where": first.chars().take(60).collect::<String>(),
                           "panic": second.chars().map(|c| if c.is_ascii_digit() { '#' } else { c }).collect::<String>()}),
                    x,
                );
            }
        }
    }

    fn iter_seed(seed: u64, idx: usize, salt: u64) -> u64 {
        VRng::new(seed ^ salt, idx as u64).next()
    }

    #[test]
    fn verif_c13_sh_random() {
        let env = vlib::env();
        let mut rec = Recorder::new("C13", "verif_c13_sh_random");
        let n = env.pick(1200, 12000);
        let iters = env.pick(12, 20);
        let only = replay_case();
        for idx in 0..n {
            if !env.mine(idx) || only.is_some_and(|c| c != idx) {
                continue;
            }
            let case = Arc::new(gen_case(env.seed ^ 0x51, idx, SMALL));
            let s = iter_seed(env.seed, idx, 0xa1);
            explore(&mut rec, &case, RandomScheduler::new_from_seed(s, iters), "shuttle_random",
                    json!({"scheduler": "random", "scheduler_seed": s, "iterations": iters}));
        }
        rec.finish();
    }

    #[test]
    fn verif_c13_sh_pct() {
        let env = vlib::env();
        let mut rec = Recorder::new("C13", "verif_c13_sh_pct");
        let n = env.pick(800, 8000);
        let iters = env.pick(10, 16);
        let only = replay_case();
        for idx in 0..n {
            if !env.mine(idx) || only.is_some_and(|c| c != idx) {
                continue;
            }
            let case = Arc::new(gen_case(env.seed ^ 0x52, idx, SMALL));
            let s = iter_seed(env.seed, idx, 0xa2);
            explore(&mut rec, &case, PctScheduler::new_from_seed(s, 3, iters), "shuttle_pct",
                    json!({"scheduler": "pct", "depth": 3, "scheduler_seed": s, "iterations": iters}));
        }
        rec.finish();
    }

    /// Bounded depth-first enumeration of schedules for one-channel cases with at most 2 records.
    /// Shuttle's DFS backtracks from the end of the schedule, so a bounded number of iterations permutes
    /// the last scheduling decisions of a run (final receives, close, teardown): many schedules, few
    /// distinct client histories (both numbers are reported).
    #[test]
    fn verif_c13_sh_dfs() {
        let env = vlib::env();
        let mut rec = Recorder::new("C13", "verif_c13_sh_dfs");
        let n = env.pick(24, 64);
        let iters = env.pick(300, 800);
        let only = replay_case();
        for idx in 0..n {
            if !env.mine(idx) || only.is_some_and(|c| c != idx) {
                continue;
            }
            let mut case = gen_case(env.seed ^ 0x53, idx, TINY);
            for ch in &mut case.chans {
                ch.spawn_ops = idx % 2 == 0;
            }
            let case = Arc::new(case);
            explore(&mut rec, &case, DfsScheduler::new(Some(iters), true), "shuttle_dfs",
                    json!({"scheduler": "dfs", "iterations": iters}));
        }
        rec.finish();
    }
}
