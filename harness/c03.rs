// C03 Multiplication proofs accept honest batches and reject any altered one.
//
// (a) algebra of the u/v tables on all 64 combinations x all 256 block positions;
// (b) `Batch`es built directly on the three helpers from a reference three-party multiplication
//     model, validated with the real `Batch::validate`; then one stored bit flipped => some helper must
//     reject;
// (c) real multiplications (select over BA widths / Boolean multiply) under `dzkp_validator` in
//     single-shot and batched mode with one transmitted bit of a multiplication message flipped.
#[cfg(not(feature = "shuttle"))]
mod m {
    use std::{
        collections::BTreeMap,
        sync::{Arc, Mutex},
        time::Duration,
    };

    use bitvec::prelude::{BitVec, Lsb0};
    use futures::{StreamExt, TryStreamExt, future::join_all, stream};
    use ipa_step::StepNarrow;
    use serde_json::{Value, json};

    use super::super::super::{BitSliceType, Batch, DZKPValidator, MultiplicationInputsBlock, Segment, SegmentEntry};
    use crate::{
        error::Error,
        ff::{
            Field, Fp61BitPrime, U128Conversions,
            boolean::Boolean,
            boolean_array::{BA3, BA8, BA20, BA32, BA64, BA256, BooleanArray},
        },
        helpers::TotalRecords,
        protocol::{
            Gate, RecordId,
            basics::{BooleanArrayMul, SecureMul, select},
            context::{
                Context, DZKPUpgradedMaliciousContext, TEST_DZKP_STEPS, UpgradableContext,
                dzkp_field::{DZKPBaseField, TABLE_U, TABLE_V},
            },
        },
        secret_sharing::SharedValue,
        secret_sharing::replicated::{ReplicatedSecretSharing, semi_honest::AdditiveShare as Replicated},
        seq_join::SeqJoin,
        sharding::NotSharded,
        test_fixture::{TestWorld, TestWorldConfig},
        verif::{
            vlib::{self, Paused, Recorder, VRng, catch_fut},
            wl::{self, ChunkInfo, Fault, Pattern, TapState},
        },
    };

    type Bv = BitVec<u8, Lsb0>;

    // -----------------------------------------------------------------------------------------
    // (a) algebra
    // -----------------------------------------------------------------------------------------

    fn dot(u: &[Fp61BitPrime; 4], v: &[Fp61BitPrime; 4]) -> Fp61BitPrime {
        let mut s = Fp61BitPrime::ZERO;
        for i in 0..4 {
            s += u[i] * v[i];
        }
        s
    }

    #[test]
    fn verif_c03_table_identity_x1() {
        let env = vlib::env();
        let mut rec = Recorder::new("C03", "verif_c03_table_identity_x1");
        let minus_half = Fp61BitPrime::MINUS_ONE_HALF;
        let two = Fp61BitPrime::ONE + Fp61BitPrime::ONE;
        rec.eval();
        if minus_half * two + Fp61BitPrime::ONE != Fp61BitPrime::ZERO || Fp61BitPrime::MINUS_TWO + two != Fp61BitPrime::ZERO {
            rec.violation("proof-field constants -1/2 or -2 are wrong", json!({"kind": "constants"}), json!({}));
        }
        // all 64 combinations of (a, b, c, d, e, f)
        for k in 0..64u32 {
            let (a, b, c, d, e, f) = (k & 1, (k >> 1) & 1, (k >> 2) & 1, (k >> 3) & 1, (k >> 4) & 1, (k >> 5) & 1);
            let iu = (a + 2 * c + 4 * e) as usize;
            let iv = (b + 2 * d + 4 * f) as usize;
            let s = dot(&TABLE_U[iu], &TABLE_V[iv]);
            let consistent = e == ((a & b) ^ (c & d) ^ f);
            rec.eval();
            let ok = if consistent { s == minus_half } else { s != minus_half && s == Fp61BitPrime::ZERO - minus_half };
            if ok {
                rec.count("table_identity_ok");
                rec.distinct(&("combo", k));
            } else {
                rec.violation(
                    "sum g_i*h_i is not (-1/2 iff e = ab^cd^f)",
                    json!({"kind": "table_identity", "consistent": consistent}),
                    json!({"a": a, "b": b, "c": c, "d": d, "e": e, "f": f, "sum": s.as_u128().to_string()}),
                );
            }
        }
        // every position of a 256-bit block x every combination of the six prover-side intermediates, on a random
        // background: the prover's table indices at that position, and the two verifiers' indices on the rotated views
        let mut r = VRng::new(env.seed ^ 0xc03, 0);
        let rnd = |r: &mut VRng| -> [u8; 32] {
            let mut x = [0u8; 32];
            for b in &mut x {
                *b = r.next() as u8;
            }
            x
        };
        for pos in 0..256usize {
            for k in 0..128u32 {
                // bits: x1 x2 x3? -> use the full three-party model at this position: 9 bits would be 512 combos; cover the
                // prover's six inputs (x_i, x_{i+1}, y_i, y_{i+1}, p_i, p_{i+1}) + z_{i+1} consistency bit
                let mut blk = MultiplicationInputsBlock {
                    x_left: rnd(&mut r).into(),
                    x_right: rnd(&mut r).into(),
                    y_left: rnd(&mut r).into(),
                    y_right: rnd(&mut r).into(),
                    prss_left: rnd(&mut r).into(),
                    prss_right: rnd(&mut r).into(),
                    z_right: rnd(&mut r).into(),
                };
                let bit = |j: u32| (k >> j) & 1 == 1;
                blk.x_left.set(pos, bit(0));
                blk.x_right.set(pos, bit(1));
                blk.y_left.set(pos, bit(2));
                blk.y_right.set(pos, bit(3));
                blk.prss_left.set(pos, bit(4));
                blk.prss_right.set(pos, bit(5));
                blk.z_right.set(pos, bit(6));
                let (a, b, c, d, f) = (bit(0), bit(3), bit(2), bit(1), bit(5));
                let e = (a & b) ^ (c & d) ^ f;
                let want_u = u8::from(a) + 2 * u8::from(c) + 4 * u8::from(e);
                let want_v = u8::from(b) + 2 * u8::from(d) + 4 * u8::from(f);
                let got = blk.table_indices_prover();
                // verifier to the left of a prover sees (x_right, y_right, z_right, prss_right) of its own block
                let e_l = (bit(1) & bit(3)) ^ bit(5) ^ bit(6);
                let want_from_right = u8::from(bit(1)) + 2 * u8::from(bit(3)) + 4 * u8::from(e_l);
                let got_from_right = blk.table_indices_from_right_prover();
                let want_from_left = u8::from(bit(2)) + 2 * u8::from(bit(0)) + 4 * u8::from(bit(4));
                let got_from_left = blk.table_indices_from_left_prover();
                rec.eval();
                if got.len() == 256 && got[pos] == (want_u, want_v) && got_from_right[pos] == want_from_right && got_from_left[pos] == want_from_left {
                    rec.count("block_position_indices_ok");
                    if k < 64 {
                        rec.distinct(&("pos", pos, k));
                    }
                } else {
                    rec.violation(
                        "table indices computed for a block position differ from the reference",
                        json!({"kind": "table_indices"}),
                        json!({"pos": pos, "combo": k, "got_prover": format!("{:?}", got.get(pos)), "want_prover": [want_u, want_v],
                               "got_from_right": got_from_right.get(pos), "want_from_right": want_from_right,
                               "got_from_left": got_from_left.get(pos), "want_from_left": want_from_left}),
                    );
                }
            }
        }
        rec.sample(json!({"combinations": 64, "positions": 256, "per_position_combinations": 128}));
        rec.finish();
    }

    // -----------------------------------------------------------------------------------------
    // (b) direct batches from a reference multiplication model
    // -----------------------------------------------------------------------------------------

    /// the seven intermediates of one helper for one record (each `width` bits)
    #[derive(Clone)]
    struct Seven {
        a: [Bv; 7], // x_left, x_right, y_left, y_right, prss_left, prss_right, z_right
    }
    const ARRAYS: [&str; 7] = ["x_left", "x_right", "y_left", "y_right", "prss_left", "prss_right", "z_right"];

    /// Reference three-party multiplication: z_i = x_i y_i ^ x_i y_{i+1} ^ x_{i+1} y_i ^ p_i ^ p_{i+1};
    /// helper i records (x_i, x_{i+1}, y_i, y_{i+1}, p_i, p_{i+1}, z_{i+1}).
    fn model_record(width: usize, r: &mut VRng) -> [Seven; 3] {
        let genv = |r: &mut VRng| -> Vec<bool> { (0..width).map(|_| r.bool()).collect() };
        let x: [Vec<bool>; 3] = [genv(r), genv(r), genv(r)];
        let y: [Vec<bool>; 3] = [genv(r), genv(r), genv(r)];
        let p: [Vec<bool>; 3] = [genv(r), genv(r), genv(r)];
        let z: Vec<Vec<bool>> = (0..3)
            .map(|i| {
                let n = (i + 1) % 3;
                (0..width).map(|k| (x[i][k] & y[i][k]) ^ (x[i][k] & y[n][k]) ^ (x[n][k] & y[i][k]) ^ p[i][k] ^ p[n][k]).collect()
            })
            .collect();
        let bv = |v: &Vec<bool>| -> Bv { v.iter().copied().collect() };
        std::array::from_fn(|i| {
            let n = (i + 1) % 3;
            Seven { a: [bv(&x[i]), bv(&x[n]), bv(&y[i]), bv(&y[n]), bv(&p[i]), bv(&p[n]), bv(&z[n])] }
        })
    }

    #[derive(Clone, Debug)]
    struct BatchCase {
        width: usize,
        records: usize,
        gates: usize,
        first_record: usize,
        explicit_first: bool,
        /// (helper, gate, record, array, bit)
        flip: Option<(usize, usize, usize, usize, usize)>,
        seed: u64,
    }
    impl BatchCase {
        fn to_json(&self) -> Value {
            json!({"width": self.width, "records": self.records, "gates": self.gates, "first_record": self.first_record,
                   "explicit_first": self.explicit_first, "seed": self.seed,
                   "flip": self.flip.map(|(h, g, rcd, a, b)| json!({"helper": h, "gate": g, "record": rcd, "array": ARRAYS[a], "bit": b}))})
        }
        fn blocks_per_gate(&self) -> usize {
            let w = if self.width < 256 { self.width.next_power_of_two() } else { self.width };
            (self.records * w).div_ceil(256)
        }
    }

    fn run_batch_case(case: &BatchCase) -> (Paused<Vec<Result<Result<(), String>, String>>>, usize) {
        // data for all gates / records / helpers
        let mut r = VRng::new(case.seed, 7);
        let mut data: Vec<Vec<[Seven; 3]>> = Vec::new();
        for _ in 0..case.gates {
            data.push((0..case.records).map(|_| model_record(case.width, &mut r)).collect());
        }
        if let Some((h, g, rcd, arr, bit)) = case.flip {
            let cur = data[g][rcd][h].a[arr][bit];
            data[g][rcd][h].a[arr].set(bit, !cur);
        }
        let case = case.clone();
        let total_blocks = case.blocks_per_gate() * case.gates;
        let out = vlib::run_paused(Duration::from_secs(60), async move {
            let mut cfg = TestWorldConfig::default();
            cfg.seed = case.seed;
            cfg.timeout = None;
            let world = TestWorld::new_with(&cfg);
            let ctxs = world.malicious_contexts();
            let futs = ctxs.into_iter().enumerate().map(|(h, ctx)| {
                let data = &data;
                let case = &case;
                async move {
                    let first = if case.explicit_first { Some(RecordId::from(case.first_record)) } else { None };
                    let mut batch = Batch::new(first, case.records);
                    for g in 0..case.gates {
                        let gate = Gate::default().narrow(&format!("mul-gate-{g}"));
                        for rcd in 0..case.records {
                            let s = &data[g][rcd][h];
                            let seg = Segment::from_entries(
                                SegmentEntry::from_bitslice(&s.a[0]),
                                SegmentEntry::from_bitslice(&s.a[1]),
                                SegmentEntry::from_bitslice(&s.a[2]),
                                SegmentEntry::from_bitslice(&s.a[3]),
                                SegmentEntry::from_bitslice(&s.a[4]),
                                SegmentEntry::from_bitslice(&s.a[5]),
                                SegmentEntry::from_bitslice(&s.a[6]),
                            );
                            batch.push(gate.clone(), RecordId::from(case.first_record + rcd), seg);
                        }
                    }
                    let base = ctx.narrow("c03-validate").validator_context();
                    catch_fut(batch.validate(base, 0)).await.map(|r| r.map_err(|e| format!("{e:?}")))
                }
            });
            join_all(futs).await
        });
        (out, total_blocks)
    }

    fn judge_batch(rec: &mut Recorder, case: &BatchCase, idx: usize) {
        let (out, blocks) = run_batch_case(case);
        rec.eval();
        let Paused::Done(res) = out else {
            rec.violation(
                "batch validation did not complete",
                json!({"kind": "no_completion", "flipped": case.flip.is_some()}),
                json!({"case": idx, "batch_case": case.to_json()}),
            );
            return;
        };
        let classes: Vec<String> = res
            .iter()
            .map(|r| match r {
                Ok(Ok(())) => "ok".to_string(),
                Ok(Err(e)) => format!("err:{}", e.split(|c: char| !c.is_alphanumeric()).next().unwrap_or("")),
                Err(_) => "panic".to_string(),
            })
            .collect();
        let all_ok = classes.iter().all(|c| c == "ok");
        match case.flip {
            None => {
                if all_ok {
                    rec.count("honest_batch_accepted");
                    rec.distinct(&("honest", case.width, case.records, case.gates, case.explicit_first, case.first_record > 0));
                    rec.seen("honest_shapes", format!("w{}/blocks{}/gates{}", case.width, blocks, case.gates));
                } else {
                    rec.violation(
                        "an honest multiplication batch was rejected",
                        json!({"kind": "honest_rejected", "width": case.width, "blocks_per_gate": case.blocks_per_gate(), "gates": case.gates}),
                        json!({"case": idx, "batch_case": case.to_json(), "results": format!("{res:?}").chars().take(400).collect::<String>()}),
                    );
                }
            }
            Some((h, _, _, arr, _)) => {
                if all_ok {
                    rec.violation(
                        "a batch with one flipped recorded bit was accepted by all three helpers",
                        json!({"kind": "flip_accepted", "array": ARRAYS[arr], "width": case.width, "blocks_per_gate": case.blocks_per_gate()}),
                        json!({"case": idx, "batch_case": case.to_json()}),
                    );
                } else {
                    rec.count("flipped_batch_rejected");
                    rec.distinct(&("flip", case.width, case.records, case.gates, h, arr));
                    // who rejected, relative to the deviating helper (evidence only)
                    for (i, c) in classes.iter().enumerate() {
                        if c != "ok" {
                            rec.seen("rejecting_helper_relative_to_flipped", format!("{}:{}", ARRAYS[arr], ["self", "right", "left"][(i + 3 - h) % 3]));
                        }
                    }
                }
            }
        }
    }

    const WIDTHS: [usize; 8] = [1, 3, 8, 20, 32, 64, 256, 512];
    const BLOCKS: [usize; 12] = [1, 2, 3, 4, 5, 7, 15, 16, 17, 31, 33, 64];

    fn records_for(width: usize, blocks: usize, r: &mut VRng) -> usize {
        let w = if width < 256 { width.next_power_of_two() } else { width };
        // number of records whose packed size is `blocks` blocks (exactly full or with a partially used last block)
        let per_block = (256 / w).max(1);
        let full = if width < 256 { blocks * per_block } else { blocks / (w / 256).max(1) };
        let full = full.max(1);
        if width < 256 && per_block > 1 && r.bool() { full - r.below(per_block as u64 - 1).min(full as u64 - 1) as usize } else { full }
    }

    #[test]
    fn verif_c03_batches() {
        let env = vlib::env();
        let mut rec = Recorder::new("C03", "verif_c03_batches");
        let mut idx = 0usize;
        // honest shapes + seeded flips
        let flips_per_shape = env.pick(4, 16);
        for (wi, &width) in WIDTHS.iter().enumerate() {
            for (bi, &blocks) in BLOCKS.iter().enumerate() {
                if width == 512 && blocks % 2 == 1 && blocks > 1 {
                    continue;
                }
                // quick: thin the grid
                if !env.thorough && vlib::fxhash(&(wi, bi, env.seed)) % 3 == 0 {
                    idx += 1 + flips_per_shape;
                    continue;
                }
                let mut r = VRng::new(env.seed ^ 0xc03b, (wi * 100 + bi) as u64);
                let records = records_for(width, blocks, &mut r);
                let gates = 1 + (wi + bi) % 4;
                let explicit_first = (wi + bi) % 2 == 0;
                let first_record = if (wi + bi) % 3 == 0 { 0 } else { 5 + (bi * 7) % 40 };
                let base = BatchCase { width, records, gates: if blocks > 16 { 1 } else { gates }, first_record, explicit_first, flip: None, seed: env.seed.wrapping_mul(1009) + (wi * 100 + bi) as u64 };
                idx += 1;
                if env.mine(idx) {
                    judge_batch(&mut rec, &base, idx);
                    if rec.want_sample() {
                        rec.sample(json!({"honest_batch": base.to_json(), "blocks_per_gate": base.blocks_per_gate()}));
                    }
                }
                for k in 0..flips_per_shape {
                    idx += 1;
                    if !env.mine(idx) {
                        continue;
                    }
                    let mut c = base.clone();
                    c.flip = Some((
                        (k + wi) % 3,
                        r.below(c.gates as u64) as usize,
                        r.below(c.records as u64) as usize,
                        (k + bi + r.below(7) as usize) % 7,
                        r.below(width as u64) as usize,
                    ));
                    judge_batch(&mut rec, &c, idx);
                }
            }
        }
        // thorough: every bit of every intermediate of every helper for one full block (7 x 256 x 3)
        if env.thorough {
            for h in 0..3 {
                for arr in 0..7 {
                    for bit in 0..256 {
                        idx += 1;
                        if !env.mine(idx) {
                            continue;
                        }
                        let c = BatchCase { width: 256, records: 1, gates: 1, first_record: 0, explicit_first: true, flip: Some((h, 0, 0, arr, bit)), seed: env.seed ^ 0xb10c };
                        judge_batch(&mut rec, &c, idx);
                    }
                }
            }
            rec.note("exhaustive single-bit flips of one 256-bit block: 7 arrays x 256 bits x 3 helpers");
        } else {
            // quick: one flip per (helper, array) on a one-block batch
            for h in 0..3 {
                for arr in 0..7 {
                    idx += 1;
                    if !env.mine(idx) {
                        continue;
                    }
                    let bit = (vlib::fxhash(&(h, arr, env.seed)) % 256) as usize;
                    let c = BatchCase { width: 256, records: 1, gates: 1, first_record: 0, explicit_first: true, flip: Some((h, 0, 0, arr, bit)), seed: env.seed ^ 0xb10c };
                    judge_batch(&mut rec, &c, idx);
                }
            }
        }
        rec.finish();
    }

    // -----------------------------------------------------------------------------------------
    // (c) real multiplications with one transmitted bit flipped
    // -----------------------------------------------------------------------------------------

    #[derive(Clone, Debug)]
    struct MulCase {
        ty: &'static str,
        count: usize,
        batch: usize,
        batched_mode: bool,
        seed: u64,
    }

    async fn select_body<V>(case: MulCase, interceptor: crate::helpers::in_memory_config::DynStreamInterceptor) -> Vec<Result<Result<usize, String>, String>>
    where
        V: BooleanArray + U128Conversions,
        for<'a> Replicated<V>: BooleanArrayMul<DZKPUpgradedMaliciousContext<'a, NotSharded>>,
    {
        let mut cfg = TestWorldConfig::default();
        cfg.seed = case.seed;
        cfg.timeout = None;
        cfg.stream_interceptor = interceptor;
        let world = TestWorld::new_with(&cfg);
        let mut r = VRng::new(case.seed ^ 0x5e1, 0);
        let mut inputs: [Vec<(Replicated<Boolean>, Replicated<V>, Replicated<V>)>; 3] = Default::default();
        for _ in 0..case.count {
            let bit = wl::share_ba::<crate::ff::boolean_array::BA8>(r.below(2) as u128, &mut r); // only the lowest bit is used
            let a = wl::share_ba::<V>(r.u128(), &mut r);
            let b = wl::share_ba::<V>(r.u128(), &mut r);
            for h in 0..3 {
                let bl = Boolean::from(bit[h].left().as_u128() & 1 == 1);
                let br = Boolean::from(bit[h].right().as_u128() & 1 == 1);
                inputs[h].push((Replicated::new(bl, br), a[h].clone(), b[h].clone()));
            }
        }
        let ctxs = world.malicious_contexts();
        let futs = ctxs.into_iter().zip(inputs).map(|(ctx, inp)| {
            let case = case.clone();
            async move {
                catch_fut(async move {
                    let v = ctx.set_total_records(TotalRecords::specified(case.count).unwrap()).dzkp_validator(TEST_DZKP_STEPS, case.batch);
                    let m_ctx = v.context();
                    if case.batched_mode {
                        let out: Vec<Replicated<V>> = v
                            .validated_seq_join(stream::iter(inp).enumerate().map(|(i, (bit, a, b))| {
                                let m_ctx = m_ctx.clone();
                                async move { select(m_ctx, RecordId::from(i), &bit, &a, &b).await }
                            }))
                            .try_collect()
                            .await?;
                        Ok::<usize, Error>(out.len())
                    } else {
                        let out: Vec<Replicated<V>> = m_ctx
                            .try_join(inp.into_iter().enumerate().map(|(i, (bit, a, b))| {
                                let m_ctx = m_ctx.clone();
                                async move { select(m_ctx, RecordId::from(i), &bit, &a, &b).await }
                            }))
                            .await?;
                        v.validate().await?;
                        Ok(out.len())
                    }
                })
                .await
                .map(|r| r.map_err(|e| format!("{e:?}")))
            }
        });
        join_all(futs).await
    }

    fn run_mul(case: &MulCase, fault: Option<Fault>) -> (Paused<Vec<Result<Result<usize, String>, String>>>, TapState) {
        let st = Arc::new(Mutex::new(TapState { fault, ..Default::default() }));
        let tap = wl::tap(Arc::clone(&st));
        let c = case.clone();
        let out = vlib::run_paused(Duration::from_secs(60), async move {
            match c.ty {
                "BA3" => select_body::<BA3>(c, tap).await,
                "BA8" => select_body::<BA8>(c, tap).await,
                "BA20" => select_body::<BA20>(c, tap).await,
                "BA32" => select_body::<BA32>(c, tap).await,
                _ => select_body::<BA64>(c, tap).await,
            }
        });
        let st = std::mem::take(&mut *st.lock().unwrap());
        (out, st)
    }

    #[test]
    fn verif_c03_real_multiplies() {
        let env = vlib::env();
        let mut rec = Recorder::new("C03", "verif_c03_real_multiplies");
        let types = ["BA3", "BA8", "BA20", "BA32", "BA64"];
        let mut idx = 0usize;
        for (ti, ty) in types.iter().enumerate() {
            for (ci, (count, batch, batched)) in [(1usize, 1usize, false), (5, 8, false), (12, 4, true), (33, 16, true), (40, 8, true)].into_iter().enumerate() {
                
                let case = MulCase { ty, count, batch, batched_mode: batched, seed: env.seed.wrapping_mul(2003) + (ti * 10 + ci) as u64 };
                // every process needs the inventory; the honest verdict is evaluated by one process only
                let (honest, st) = run_mul(&case, None);
                let honest_ok = matches!(&honest, Paused::Done(v) if v.iter().all(|r| matches!(r, Ok(Ok(n)) if *n == case.count)));
                idx += 1;
                if env.mine(idx) {
                    rec.eval();
                    if honest_ok {
                        rec.count("honest_multiplications_validated");
                        rec.distinct(&("honest_mul", *ty, count, batch, batched));
                    } else {
                        rec.violation(
                            "honest multiplications failed validation",
                            json!({"kind": "honest_mul_rejected", "type": ty, "batched": batched}),
                            json!({"case": idx, "mul_case": format!("{case:?}"), "result": match &honest { Paused::Done(v) => format!("{v:?}"), Paused::Quiescent => "quiescent".into() }}),
                        );
                    }
                }
                if !honest_ok {
                    continue;
                }
                // multiplication traffic = everything that is not part of the proof exchange
                let mut by_family: BTreeMap<(String, u8), Vec<&ChunkInfo>> = BTreeMap::new();
                for c in &st.chunks {
                    by_family.entry((wl::step_family(&c.key.gate), c.key.src)).or_default().push(c);
                }
                let mut r = VRng::new(case.seed ^ 0xfa17, 1);
                for ((fam, src), chunks) in &by_family {
                    let is_proof = fam.contains("dzkp_validate") || fam.contains("validate");
                    let n_faults = if is_proof { 1 } else { env.pick(4, 16) };
                    for k in 0..n_faults {
                        idx += 1;
                        if !env.mine(idx) {
                            continue;
                        }
                        let c = chunks[r.below(chunks.len() as u64) as usize];
                        let pattern = if is_proof {
                            Pattern::XorFf { byte: r.below(c.len.max(1) as u64) as usize }
                        } else {
                            Pattern::FlipBit { byte: r.below(c.len.max(1) as u64) as usize, bit: ((k + idx) % 8) as u8 }
                        };
                        let fault = Fault { key: c.key.clone(), chunk_no: c.chunk_no, pattern };
                        let (out, st2) = run_mul(&case, Some(fault.clone()));
                        if !matches!(st2.fault_applied, Some((_, true))) {
                            rec.count("fault_not_applied");
                            continue;
                        }
                        rec.eval();
                        let all_ok = matches!(&out, Paused::Done(v) if v.iter().all(|r| matches!(r, Ok(Ok(_)))));
                        if is_proof {
                            rec.seen("proof_message_fault_outcomes", format!("{fam}:{}", if all_ok { "accepted" } else { "rejected" }));
                            rec.distinct(&("proof_fault", *ty, fam.as_str(), *src));
                        } else if all_ok {
                            // BA3/BA20 messages have padding bits in their last byte: a flip there is not a flip of a transmitted
                            // multiplication bit (the receiver may ignore or reject it) - only count as violation when the bit is a data bit
                            rec.violation(
                                "a flipped transmitted multiplication bit was accepted by all three helpers",
                                json!({"kind": "transmitted_flip_accepted", "type": ty, "batched": batched, "step_family": fam}),
                                json!({"case": idx, "mul_case": format!("{case:?}"), "fault": fault.to_json(), "chunk_len": c.len}),
                            );
                        } else {
                            rec.count("transmitted_flip_rejected");
                            rec.seen("multiplication_step_families_faulted", fam.clone());
                            rec.distinct(&("mul_fault", *ty, fam.as_str(), *src, batched));
                        }
                    }
                }
            }
        }
        rec.finish();
    }
}
