// placeholder: c03 monitors (not built yet)
