// C03 Multiplication proofs accept honest batches and reject any altered one.
//
// (a) algebra of the u/v tables on all 64 combinations x all 256 block positions;
// (b) `Batch`es built directly on the three helpers from a reference three-party multiplication
//     model, validated with the real `Batch::validate`; then one stored bit flipped => some helper must
//     reject;
// (c) real multiplications (select over BA widths / Boolean multiply) under `dzkp_validator` in
//     single-shot and batched mode with one transmitted bit of a multiplication message flipped.
// (d) deviating provers: a helper that sent wrong product bits crafts its proofs so that exactly a chosen set of the
//     verifier's differences is non-zero; the real verifier code must reject every one of them.
#[cfg(not(feature = "shuttle"))]
mod m {
    use std::{
        collections::BTreeMap,
        sync::{Arc, Mutex},
        time::Duration,
    };

    use bitvec::prelude::{BitVec, Lsb0};
    use futures::{StreamExt, TryStreamExt, future::join_all, stream};
    use ipa_step::StepNarrow;
    use serde_json::{Value, json};

    use super::super::super::{BitSliceType, Batch, DZKPValidator, MultiplicationInputsBlock, Segment, SegmentEntry};
    use crate::{
        error::Error,
        ff::{
            Field, Fp61BitPrime, U128Conversions,
            boolean::Boolean,
            boolean_array::{BA3, BA8, BA20, BA32, BA64, BA256, BooleanArray},
        },
        helpers::TotalRecords,
        protocol::{
            Gate, RecordId,
            basics::{BooleanArrayMul, SecureMul, select},
            context::{
                Context, DZKPUpgradedMaliciousContext, TEST_DZKP_STEPS, UpgradableContext,
                dzkp_field::{DZKPBaseField, TABLE_U, TABLE_V},
            },
        },
        secret_sharing::SharedValue,
        secret_sharing::replicated::{ReplicatedSecretSharing, semi_honest::AdditiveShare as Replicated},
        seq_join::SeqJoin,
        sharding::NotSharded,
        test_fixture::{TestWorld, TestWorldConfig},
        verif::{
            vlib::{self, Paused, Recorder, VRng, catch_fut},
            wl::{self, ChunkInfo, Fault, Pattern, TapState},
        },
    };

    type Bv = BitVec<u8, Lsb0>;

    // -----------------------------------------------------------------------------------------
    // (a) algebra
    // -----------------------------------------------------------------------------------------

    fn dot(u: &[Fp61BitPrime; 4], v: &[Fp61BitPrime; 4]) -> Fp61BitPrime {
        let mut s = Fp61BitPrime::ZERO;
        for i in 0..4 {
            s += u[i] * v[i];
        }
        s
    }

    #[test]
    fn verif_c03_table_identity_x1() {
        let env = vlib::env();
        let mut rec = Recorder::new("C03", "verif_c03_table_identity_x1");
        let minus_half = Fp61BitPrime::MINUS_ONE_HALF;
        let two = Fp61BitPrime::ONE + Fp61BitPrime::ONE;
        rec.eval();
        if minus_half * two + Fp61BitPrime::ONE != Fp61BitPrime::ZERO || Fp61BitPrime::MINUS_TWO + two != Fp61BitPrime::ZERO {
            rec.violation("proof-field constants -1/2 or -2 are wrong", json!({"kind": "constants"}), json!({}));
        }
        // all 64 combinations of (a, b, c, d, e, f)
        for k in 0..64u32 {
            let (a, b, c, d, e, f) = (k & 1, (k >> 1) & 1, (k >> 2) & 1, (k >> 3) & 1, (k >> 4) & 1, (k >> 5) & 1);
            let iu = (a + 2 * c + 4 * e) as usize;
            let iv = (b + 2 * d + 4 * f) as usize;
            let s = dot(&TABLE_U[iu], &TABLE_V[iv]);
            let consistent = e == ((a & b) ^ (c & d) ^ f);
            rec.eval();
            let ok = if consistent { s == minus_half } else { s != minus_half && s == Fp61BitPrime::ZERO - minus_half };
            if ok {
                rec.count("table_identity_ok");
                rec.distinct(&("combo", k));
            } else {
                rec.violation(
                    "sum g_i*h_i is not (-1/2 iff e = ab^cd^f)",
                    json!({"kind": "table_identity", "consistent": consistent}),
                    json!({"a": a, "b": b, "c": c, "d": d, "e": e, "f": f, "sum": s.as_u128().to_string()}),
                );
            }
        }
        // every position of a 256-bit block x every combination of the six prover-side intermediates, on a random
        // background: the prover's table indices at that position, and the two verifiers' indices on the rotated views
        let mut r = VRng::new(env.seed ^ 0xc03, 0);
        let rnd = |r: &mut VRng| -> [u8; 32] {
            let mut x = [0u8; 32];
            for b in &mut x {
                *b = r.next() as u8;
            }
            x
        };
        for pos in 0..256usize {
            for k in 0..128u32 {
                // bits: x1 x2 x3? -> use the full three-party model at this position: 9 bits would be 512 combos; cover the
                // prover's six inputs (x_i, x_{i+1}, y_i, y_{i+1}, p_i, p_{i+1}) + z_{i+1} consistency bit
                let mut blk = MultiplicationInputsBlock {
                    x_left: rnd(&mut r).into(),
                    x_right: rnd(&mut r).into(),
                    y_left: rnd(&mut r).into(),
                    y_right: rnd(&mut r).into(),
                    prss_left: rnd(&mut r).into(),
                    prss_right: rnd(&mut r).into(),
                    z_right: rnd(&mut r).into(),
                };
                let bit = |j: u32| (k >> j) & 1 == 1;
                blk.x_left.set(pos, bit(0));
                blk.x_right.set(pos, bit(1));
                blk.y_left.set(pos, bit(2));
                blk.y_right.set(pos, bit(3));
                blk.prss_left.set(pos, bit(4));
                blk.prss_right.set(pos, bit(5));
                blk.z_right.set(pos, bit(6));
                let (a, b, c, d, f) = (bit(0), bit(3), bit(2), bit(1), bit(5));
                let e = (a & b) ^ (c & d) ^ f;
                let want_u = u8::from(a) + 2 * u8::from(c) + 4 * u8::from(e);
                let want_v = u8::from(b) + 2 * u8::from(d) + 4 * u8::from(f);
                let got = blk.table_indices_prover();
                // verifier to the left of a prover sees (x_right, y_right, z_right, prss_right) of its own block
                let e_l = (bit(1) & bit(3)) ^ bit(5) ^ bit(6);
                let want_from_right = u8::from(bit(1)) + 2 * u8::from(bit(3)) + 4 * u8::from(e_l);
                let got_from_right = blk.table_indices_from_right_prover();
                let want_from_left = u8::from(bit(2)) + 2 * u8::from(bit(0)) + 4 * u8::from(bit(4));
                let got_from_left = blk.table_indices_from_left_prover();
                rec.eval();
                if got.len() == 256 && got[pos] == (want_u, want_v) && got_from_right[pos] == want_from_right && got_from_left[pos] == want_from_left {
                    rec.count("block_position_indices_ok");
                    if k < 64 {
                        rec.distinct(&("pos", pos, k));
                    }
                } else {
                    rec.violation(
                        "table indices computed for a block position differ from the reference",
                        json!({"kind": "table_indices"}),
                        json!({"pos": pos, "combo": k, "got_prover": format!("{:?}", got.get(pos)), "want_prover": [want_u, want_v],
                               "got_from_right": got_from_right.get(pos), "want_from_right": want_from_right,
                               "got_from_left": got_from_left.get(pos), "want_from_left": want_from_left}),
                    );
                }
            }
        }
        rec.sample(json!({"combinations": 64, "positions": 256, "per_position_combinations": 128}));
        rec.finish();
    }

    // -----------------------------------------------------------------------------------------
    // (b) direct batches from a reference multiplication model
    // -----------------------------------------------------------------------------------------

    /// the seven intermediates of one helper for one record (each `width` bits)
    #[derive(Clone)]
    struct Seven {
        a: [Bv; 7], // x_left, x_right, y_left, y_right, prss_left, prss_right, z_right
    }
    const ARRAYS: [&str; 7] = ["x_left", "x_right", "y_left", "y_right", "prss_left", "prss_right", "z_right"];

    /// Reference three-party multiplication: z_i = x_i y_i ^ x_i y_{i+1} ^ x_{i+1} y_i ^ p_i ^ p_{i+1};
    /// helper i records (x_i, x_{i+1}, y_i, y_{i+1}, p_i, p_{i+1}, z_{i+1}).
    fn model_record(width: usize, r: &mut VRng) -> [Seven; 3] {
        let genv = |r: &mut VRng| -> Vec<bool> { (0..width).map(|_| r.bool()).collect() };
        let x: [Vec<bool>; 3] = [genv(r), genv(r), genv(r)];
        let y: [Vec<bool>; 3] = [genv(r), genv(r), genv(r)];
        let p: [Vec<bool>; 3] = [genv(r), genv(r), genv(r)];
        let z: Vec<Vec<bool>> = (0..3)
            .map(|i| {
                let n = (i + 1) % 3;
                (0..width).map(|k| (x[i][k] & y[i][k]) ^ (x[i][k] & y[n][k]) ^ (x[n][k] & y[i][k]) ^ p[i][k] ^ p[n][k]).collect()
            })
            .collect();
        let bv = |v: &Vec<bool>| -> Bv { v.iter().copied().collect() };
        std::array::from_fn(|i| {
            let n = (i + 1) % 3;
            Seven { a: [bv(&x[i]), bv(&x[n]), bv(&y[i]), bv(&y[n]), bv(&p[i]), bv(&p[n]), bv(&z[n])] }
        })
    }

    #[derive(Clone, Debug)]
    struct BatchCase {
        width: usize,
        records: usize,
        gates: usize,
        first_record: usize,
        explicit_first: bool,
        /// (helper, gate, record, array, bit)
        flip: Option<(usize, usize, usize, usize, usize)>,
        seed: u64,
    }
    impl BatchCase {
        fn to_json(&self) -> Value {
            json!({"width": self.width, "records": self.records, "gates": self.gates, "first_record": self.first_record,
                   "explicit_first": self.explicit_first, "push_order": self.push_order(), "seed": self.seed,
                   "flip": self.flip.map(|(h, g, rcd, a, b)| json!({"helper": h, "gate": g, "record": rcd, "array": ARRAYS[a], "bit": b}))})
        }
        /// order in which a helper pushes the records of one step (only a batch that knows its first record accepts
        /// anything but increasing order)
        fn push_order(&self) -> u64 {
            if self.explicit_first { self.seed % 3 } else { 0 }
        }
        fn blocks_per_gate(&self) -> usize {
            let w = if self.width < 256 { self.width.next_power_of_two() } else { self.width };
            (self.records * w).div_ceil(256)
        }
    }

    fn run_batch_case(case: &BatchCase) -> (Paused<Vec<Result<Result<(), String>, String>>>, usize) {
        // data for all gates / records / helpers
        let mut r = VRng::new(case.seed, 7);
        let mut data: Vec<Vec<[Seven; 3]>> = Vec::new();
        for _ in 0..case.gates {
            data.push((0..case.records).map(|_| model_record(case.width, &mut r)).collect());
        }
        if let Some((h, g, rcd, arr, bit)) = case.flip {
            let cur = data[g][rcd][h].a[arr][bit];
            data[g][rcd][h].a[arr].set(bit, !cur);
        }
        let case = case.clone();
        let total_blocks = case.blocks_per_gate() * case.gates;
        let out = vlib::run_paused(Duration::from_secs(60), async move {
            let mut cfg = TestWorldConfig::default();
            cfg.seed = case.seed;
            cfg.timeout = None;
            let world = TestWorld::new_with(&cfg);
            let ctxs = world.malicious_contexts();
            let futs = ctxs.into_iter().enumerate().map(|(h, ctx)| {
                let data = &data;
                let case = &case;
                async move {
                    let first = if case.explicit_first { Some(RecordId::from(case.first_record)) } else { None };
                    let mut batch = Batch::new(first, case.records);
                    for g in 0..case.gates {
                        let gate = Gate::default().narrow(&format!("mul-gate-{g}"));
                        // with a known first record the store accepts the records of a step in any order, and the three
                        // helpers need not agree on that order (0 = in order, 1 = reversed, 2 = seeded per helper and step)
                        let mut order: Vec<usize> = (0..case.records).collect();
                        match case.push_order() {
                            1 => order.reverse(),
                            2 => VRng::new(case.seed ^ 0x0d3, (h * 64 + g) as u64).shuffle(&mut order),
                            _ => {}
                        }
                        for rcd in order {
                            let s = &data[g][rcd][h];
                            let seg = Segment::from_entries(
                                SegmentEntry::from_bitslice(&s.a[0]),
                                SegmentEntry::from_bitslice(&s.a[1]),
                                SegmentEntry::from_bitslice(&s.a[2]),
                                SegmentEntry::from_bitslice(&s.a[3]),
                                SegmentEntry::from_bitslice(&s.a[4]),
                                SegmentEntry::from_bitslice(&s.a[5]),
                                SegmentEntry::from_bitslice(&s.a[6]),
                            );
                            batch.push(gate.clone(), RecordId::from(case.first_record + rcd), seg);
                        }
                    }
                    let base = ctx.narrow("c03-validate").validator_context();
                    catch_fut(batch.validate(base, 0)).await.map(|r| r.map_err(|e| format!("{e:?}")))
                }
            });
            join_all(futs).await
        });
        (out, total_blocks)
    }

    fn judge_batch(rec: &mut Recorder, case: &BatchCase, idx: usize) {
        let (out, blocks) = run_batch_case(case);
        rec.eval();
        let Paused::Done(res) = out else {
            rec.violation(
                "batch validation did not complete",
                json!({"kind": "no_completion", "flipped": case.flip.is_some()}),
                json!({"case": idx, "batch_case": case.to_json()}),
            );
            return;
        };
        let classes: Vec<String> = res
            .iter()
            .map(|r| match r {
                Ok(Ok(())) => "ok".to_string(),
                Ok(Err(e)) => format!("err:{}", e.split(|c: char| !c.is_alphanumeric()).next().unwrap_or("")),
                Err(_) => "panic".to_string(),
            })
            .collect();
        let all_ok = classes.iter().all(|c| c == "ok");
        match case.flip {
            None => {
                if all_ok {
                    rec.count("honest_batch_accepted");
                    rec.distinct(&("honest", case.width, case.records, case.gates, case.explicit_first, case.first_record > 0));
                    rec.seen("batch_push_orders", ["in_order", "reversed", "shuffled_per_helper"][case.push_order() as usize]);
                    rec.seen("honest_shapes", format!("w{}/blocks{}/gates{}", case.width, blocks, case.gates));
                } else {
                    rec.violation(
                        "an honest multiplication batch was rejected",
                        json!({"kind": "honest_rejected", "width": case.width, "blocks_per_gate": case.blocks_per_gate(), "gates": case.gates}),
                        json!({"case": idx, "batch_case": case.to_json(), "results": format!("{res:?}").chars().take(400).collect::<String>()}),
                    );
                }
            }
            Some((h, _, _, arr, _)) => {
                if all_ok {
                    rec.violation(
                        "a batch with one flipped recorded bit was accepted by all three helpers",
                        json!({"kind": "flip_accepted", "array": ARRAYS[arr], "width": case.width, "blocks_per_gate": case.blocks_per_gate()}),
                        json!({"case": idx, "batch_case": case.to_json()}),
                    );
                } else {
                    rec.count("flipped_batch_rejected");
                    rec.distinct(&("flip", case.width, case.records, case.gates, h, arr));
                    // who rejected, relative to the deviating helper (evidence only)
                    for (i, c) in classes.iter().enumerate() {
                        if c != "ok" {
                            rec.seen("rejecting_helper_relative_to_flipped", format!("{}:{}", ARRAYS[arr], ["self", "right", "left"][(i + 3 - h) % 3]));
                        }
                    }
                }
            }
        }
    }

    /// The deepest proof the prover can build: one step of 49,153 x 256 = 12,583,168 multiplications needs the maximum number
    /// of recursion levels (3 * 4^11 < m <= 3 * 4^12), the range production batches of TARGET_PROOF_SIZE = 50M fall into
    /// (under cfg(test) batches are cut at 8192, so nothing else gets there). Thorough tier, one process, about a minute.
    #[test]
    fn verif_c03_deep_recursion_x1() {
        let env = vlib::env();
        let mut rec = Recorder::new("C03", "verif_c03_deep_recursion_x1");
        if !env.thorough {
            rec.eval();
            rec.count("deep_recursion_skipped_in_quick_tier");
            rec.finish();
            return;
        }
        let honest = BatchCase { width: 256, records: 49_153, gates: 1, first_record: 0, explicit_first: true, flip: None, seed: env.seed ^ 0xdee9 };
        judge_batch(&mut rec, &honest, 0);
        rec.add("deep_recursion_multiplications", (honest.records * honest.width) as u64);
        let mut flipped = honest.clone();
        flipped.flip = Some((1, 0, 40_000, 6, 77));
        judge_batch(&mut rec, &flipped, 1);
        rec.sample(json!({"deep_batch": honest.to_json()}));
        rec.finish();
    }

    const WIDTHS: [usize; 8] = [1, 3, 8, 20, 32, 64, 256, 512];
    const BLOCKS: [usize; 12] = [1, 2, 3, 4, 5, 7, 15, 16, 17, 31, 33, 64];

    fn records_for(width: usize, blocks: usize, r: &mut VRng) -> usize {
        let w = if width < 256 { width.next_power_of_two() } else { width };
        // number of records whose packed size is `blocks` blocks (exactly full or with a partially used last block)
        let per_block = (256 / w).max(1);
        let full = if width < 256 { blocks * per_block } else { blocks / (w / 256).max(1) };
        let full = full.max(1);
        if width < 256 && per_block > 1 && r.bool() { full - r.below(per_block as u64 - 1).min(full as u64 - 1) as usize } else { full }
    }

    #[test]
    fn verif_c03_batches() {
        let env = vlib::env();
        let mut rec = Recorder::new("C03", "verif_c03_batches");
        let mut idx = 0usize;
        // honest shapes + seeded flips
        let flips_per_shape = env.pick(4, 16);
        for (wi, &width) in WIDTHS.iter().enumerate() {
            for (bi, &blocks) in BLOCKS.iter().enumerate() {
                if width == 512 && blocks % 2 == 1 && blocks > 1 {
                    continue;
                }
                // quick: thin the grid
                if !env.thorough && vlib::fxhash(&(wi, bi, env.seed)) % 3 == 0 {
                    idx += 1 + flips_per_shape;
                    continue;
                }
                let mut r = VRng::new(env.seed ^ 0xc03b, (wi * 100 + bi) as u64);
                let records = records_for(width, blocks, &mut r);
                let gates = 1 + (wi + bi) % 4;
                let explicit_first = (wi + bi) % 2 == 0;
                let first_record = if (wi + bi) % 3 == 0 { 0 } else { 5 + (bi * 7) % 40 };
                let base = BatchCase { width, records, gates: if blocks > 16 { 1 } else { gates }, first_record, explicit_first, flip: None, seed: env.seed.wrapping_mul(1009) + (wi * 100 + bi) as u64 };
                idx += 1;
                if env.mine(idx) {
                    judge_batch(&mut rec, &base, idx);
                    if rec.want_sample() {
                        rec.sample(json!({"honest_batch": base.to_json(), "blocks_per_gate": base.blocks_per_gate()}));
                    }
                }
                for k in 0..flips_per_shape {
                    idx += 1;
                    if !env.mine(idx) {
                        continue;
                    }
                    let mut c = base.clone();
                    c.flip = Some((
                        (k + wi) % 3,
                        r.below(c.gates as u64) as usize,
                        r.below(c.records as u64) as usize,
                        (k + bi + r.below(7) as usize) % 7,
                        r.below(width as u64) as usize,
                    ));
                    judge_batch(&mut rec, &c, idx);
                }
            }
        }
        // thorough: every bit of every intermediate of every helper for one full block (7 x 256 x 3)
        if env.thorough {
            for h in 0..3 {
                for arr in 0..7 {
                    for bit in 0..256 {
                        idx += 1;
                        if !env.mine(idx) {
                            continue;
                        }
                        let c = BatchCase { width: 256, records: 1, gates: 1, first_record: 0, explicit_first: true, flip: Some((h, 0, 0, arr, bit)), seed: env.seed ^ 0xb10c };
                        judge_batch(&mut rec, &c, idx);
                    }
                }
            }
            rec.note("exhaustive single-bit flips of one 256-bit block: 7 arrays x 256 bits x 3 helpers");
        } else {
            // quick: one flip per (helper, array) on a one-block batch
            for h in 0..3 {
                for arr in 0..7 {
                    idx += 1;
                    if !env.mine(idx) {
                        continue;
                    }
                    let bit = (vlib::fxhash(&(h, arr, env.seed)) % 256) as usize;
                    let c = BatchCase { width: 256, records: 1, gates: 1, first_record: 0, explicit_first: true, flip: Some((h, 0, 0, arr, bit)), seed: env.seed ^ 0xb10c };
                    judge_batch(&mut rec, &c, idx);
                }
            }
        }
        rec.finish();
    }

    // -----------------------------------------------------------------------------------------
    // (c) real multiplications with one transmitted bit flipped
    // -----------------------------------------------------------------------------------------

    #[derive(Clone, Debug)]
    struct MulCase {
        ty: &'static str,
        count: usize,
        batch: usize,
        batched_mode: bool,
        seed: u64,
    }

    async fn select_body<V>(case: MulCase, interceptor: crate::helpers::in_memory_config::DynStreamInterceptor) -> Vec<Result<Result<usize, String>, String>>
    where
        V: BooleanArray + U128Conversions,
        for<'a> Replicated<V>: BooleanArrayMul<DZKPUpgradedMaliciousContext<'a, NotSharded>>,
    {
        let mut cfg = TestWorldConfig::default();
        cfg.seed = case.seed;
        cfg.timeout = None;
        cfg.stream_interceptor = interceptor;
        let world = TestWorld::new_with(&cfg);
        let mut r = VRng::new(case.seed ^ 0x5e1, 0);
        let mut inputs: [Vec<(Replicated<Boolean>, Replicated<V>, Replicated<V>)>; 3] = Default::default();
        for _ in 0..case.count {
            let bit = wl::share_ba::<crate::ff::boolean_array::BA8>(r.below(2) as u128, &mut r); // only the lowest bit is used
            let a = wl::share_ba::<V>(r.u128(), &mut r);
            let b = wl::share_ba::<V>(r.u128(), &mut r);
            for h in 0..3 {
                let bl = Boolean::from(bit[h].left().as_u128() & 1 == 1);
                let br = Boolean::from(bit[h].right().as_u128() & 1 == 1);
                inputs[h].push((Replicated::new(bl, br), a[h].clone(), b[h].clone()));
            }
        }
        let ctxs = world.malicious_contexts();
        let futs = ctxs.into_iter().zip(inputs).map(|(ctx, inp)| {
            let case = case.clone();
            async move {
                catch_fut(async move {
                    let v = ctx.set_total_records(TotalRecords::specified(case.count).unwrap()).dzkp_validator(TEST_DZKP_STEPS, case.batch);
                    let m_ctx = v.context();
                    if case.batched_mode {
                        let out: Vec<Replicated<V>> = v
                            .validated_seq_join(stream::iter(inp).enumerate().map(|(i, (bit, a, b))| {
                                let m_ctx = m_ctx.clone();
                                async move { select(m_ctx, RecordId::from(i), &bit, &a, &b).await }
                            }))
                            .try_collect()
                            .await?;
                        Ok::<usize, Error>(out.len())
                    } else {
                        let out: Vec<Replicated<V>> = m_ctx
                            .try_join(inp.into_iter().enumerate().map(|(i, (bit, a, b))| {
                                let m_ctx = m_ctx.clone();
                                async move { select(m_ctx, RecordId::from(i), &bit, &a, &b).await }
                            }))
                            .await?;
                        v.validate().await?;
                        Ok(out.len())
                    }
                })
                .await
                .map(|r| r.map_err(|e| format!("{e:?}")))
            }
        });
        join_all(futs).await
    }

    fn run_mul(case: &MulCase, fault: Option<Fault>) -> (Paused<Vec<Result<Result<usize, String>, String>>>, TapState) {
        let st = Arc::new(Mutex::new(TapState { fault, ..Default::default() }));
        let tap = wl::tap(Arc::clone(&st));
        let c = case.clone();
        let out = vlib::run_paused(Duration::from_secs(60), async move {
            match c.ty {
                "BA3" => select_body::<BA3>(c, tap).await,
                "BA8" => select_body::<BA8>(c, tap).await,
                "BA20" => select_body::<BA20>(c, tap).await,
                "BA32" => select_body::<BA32>(c, tap).await,
                _ => select_body::<BA64>(c, tap).await,
            }
        });
        let st = std::mem::take(&mut *st.lock().unwrap());
        (out, st)
    }

    #[test]
    fn verif_c03_real_multiplies() {
        let env = vlib::env();
        let mut rec = Recorder::new("C03", "verif_c03_real_multiplies");
        let types = ["BA3", "BA8", "BA20", "BA32", "BA64"];
        let mut idx = 0usize;
        for (ti, ty) in types.iter().enumerate() {
            for (ci, (count, batch, batched)) in [(1usize, 1usize, false), (5, 8, false), (12, 4, true), (33, 16, true), (40, 8, true)].into_iter().enumerate() {
                
                let case = MulCase { ty, count, batch, batched_mode: batched, seed: env.seed.wrapping_mul(2003) + (ti * 10 + ci) as u64 };
                // every process needs the inventory; the honest verdict is evaluated by one process only
                let (honest, st) = run_mul(&case, None);
                let honest_ok = matches!(&honest, Paused::Done(v) if v.iter().all(|r| matches!(r, Ok(Ok(n)) if *n == case.count)));
                idx += 1;
                if env.mine(idx) {
                    rec.eval();
                    if honest_ok {
                        rec.count("honest_multiplications_validated");
                        rec.distinct(&("honest_mul", *ty, count, batch, batched));
                    } else {
                        rec.violation(
                            "honest multiplications failed validation",
                            json!({"kind": "honest_mul_rejected", "type": ty, "batched": batched}),
                            json!({"case": idx, "mul_case": format!("{case:?}"), "result": match &honest { Paused::Done(v) => format!("{v:?}"), Paused::Quiescent => "quiescent".into() }}),
                        );
                    }
                }
                if !honest_ok {
                    continue;
                }
                // multiplication traffic = everything that is not part of the proof exchange
                let mut by_family: BTreeMap<(String, u8), Vec<&ChunkInfo>> = BTreeMap::new();
                for c in &st.chunks {
                    by_family.entry((wl::step_family(&c.key.gate), c.key.src)).or_default().push(c);
                }
                let mut r = VRng::new(case.seed ^ 0xfa17, 1);
                for ((fam, src), chunks) in &by_family {
                    let is_proof = fam.contains("dzkp_validate") || fam.contains("validate");
                    let n_faults = if is_proof { 1 } else { env.pick(4, 16) };
                    for k in 0..n_faults {
                        idx += 1;
                        if !env.mine(idx) {
                            continue;
                        }
                        let c = chunks[r.below(chunks.len() as u64) as usize];
                        let pattern = if is_proof {
                            Pattern::XorFf { byte: r.below(c.len.max(1) as u64) as usize }
                        } else {
                            Pattern::FlipBit { byte: r.below(c.len.max(1) as u64) as usize, bit: ((k + idx) % 8) as u8 }
                        };
                        let fault = Fault { key: c.key.clone(), chunk_no: c.chunk_no, pattern };
                        let (out, st2) = run_mul(&case, Some(fault.clone()));
                        if !matches!(st2.fault_applied, Some((_, true))) {
                            rec.count("fault_not_applied");
                            continue;
                        }
                        rec.eval();
                        let all_ok = matches!(&out, Paused::Done(v) if v.iter().all(|r| matches!(r, Ok(Ok(_)))));
                        if is_proof {
                            rec.seen("proof_message_fault_outcomes", format!("{fam}:{}", if all_ok { "accepted" } else { "rejected" }));
                            rec.distinct(&("proof_fault", *ty, fam.as_str(), *src));
                        } else if all_ok {
                            // BA3/BA20 messages have padding bits in their last byte: a flip there is not a flip of a transmitted
                            // multiplication bit (the receiver may ignore or reject it) - only count as violation when the bit is a data bit
                            rec.violation(
                                "a flipped transmitted multiplication bit was accepted by all three helpers",
                                json!({"kind": "transmitted_flip_accepted", "type": ty, "batched": batched, "step_family": fam}),
                                json!({"case": idx, "mul_case": format!("{case:?}"), "fault": fault.to_json(), "chunk_len": c.len}),
                            );
                        } else {
                            rec.count("transmitted_flip_rejected");
                            rec.seen("multiplication_step_families_faulted", fam.clone());
                            rec.distinct(&("mul_fault", *ty, fam.as_str(), *src, batched));
                        }
                    }
                }
            }
        }
        rec.finish();
    }

    // -----------------------------------------------------------------------------------------
    // (d) deviating provers against the real verifier
    // -----------------------------------------------------------------------------------------
    //
    // One helper P sent wrong product bits to its left neighbour (the batch is inconsistent) and does not run the
    // honest prover: it builds every proof of the recursion itself (the code below is the adversary, written from the
    // protocol description: own Lagrange arithmetic, own recursion, own secret sharing of the proofs; only the public
    // primitives - u/v tables, PRSS, Fiat-Shamir hash - are shared with the code under test).  With u/v taken from the
    // verifiers' views the recomputed p(r), q(r) agree with the prover's, and with an error vector e_i added to the
    // i-th proof the verifiers' differences are
    //     d[0] = t + S(e_0),   d[i] = S(e_i) - e_{i-1}(r_{i-1}),   d[k+1] = -e_k(r_k)
    // (t = number of wrong product bits, S = sum over the points that enter the sum check), so ANY non-empty set of
    // differences can be made the set of non-zero ones - and none of them may be accepted.
    // The verifier side is the real code: `Batch::validate` on the honest helpers (batch mode) or the same sequence of
    // calls `BatchToVerify::{generate_batch_to_verify, generate_challenges, compute_p_and_q_r, verify}` (deviating
    // helper, and all helpers in direct mode where the number of multiplications is not a multiple of 256).

    use super::super::super::{Base, Step};
    use crate::{
        ff::PrimeField,
        helpers::hashing::{compute_hash, hash_to_field},
        protocol::{
            RecordIdRange,
            ipa_prf::{
                CompressedProofGenerator, FirstProofGenerator, ProverTableIndices, VerifierTableIndices,
                validation_protocol::{proof_generation::ProofBatch, validation::BatchToVerify},
            },
            prss::SharedRandomness,
        },
    };

    type Fq = Fp61BitPrime;
    /// recursion factor / proof length of both proof generators (checked at run time against the crate's constants)
    const RL: usize = 4;
    const PL: usize = 7;
    /// `Batch::validate`: PRSS records reserved per batch
    const PRSS_PER_BATCH: usize = PL + 13 * PL + 2;

    fn fe(n: usize) -> Fq {
        Fq::truncate_from(n as u128)
    }
    /// a^(p-2)
    fn finv(a: Fq) -> Fq {
        let mut e: u128 = u128::from(Fq::PRIME) - 2;
        let (mut base, mut acc) = (a, Fq::ONE);
        while e > 0 {
            if e & 1 == 1 {
                acc = acc * base;
            }
            base = base * base;
            e >>= 1;
        }
        acc
    }
    /// Lagrange basis l_j(x) for the nodes 0..n-1
    fn basis(n: usize, x: Fq) -> Vec<Fq> {
        (0..n)
            .map(|j| {
                let (mut num, mut den) = (Fq::ONE, Fq::ONE);
                for o in 0..n {
                    if o != j {
                        num = num * (x - fe(o));
                        den = den * (fe(j) - fe(o));
                    }
                }
                num * finv(den)
            })
            .collect()
    }
    fn dotv(row: &[Fq], y: &[Fq]) -> Fq {
        row.iter().zip(y).fold(Fq::ZERO, |s, (a, b)| s + *a * *b)
    }
    fn interp(points: &[Fq], x: Fq) -> Fq {
        dotv(&basis(points.len(), x), points)
    }
    fn rechunk(vals: &[Fq]) -> Vec<[Fq; RL]> {
        vals.chunks(RL)
            .map(|c| {
                let mut a = [Fq::ZERO; RL];
                a[..c.len()].copy_from_slice(c);
                a
            })
            .collect()
    }
    fn rand_nz(r: &mut VRng) -> Fq {
        loop {
            let x = if r.below(4) == 0 { Fq::truncate_from(u128::from(r.below(3) + 1)) } else { Fq::truncate_from(u128::from(r.next() >> 4)) };
            if x != Fq::ZERO {
                return x;
            }
        }
    }
    /// number of compressed proofs for m multiplications (the differences vector has k + 2 entries)
    fn levels(m: usize) -> usize {
        let (mut n, mut k) = (m, 0);
        loop {
            k += 1;
            if n < RL {
                return k;
            }
            n = n.div_ceil(RL);
        }
    }
    fn diff_label(i: usize, k: usize) -> &'static str {
        if i == 0 {
            "first_sum"
        } else if i == k + 1 {
            "final_value"
        } else if i == 1 {
            "first_link"
        } else if i == k {
            "final_link"
        } else {
            "mid_link"
        }
    }

    #[derive(Clone, Debug)]
    struct Plan {
        /// sorted set of differences that are to be non-zero (empty = no deviation)
        target: Vec<usize>,
        /// u/v from the prover's own intermediates instead of the verifiers' views (needs k+1 in the target)
        own_view: bool,
        seed: u64,
    }

    #[derive(Clone, Debug, Default)]
    struct CraftReport {
        k: usize,
        nonzero: Vec<usize>,
        tags: Vec<&'static str>,
        ops: Vec<Value>,
    }

    /// The deviating prover. Consumes PRSS exactly like `ProofBatch::generate` and returns the same four values.
    fn craft_proofs(
        ctx: &Base<'_, NotSharded>,
        prss_base: usize,
        own: &[(u8, u8)],
        u_ver: &[u8],
        v_ver: &[u8],
        plan: &Plan,
    ) -> (ProofBatch, ProofBatch, Fq, Fq, CraftReport) {
        let m = own.len();
        assert!(u_ver.len() == m && v_ver.len() == m);
        let k = levels(m);
        let mut r = VRng::new(plan.seed, 0xc4af);
        let sum_of_uv = fe(m) * Fq::MINUS_ONE_HALF;
        let mut next_id = prss_base;
        let mut draw = || -> (Fq, Fq) {
            let v: (Fq, Fq) = ctx.prss().generate_fields(RecordId::from(next_id));
            next_id += 1;
            v
        };
        let ext: Vec<Vec<Fq>> = (RL..PL).map(|x| basis(RL, fe(x))).collect();
        let true_proof = |us: &[[Fq; RL]], vs: &[[Fq; RL]]| -> [Fq; PL] {
            let mut g = [Fq::ZERO; PL];
            for (u, v) in us.iter().zip(vs) {
                for j in 0..PL {
                    let (uj, vj) = if j < RL { (u[j], v[j]) } else { (dotv(&ext[j - RL], u), dotv(&ext[j - RL], v)) };
                    g[j] += uj * vj;
                }
            }
            g
        };
        // prover's chain (pu, pv) and the two verifiers' chains (vu, vv)
        let mut vu: Vec<[Fq; RL]> = u_ver.iter().map(|i| TABLE_U[usize::from(*i)]).collect();
        let mut vv: Vec<[Fq; RL]> = v_ver.iter().map(|i| TABLE_V[usize::from(*i)]).collect();
        let (mut pu, mut pv) = if plan.own_view {
            (own.iter().map(|i| TABLE_U[usize::from(i.0)]).collect::<Vec<_>>(), own.iter().map(|i| TABLE_V[usize::from(i.1)]).collect::<Vec<_>>())
        } else {
            (vu.clone(), vv.clone())
        };
        let mut nvals = m * RL;
        let max = plan.target.last().copied();
        if plan.own_view {
            assert_eq!(max, Some(k + 1));
        }
        let mut rep = CraftReport { k, ..Default::default() };
        let mut tags: std::collections::BTreeSet<&'static str> = Default::default();
        tags.insert(if plan.own_view { "uv_own_view" } else { "uv_from_verifier_views" });
        let (mut sent, mut rs): (Vec<[Fq; PL]>, Vec<Fq>) = (Vec::new(), Vec::new());
        let (mut left_shares, mut from_left): (Vec<[Fq; PL]>, Vec<[Fq; PL]>) = (Vec::new(), Vec::new());
        let (mut p_mask_from_right, mut q_mask_from_left) = (Fq::ZERO, Fq::ZERO);
        let (mut my_p_mask, mut my_q_mask) = (Fq::ZERO, Fq::ZERO);
        let (mut p_ver, mut q_ver) = (Fq::ZERO, Fq::ZERO);
        for lvl in 0..=k {
            if lvl == 1 {
                let (a, b) = draw();
                my_p_mask = a;
                p_mask_from_right = b;
                let (a, b) = draw();
                q_mask_from_left = a;
                my_q_mask = b;
            }
            let fin = lvl == k;
            if fin {
                assert!(lvl >= 1 && nvals < RL && pu.len() == 1, "recursion depth miscounted");
                for (c, mask) in [(&mut pu, my_p_mask), (&mut pv, my_q_mask), (&mut vu, my_p_mask), (&mut vv, my_q_mask)] {
                    c[0][RL - 1] = c[0][0];
                    c[0][0] = mask;
                }
            } else {
                assert!(lvl == 0 || nvals >= RL, "recursion depth miscounted");
            }
            let g_true = true_proof(&pu, &pv);
            let expected = if lvl == 0 { sum_of_uv } else { interp(&sent[lvl - 1], rs[lvl - 1]) };
            let lo = usize::from(fin);
            let base_diff = g_true[lo..RL].iter().fold(Fq::ZERO, |s, x| s + *x) - expected;
            let mut e = [Fq::ZERO; PL];
            if let Some(mx) = max.filter(|mx| lvl < *mx) {
                let in_s = plan.target.binary_search(&lvl).is_ok();
                let a = if in_s {
                    if base_diff != Fq::ZERO && r.bool() {
                        tags.insert("error_left_in_place");
                        Fq::ZERO
                    } else {
                        loop {
                            let x = rand_nz(&mut r);
                            if base_diff + x != Fq::ZERO {
                                break x;
                            }
                        }
                    }
                } else {
                    Fq::ZERO - base_diff
                };
                if a != Fq::ZERO {
                    tags.insert(match (lvl == 0, fin, in_s) {
                        (true, _, false) => "first_proof_sum_fixed",
                        (true, _, true) => "first_proof_shifted",
                        (_, true, false) => "final_proof_compensated",
                        (_, true, true) => "final_proof_shifted",
                        (_, _, false) => "intermediate_proof_compensated",
                        (_, _, true) => "intermediate_proof_shifted",
                    });
                    let j = lo + r.below((RL - lo) as u64) as usize;
                    if r.below(4) == 0 {
                        // spread over two points that enter the sum
                        let j2 = lo + r.below((RL - lo) as u64) as usize;
                        let part = rand_nz(&mut r);
                        e[j] += part;
                        e[j2] += a - part;
                        rep.ops.push(json!({"level": lvl, "points": [j, j2], "sum_shift": a.as_u128().to_string()}));
                    } else {
                        e[j] += a;
                        rep.ops.push(json!({"level": lvl, "points": [j], "sum_shift": a.as_u128().to_string()}));
                    }
                }
                // the last deviating proof of a verifier-view chain has to differ from the true one
                let must = !plan.own_view && lvl + 1 == mx && a == Fq::ZERO;
                if must || r.below(5) == 0 {
                    let mut outs: Vec<usize> = (RL..PL).collect();
                    if fin {
                        outs.push(0);
                        outs.push(0); // favour the mask slot
                    }
                    let j = *r.choose(&outs);
                    let x = rand_nz(&mut r);
                    e[j] += x;
                    tags.insert(if j == 0 { "final_mask_slot" } else { "point_outside_sum" });
                    rep.ops.push(json!({"level": lvl, "points": [j], "outside_sum": x.as_u128().to_string()}));
                }
            }
            let mut g = g_true;
            for j in 0..PL {
                g[j] += e[j];
            }
            let (mut fl, mut right, mut left) = ([Fq::ZERO; PL], [Fq::ZERO; PL], [Fq::ZERO; PL]);
            for j in 0..PL {
                let (l, rr) = draw();
                fl[j] = l;
                right[j] = rr;
                left[j] = g[j] - rr;
            }
            let r_i: Fq = hash_to_field(&compute_hash(&left), &compute_hash(&right), RL as u128);
            sent.push(g);
            rs.push(r_i);
            left_shares.push(left);
            from_left.push(fl);
            let row = basis(RL, r_i);
            if fin {
                p_ver = dotv(&row, &vu[0]);
                q_ver = dotv(&row, &vv[0]);
            } else {
                nvals = pu.len();
                for c in [&mut pu, &mut pv, &mut vu, &mut vv] {
                    let vals: Vec<Fq> = c.iter().map(|x| dotv(&row, x)).collect();
                    *c = rechunk(&vals);
                }
            }
        }
        // reference differences (what an exact verifier computes from the proofs as sent)
        let mut d = Vec::with_capacity(k + 2);
        for lvl in 0..=k {
            let lo = usize::from(lvl == k);
            let s = sent[lvl][lo..RL].iter().fold(Fq::ZERO, |s, x| s + *x);
            d.push(s - if lvl == 0 { sum_of_uv } else { interp(&sent[lvl - 1], rs[lvl - 1]) });
        }
        d.push(p_ver * q_ver - interp(&sent[k], rs[k]));
        rep.nonzero = d.iter().enumerate().filter(|(_, x)| **x != Fq::ZERO).map(|(i, _)| i).collect();
        rep.tags = tags.into_iter().collect();
        let mut ls = left_shares.into_iter();
        let mut fl = from_left.into_iter();
        (
            ProofBatch { first_proof: ls.next().unwrap(), proofs: ls.collect() },
            ProofBatch { first_proof: fl.next().unwrap(), proofs: fl.collect() },
            p_mask_from_right,
            q_mask_from_left,
            rep,
        )
    }

    enum ProverKind {
        /// the crate's `ProofBatch::generate`
        HonestCode,
        Crafted { plan: Plan, u_ver: Vec<u8>, v_ver: Vec<u8> },
    }

    /// What one helper does in a crafted-prover run.
    enum Part {
        /// the real `Batch::validate`
        Real(Batch),
        /// the same sequence of calls as `Batch::validate`, on index lists
        Mirror { prover: ProverKind, own: Vec<(u8, u8)>, from_right: Vec<u8>, from_left: Vec<u8> },
    }

    async fn mirror_validate(
        ctx: Base<'_, NotSharded>,
        prover: ProverKind,
        own: Vec<(u8, u8)>,
        from_right: Vec<u8>,
        from_left: Vec<u8>,
    ) -> (Result<(), Error>, Option<CraftReport>) {
        let batch_index = 0usize;
        let proof_ctx = ctx.narrow(&Step::GenerateProof);
        let record_id = RecordId::from(batch_index);
        let prss_start = batch_index * PRSS_PER_BATCH;
        let (mine, from_left_prover, p_mask, q_mask, rep) = match &prover {
            ProverKind::HonestCode => {
                let ids = RecordIdRange::from(RecordId::from(prss_start)..RecordId::from(prss_start + PRSS_PER_BATCH));
                let (a, b, c, d) = ProofBatch::generate(&proof_ctx, ids, ProverTableIndices(own.iter().copied()));
                (a, b, c, d, None)
            }
            ProverKind::Crafted { plan, u_ver, v_ver } => {
                let (a, b, c, d, rep) = craft_proofs(&proof_ctx, prss_start, &own, u_ver, v_ver, plan);
                (a, b, c, d, Some(rep))
            }
        };
        let to_verify = BatchToVerify::generate_batch_to_verify(proof_ctx, record_id, mine, from_left_prover, p_mask, q_mask).await;
        let (ch_left, ch_right) = to_verify.generate_challenges(ctx.narrow(&Step::Challenge), record_id).await;
        let m = own.len();
        let sum_of_uv = fe(m) * Fq::MINUS_ONE_HALF;
        let (p, q) = to_verify.compute_p_and_q_r(
            &ch_left,
            &ch_right,
            VerifierTableIndices { input: from_right.iter().copied(), table: &TABLE_U },
            VerifierTableIndices { input: from_left.iter().copied(), table: &TABLE_V },
        );
        let res = to_verify.verify(ctx.narrow(&Step::VerifyProof), record_id, sum_of_uv, p, q, &ch_left, &ch_right).await;
        (res, rep)
    }

    #[derive(Clone, Debug)]
    struct CraftCase {
        /// true: records are stored in real `Batch`es and the honest helpers run `Batch::validate`
        batch_mode: bool,
        width: usize,
        records: usize,
        deviator: usize,
        /// wrong product bits (record, bit) in what the deviator sent to its left neighbour
        wrong: Vec<(usize, usize)>,
        /// None: the deviator runs the crate's prover
        plan: Option<Plan>,
        seed: u64,
    }
    impl CraftCase {
        fn to_json(&self) -> Value {
            json!({"batch_mode": self.batch_mode, "width": self.width, "records": self.records, "deviator": self.deviator,
                   "wrong_product_bits": self.wrong, "seed": self.seed,
                   "plan": self.plan.as_ref().map(|p| json!({"target": p.target, "own_view": p.own_view, "seed": p.seed}))})
        }
        fn multiplications(&self) -> usize {
            if self.batch_mode {
                let w = if self.width < 256 { self.width.next_power_of_two() } else { self.width };
                (self.records * w).div_ceil(256) * 256
            } else {
                self.records * self.width
            }
        }
    }

    type CraftOut = Vec<Result<(Result<(), String>, Option<CraftReport>), String>>;

    /// number of positions at which the two verifiers' views of a prover are an inconsistent multiplication
    /// (reference: e = ab ^ cd ^ f on the decoded table indices)
    fn inconsistent_positions(u_ver: &[u8], v_ver: &[u8]) -> usize {
        u_ver
            .iter()
            .zip(v_ver)
            .filter(|(u, v)| {
                let (a, c, e) = (**u & 1, (**u >> 1) & 1, (**u >> 2) & 1);
                let (b, d, f) = (**v & 1, (**v >> 1) & 1, (**v >> 2) & 1);
                e != ((a & b) ^ (c & d) ^ f)
            })
            .count()
    }

    fn run_craft_case(case: &CraftCase) -> (Paused<CraftOut>, usize) {
        let mut r = VRng::new(case.seed, 11);
        let mut data: Vec<[Seven; 3]> = (0..case.records).map(|_| model_record(case.width, &mut r)).collect();
        let left_of = (case.deviator + 2) % 3;
        let right_of = (case.deviator + 1) % 3;
        for &(rcd, bit) in &case.wrong {
            let cur = data[rcd][left_of].a[6][bit];
            data[rcd][left_of].a[6].set(bit, !cur);
        }
        // the three views of every helper's multiplications
        let mut batches: Vec<Option<Batch>> = Vec::new();
        let mut own: Vec<Vec<(u8, u8)>> = Vec::new();
        let mut from_right: Vec<Vec<u8>> = Vec::new();
        let mut from_left: Vec<Vec<u8>> = Vec::new();
        for h in 0..3 {
            if case.batch_mode {
                let mut batch = Batch::new(Some(RecordId::from(0usize)), case.records);
                let gate = Gate::default().narrow("crafted-mul");
                for (rcd, d) in data.iter().enumerate() {
                    let s = &d[h];
                    let seg = Segment::from_entries(
                        SegmentEntry::from_bitslice(&s.a[0]),
                        SegmentEntry::from_bitslice(&s.a[1]),
                        SegmentEntry::from_bitslice(&s.a[2]),
                        SegmentEntry::from_bitslice(&s.a[3]),
                        SegmentEntry::from_bitslice(&s.a[4]),
                        SegmentEntry::from_bitslice(&s.a[5]),
                        SegmentEntry::from_bitslice(&s.a[6]),
                    );
                    batch.push(gate.clone(), RecordId::from(rcd), seg);
                }
                own.push(batch.get_field_values_prover().collect());
                from_right.push(batch.get_field_values_from_right_prover().collect());
                from_left.push(batch.get_field_values_from_left_prover().collect());
                batches.push(Some(batch));
            } else {
                let (mut o, mut fr, mut fl) = (Vec::new(), Vec::new(), Vec::new());
                for d in &data {
                    let s = &d[h].a;
                    for i in 0..case.width {
                        let bit = |arr: usize| u8::from(s[arr][i]);
                        let (xl, xr, yl, yr, pl, pr, zr) = (bit(0), bit(1), bit(2), bit(3), bit(4), bit(5), bit(6));
                        let e = (xl & yr) ^ (yl & xr) ^ pr;
                        o.push((xl + 2 * yl + 4 * e, yr + 2 * xr + 4 * pr));
                        fr.push(xr + 2 * yr + 4 * ((xr & yr) ^ pr ^ zr));
                        fl.push(yl + 2 * xl + 4 * pl);
                    }
                }
                own.push(o);
                from_right.push(fr);
                from_left.push(fl);
                batches.push(None);
            }
        }
        let dv = case.deviator;
        let wrong_seen = inconsistent_positions(&from_right[left_of], &from_left[right_of]);
        let mut parts: Vec<Option<Part>> = Vec::new();
        for h in 0..3 {
            let prover = if h == dv {
                match &case.plan {
                    Some(plan) => ProverKind::Crafted { plan: plan.clone(), u_ver: from_right[left_of].clone(), v_ver: from_left[right_of].clone() },
                    None => ProverKind::HonestCode,
                }
            } else {
                ProverKind::HonestCode
            };
            let real = case.batch_mode && !(h == dv && case.plan.is_some());
            parts.push(Some(if real {
                Part::Real(batches[h].take().unwrap())
            } else {
                Part::Mirror { prover, own: own[h].clone(), from_right: from_right[h].clone(), from_left: from_left[h].clone() }
            }));
        }
        let seed = case.seed;
        let out = vlib::run_paused(Duration::from_secs(60), async move {
            let mut cfg = TestWorldConfig::default();
            cfg.seed = seed;
            cfg.timeout = None;
            let world = TestWorld::new_with(&cfg);
            let ctxs = world.malicious_contexts();
            let futs = ctxs.into_iter().zip(parts).map(|(ctx, part)| async move {
                let base = ctx.narrow("c03-crafted").validator_context();
                match part.unwrap() {
                    Part::Real(batch) => catch_fut(batch.validate(base, 0)).await.map(|r| (r.map_err(|e| format!("{e:?}")), None)),
                    Part::Mirror { prover, own, from_right, from_left } => {
                        catch_fut(mirror_validate(base, prover, own, from_right, from_left)).await.map(|(r, rep)| (r.map_err(|e| format!("{e:?}")), rep))
                    }
                }
            });
            join_all(futs).await
        });
        (out, wrong_seen)
    }

    fn judge_craft(rec: &mut Recorder, case: &CraftCase, idx: usize) {
        let (out, wrong_seen) = run_craft_case(case);
        let m = case.multiplications();
        let k = levels(m);
        rec.eval();
        let consistent = case.wrong.is_empty();
        if wrong_seen != case.wrong.len() {
            rec.inconclusive(format!("case {idx}: {} wrong product bits planted, the verifiers' views show {wrong_seen}", case.wrong.len()));
            return;
        }
        let (classes, report): (Vec<String>, Option<CraftReport>) = match &out {
            Paused::Done(res) => (
                res.iter()
                    .map(|r| match r {
                        Ok((Ok(()), _)) => "ok".to_string(),
                        Ok((Err(e), _)) => format!("err:{}", e.split(|c: char| !c.is_alphanumeric()).next().unwrap_or("")),
                        Err(_) => "panic".to_string(),
                    })
                    .collect(),
                res.iter().find_map(|r| r.as_ref().ok().and_then(|x| x.1.clone())),
            ),
            Paused::Quiescent => (vec!["quiescent".to_string()], None),
        };
        let all_ok = classes.len() == 3 && classes.iter().all(|c| c == "ok");
        let shape = format!("{}/m{}/levels{}", if case.batch_mode { "batch" } else { "direct" }, m, k);
        if consistent {
            // controls: honest data; the crate's prover everywhere, or the harness prover without any deviation
            let harness_prover = case.plan.is_some();
            if let Some(rep) = &report {
                if !rep.nonzero.is_empty() {
                    rec.inconclusive(format!("case {idx}: the harness prover's own differences are not zero on honest data: {:?}", rep.nonzero));
                    return;
                }
            }
            if all_ok {
                rec.count(if harness_prover { "control_harness_prover_accepted" } else { "control_honest_accepted" });
                rec.distinct(&("crafted_control", harness_prover, case.batch_mode, m, case.deviator));
                rec.seen("crafted_shapes", shape);
            } else {
                rec.violation(
                    "a consistent batch with a correct proof was rejected",
                    json!({"kind": "crafted_control_rejected", "harness_prover": harness_prover, "batch_mode": case.batch_mode}),
                    json!({"case": idx, "craft_case": case.to_json(), "verdicts": classes}),
                );
            }
            return;
        }
        let Some(plan) = &case.plan else {
            // the crate's prover on an inconsistent batch
            if all_ok {
                rec.violation(
                    "a batch with wrong product bits was accepted by all three helpers",
                    json!({"kind": "wrong_product_accepted", "batch_mode": case.batch_mode}),
                    json!({"case": idx, "craft_case": case.to_json()}),
                );
            } else {
                rec.count("honest_code_on_wrong_product_rejected");
                rec.distinct(&("honest_code", case.batch_mode, m, case.deviator, case.wrong.len()));
            }
            return;
        };
        let Some(rep) = report else {
            rec.inconclusive(format!("case {idx}: the deviating prover did not finish ({classes:?})"));
            return;
        };
        let intended = rep.nonzero == plan.target;
        rec.count(if intended { "crafted_intended_set_produced" } else { "crafted_intended_set_missed" });
        let n = rep.nonzero.len();
        rec.seen("crafted_nonzero_set_sizes", format!("{n}"));
        for t in &rep.tags {
            rec.seen("crafted_strategies", *t);
        }
        rec.seen("crafted_shapes", shape);
        if n == 1 {
            rec.seen("crafted_singletons", format!("levels{}:{}", k, rep.nonzero[0]));
        }
        let strategy = rep.tags.join("+");
        if all_ok {
            let mut labels: Vec<&str> = rep.nonzero.iter().map(|i| diff_label(*i, k)).collect();
            labels.sort_unstable();
            let class = if n <= 2 { json!(labels) } else { json!(format!("{} of them ({})", if n % 2 == 0 { "even number" } else { "odd number" }, if n == k + 2 { "all" } else { "some" })) };
            rec.violation(
                "an inconsistent batch with a crafted proof was accepted by all three helpers",
                json!({"kind": "crafted_proof_accepted", "nonzero_differences": class,
                       "strategy": if plan.own_view { "uv_own_view" } else { "uv_from_verifier_views" }}),
                json!({"case": idx, "craft_case": case.to_json(), "multiplications": m, "compressed_proofs": k,
                       "nonzero_differences": rep.nonzero, "intended": plan.target, "strategy": strategy, "operations": rep.ops}),
            );
        } else {
            rec.count("crafted_proof_rejected");
            rec.distinct(&("crafted", case.batch_mode, m, case.deviator, &plan.target, plan.own_view));
            for (i, c) in classes.iter().enumerate() {
                if c != "ok" && classes.len() == 3 {
                    rec.seen("crafted_rejecting_helper", format!("{}:{}", ["self", "right", "left"][(i + 3 - case.deviator) % 3], c));
                }
            }
        }
    }

    fn craft_replay_case() -> Option<usize> {
        let p = vlib::env().replay?;
        let w: Value = serde_json::from_str(&std::fs::read_to_string(p).ok()?).ok()?;
        w["witness"]["case"].as_u64().map(|v| v as usize)
    }

    /// every non-empty target set that is played for a differences vector of length n: all singletons, all pairs and
    /// `extra` larger sets of both parities (all sets when there are at most 15)
    fn target_sets(n: usize, extra: usize, r: &mut VRng) -> Vec<Vec<usize>> {
        let mut sets: Vec<Vec<usize>> = Vec::new();
        if n <= 4 {
            for mask in 1u32..(1 << n) {
                sets.push((0..n).filter(|i| mask >> i & 1 == 1).collect());
            }
            return sets;
        }
        for i in 0..n {
            sets.push(vec![i]);
        }
        for i in 0..n {
            for j in i + 1..n {
                sets.push(vec![i, j]);
            }
        }
        sets.push((0..n).collect());
        sets.push((0..n - 1).collect());
        sets.push((1..n).collect());
        for e in 0..extra {
            let size = 3 + (e % (n - 3).max(1));
            let mut all: Vec<usize> = (0..n).collect();
            r.shuffle(&mut all);
            let mut s: Vec<usize> = all.into_iter().take(size).collect();
            s.sort_unstable();
            sets.push(s);
        }
        sets
    }

    #[test]
    fn verif_c03_crafted_prover() {
        let env = vlib::env();
        let mut rec = Recorder::new("C03", "verif_c03_crafted_prover");
        if FirstProofGenerator::RECURSION_FACTOR != RL
            || FirstProofGenerator::PROOF_LENGTH != PL
            || CompressedProofGenerator::RECURSION_FACTOR != RL
            || CompressedProofGenerator::PROOF_LENGTH != PL
            || super::super::super::MAX_PROOF_RECURSION != 14
        {
            rec.inconclusive("proof generator parameters differ from the ones the deviating prover is written for");
            rec.finish();
            return;
        }
        let replay = craft_replay_case();
        let take = |idx: usize| replay.map_or(env.mine(idx), |c| c == idx);
        // (batch_mode, width, records): direct sizes need 1, 1, 2, 2, 3, 3, 4, 4, 5 compressed proofs; batches 5, 5, 6, 6, 7(, 7, 8)
        let mut shapes: Vec<(bool, usize, usize)> = vec![
            (false, 1, 1),
            (false, 3, 1),
            (false, 4, 1),
            (false, 5, 3),
            (false, 16, 1),
            (false, 21, 3),
            (false, 64, 1),
            (false, 100, 2),
            (false, 256, 1),
            (true, 256, 1),
            (true, 32, 20),
            (true, 256, 4),
            (true, 8, 160),
            (true, 256, 16),
        ];
        if env.thorough {
            shapes.extend([(false, 2, 1), (false, 15, 1), (false, 63, 1), (false, 255, 1), (false, 257, 1), (true, 512, 1), (true, 64, 64), (true, 256, 32), (true, 256, 64)]);
        }
        let extra = env.pick(4, 12);
        let reps = env.pick(2, 3);
        let mut idx = 0usize;
        for (si, &(batch_mode, width, records)) in shapes.iter().enumerate() {
            let shape_seed = env.seed.wrapping_mul(3001) + si as u64;
            let probe = CraftCase { batch_mode, width, records, deviator: 0, wrong: vec![], plan: None, seed: shape_seed };
            let m = probe.multiplications();
            let n = levels(m) + 2;
            for dv in 0..3usize {
                // controls on honest data
                for harness_prover in [false, true] {
                    idx += 1;
                    if take(idx) {
                        let mut c = probe.clone();
                        c.deviator = dv;
                        c.plan = harness_prover.then(|| Plan { target: vec![], own_view: false, seed: shape_seed ^ idx as u64 });
                        judge_craft(&mut rec, &c, idx);
                    }
                }
                let mut sr = VRng::new(env.seed ^ 0xc03d, (si * 3 + dv) as u64);
                let sets = target_sets(n, extra, &mut sr);
                // the crate's prover on wrong product bits, then every target set
                // every set is played `reps` times with other wrong bits, points and offsets
                let plays = std::iter::once(None).chain(sets.into_iter().flat_map(|t| std::iter::repeat(Some(t)).take(reps)));
                for (ti, target) in plays.enumerate() {
                    idx += 1;
                    let mut r = VRng::new(env.seed ^ 0xc03e, idx as u64);
                    // large shapes are thinned (singletons are always played)
                    let big = m >= 4096;
                    let thin = big && target.as_ref().is_some_and(|t| t.len() > 1) && r.below(env.pick(3, 2)) != 0;
                    if thin || !take(idx) {
                        continue;
                    }
                    let n_wrong = if ti % 3 == 2 { 2 + r.below(4) as usize } else { 1 };
                    let mut wrong: Vec<(usize, usize)> = Vec::new();
                    while wrong.len() < n_wrong.min(records * width) {
                        let w = match r.below(4) {
                            0 => (0, 0),
                            1 => (records - 1, width - 1),
                            _ => (r.below(records as u64) as usize, r.below(width as u64) as usize),
                        };
                        if !wrong.contains(&w) {
                            wrong.push(w);
                        }
                    }
                    wrong.sort_unstable();
                    let plan = target.map(|t| {
                        let own_view = t.last() == Some(&(n - 1)) && r.below(3) == 0;
                        Plan { target: t, own_view, seed: env.seed ^ (idx as u64).wrapping_mul(0x9E37_79B9) }
                    });
                    let c = CraftCase { batch_mode, width, records, deviator: dv, wrong, plan, seed: shape_seed };
                    judge_craft(&mut rec, &c, idx);
                    if rec.want_sample() && ti % 7 == 3 {
                        rec.sample(json!({"crafted_case": c.to_json(), "multiplications": m, "differences": n}));
                    }
                }
            }
        }
        rec.finish();
    }
}
