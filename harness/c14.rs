// placeholder: c14 monitors (not built yet)
