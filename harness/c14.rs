// C14 Send and receive buffers behave as an ordered byte queue under all interleavings.
//
// (A) CircularBuf   : lock-step model test against a reference VecDeque<u8> (exhaustive op sequences + seeded).
// (B) OrderingSender: unique-payload histories with n<=6 writers + closer + reader, judged from an event log;
//                     executors: vlib::Manual (poll-level DFS + seeded), real threads (tokio mt), shuttle (b2).
// (C) UnorderedReceiver: all chunkings x all request orders x timings under vlib::Manual, seeded larger cases.
// (D) small workloads on std threads suitable for Miri (also run natively).
//
// This file is module `crate::helpers::buffers::verif_buffers::c14`.

use std::{
    collections::{HashSet, VecDeque},
    convert::Infallible,
    fmt::Debug,
    future::Future,
    num::NonZeroUsize,
    pin::Pin,
    sync::{Arc as StdArc, Mutex as StdMutex},
    task::{Context, Poll, Waker},
};

use futures::{Stream, future::poll_fn};
use generic_array::{ArrayLength, GenericArray};
use serde_json::{Value, json};
use typenum::{U1, U2, U3, U4, U8};

use super::super::{
    circular::CircularBuf,
    ordering_sender::OrderingSender,
    unordered_receiver::{Error as RecvError, UnorderedReceiver},
};
use crate::{
    ff::Serializable,
    sync::Arc as CArc,
    verif::vlib::{self, Recorder, VRng, catch, hex},
};

// ---------------------------------------------------------------------------------------------
// shared: messages, findings, replay
// ---------------------------------------------------------------------------------------------

/// A fixed-size message whose bytes encode its index.
#[derive(Clone, PartialEq, Eq)]
pub struct Msg<N: ArrayLength>(pub GenericArray<u8, N>);

impl<N: ArrayLength> Debug for Msg<N> {
    fn fmt(&self, f: &mut std::fmt::Formatter<'_>) -> std::fmt::Result {
        write!(f, "Msg({})", hex(&self.0))
    }
}

impl<N: ArrayLength> Serializable for Msg<N> {
    type Size = N;
    type DeserializationError = Infallible;

    fn serialize(&self, buf: &mut GenericArray<u8, Self::Size>) {
        buf.copy_from_slice(&self.0);
    }

    fn deserialize(buf: &GenericArray<u8, Self::Size>) -> Result<Self, Self::DeserializationError> {
        Ok(Msg(buf.clone()))
    }
}

/// Byte `j` of the message with index `i`.
fn pbyte(i: usize, j: usize) -> u8 {
    match j {
        0 => i as u8,
        1 => ((i >> 8) as u8) ^ 0x5a,
        _ => ((i.wrapping_mul(37)) ^ (j.wrapping_mul(101)) ^ 0xc3) as u8,
    }
}

fn payload(i: usize, ws: usize) -> Vec<u8> {
    (0..ws).map(|j| pbyte(i, j)).collect()
}

fn mk_msg<N: ArrayLength>(i: usize) -> Msg<N> {
    let mut a = GenericArray::<u8, N>::default();
    for (j, b) in a.iter_mut().enumerate() {
        *b = pbyte(i, j);
    }
    Msg(a)
}

macro_rules! with_ws {
    ($ws:expr, $N:ident => $body:expr) => {
        match $ws {
            1 => {
                type $N = U1;
                $body
            }
            2 => {
                type $N = U2;
                $body
            }
            3 => {
                type $N = U3;
                $body
            }
            4 => {
                type $N = U4;
                $body
            }
            8 => {
                type $N = U8;
                $body
            }
            other => panic!("harness: unsupported message size {other}"),
        }
    };
}

const SIZES: &[usize] = &[1, 2, 3, 4, 8];

#[derive(Debug, Clone)]
struct Finding {
    what: String,
    sig: Value,
    detail: Value,
}

fn finding(what: &str, sig: Value, detail: Value) -> Finding {
    Finding { what: what.to_string(), sig, detail }
}

fn replay_witness() -> Option<Value> {
    let p = vlib::env().replay?;
    let w: Value = serde_json::from_str(&std::fs::read_to_string(p).ok()?).ok()?;
    Some(w["witness"].clone())
}

fn replay_case() -> Option<usize> {
    replay_witness()?["case"].as_u64().map(|v| v as usize)
}

fn panic_class(msg: &str) -> String {
    let mut s: String = msg.chars().map(|c| if c.is_ascii_digit() { '#' } else { c }).collect();
    while s.contains("##") {
        s = s.replace("##", "#");
    }
    s.truncate(80);
    s
}

// ---------------------------------------------------------------------------------------------
// (A) CircularBuf against a reference queue
// ---------------------------------------------------------------------------------------------

#[derive(Clone, Copy, PartialEq, Eq, Debug, Hash)]
enum Op {
    Write,
    Take,
    Close,
}

impl Op {
    fn ch(self) -> char {
        match self {
            Op::Write => 'W',
            Op::Take => 'T',
            Op::Close => 'C',
        }
    }
    fn from_digit(d: usize) -> Op {
        match d {
            0 => Op::Write,
            1 => Op::Take,
            _ => Op::Close,
        }
    }
}

/// The reference: a plain byte queue with the documented admission rules.
struct RefQ {
    q: VecDeque<u8>,
    cap: usize,
    ws: usize,
    rs: usize,
    closed: bool,
}

impl RefQ {
    fn can_write(&self) -> bool {
        !self.closed && self.cap - self.q.len() >= self.ws
    }
    fn can_read(&self) -> bool {
        if self.closed { !self.q.is_empty() } else { self.q.len() >= self.rs }
    }
    fn take(&mut self) -> Vec<u8> {
        if !self.can_read() {
            return Vec::new();
        }
        let k = self.rs.min(self.q.len());
        self.q.drain(..k).collect()
    }
}

#[derive(Default)]
struct RingStats {
    writes_ok: u64,
    rejected_full: u64,
    rejected_closed: u64,
    takes_nonempty: u64,
    takes_empty: u64,
    takes_short_after_close: u64,
    closes: u64,
    close_rejected: u64,
    wraps: u64,
    full_hits: u64,
    observer_checks: u64,
}

struct Ring {
    buf: CircularBuf,
    r: RefQ,
    wcount: usize,
    written_bytes: usize,
    hist: String,
    stats: RingStats,
}

impl Ring {
    fn new(cap: usize, ws: usize, rs: usize) -> Result<Ring, String> {
        let buf = catch(|| CircularBuf::new(cap, ws, rs))?;
        Ok(Ring {
            buf,
            r: RefQ { q: VecDeque::new(), cap, ws, rs, closed: false },
            wcount: 0,
            written_bytes: 0,
            hist: String::new(),
            stats: RingStats::default(),
        })
    }

    fn cfg(&self) -> Value {
        json!({"capacity": self.r.cap, "write_size": self.r.ws, "read_size": self.r.rs})
    }

    fn fail(&self, what: &str, kind: &str, extra: Value) -> Finding {
        finding(
            what,
            json!({"component": "CircularBuf", "kind": kind}),
            json!({"cfg": self.cfg(), "ops": self.hist, "extra": extra}),
        )
    }

    fn observers(&mut self) -> Result<(), Finding> {
        self.stats.observer_checks += 1;
        let b = &self.buf;
        let got = catch(|| (b.len(), b.can_read(), b.can_write(), b.is_closed(), b.capacity()));
        let want = (self.r.q.len(), self.r.can_read(), self.r.can_write(), self.r.closed, self.r.cap);
        match got {
            Err(p) => Err(self.fail("observer panicked", "observer_panic", json!({"panic": p}))),
            Ok(g) if g != want => {
                let which = if g.0 != want.0 {
                    "len"
                } else if g.1 != want.1 {
                    "can_read"
                } else if g.2 != want.2 {
                    "can_write"
                } else if g.3 != want.3 {
                    "is_closed"
                } else {
                    "capacity"
                };
                Err(self.fail(
                    "observer disagrees with the reference queue",
                    &format!("observer:{which}"),
                    json!({"got(len,can_read,can_write,closed,cap)": format!("{g:?}"), "want": format!("{want:?}")}),
                ))
            }
            Ok(_) => Ok(()),
        }
    }

    /// Apply one operation to both; `Ok(false)` = operation skipped (not meaningful in this build).
    fn step(&mut self, op: Op) -> Result<bool, Finding> {
        let strict = cfg!(debug_assertions);
        match op {
            Op::Write => {
                let allowed = self.r.can_write();
                if !allowed && !strict {
                    return Ok(false);
                }
                self.hist.push('W');
                let data = payload(self.wcount, self.r.ws);
                let buf = &mut self.buf;
                let res = catch(|| buf.next().write(data.as_slice()));
                match (allowed, res) {
                    (true, Ok(())) => {
                        self.r.q.extend(data.iter().copied());
                        self.wcount += 1;
                        let before = self.written_bytes / (2 * self.r.cap);
                        self.written_bytes += self.r.ws;
                        if self.written_bytes / (2 * self.r.cap) != before {
                            self.stats.wraps += 1;
                        }
                        self.stats.writes_ok += 1;
                        if self.r.q.len() == self.r.cap {
                            self.stats.full_hits += 1;
                        }
                    }
                    (true, Err(p)) => {
                        return Err(self.fail(
                            "write rejected although the reference queue has room",
                            "write_rejected",
                            json!({"panic": p}),
                        ));
                    }
                    (false, Ok(())) => {
                        let kind = if self.r.closed { "write_admitted_closed" } else { "write_admitted_full" };
                        return Err(self.fail(
                            "write admitted although the buffer is full/closed",
                            kind,
                            json!({"ref_len": self.r.q.len()}),
                        ));
                    }
                    (false, Err(_)) => {
                        if self.r.closed {
                            self.stats.rejected_closed += 1;
                        } else {
                            self.stats.rejected_full += 1;
                        }
                    }
                }
            }
            Op::Take => {
                self.hist.push('T');
                let was_closed = self.r.closed;
                let want = self.r.take();
                let buf = &mut self.buf;
                match catch(|| buf.take()) {
                    Err(p) => return Err(self.fail("take panicked", "take_panic", json!({"panic": p}))),
                    Ok(got) if got != want => {
                        let kind = if got.len() != want.len() { "take_len" } else { "take_bytes" };
                        return Err(self.fail(
                            "take returned different bytes than the reference queue",
                            kind,
                            json!({"got": hex(&got), "want": hex(&want)}),
                        ));
                    }
                    Ok(got) => {
                        if got.is_empty() {
                            self.stats.takes_empty += 1;
                        } else {
                            self.stats.takes_nonempty += 1;
                            if was_closed && got.len() < self.r.rs {
                                self.stats.takes_short_after_close += 1;
                            }
                        }
                    }
                }
            }
            Op::Close => {
                let allowed = !self.r.closed;
                if !allowed && !strict {
                    return Ok(false);
                }
                self.hist.push('C');
                let buf = &mut self.buf;
                let res = catch(|| buf.close());
                match (allowed, res) {
                    (true, Ok(())) => {
                        self.r.closed = true;
                        self.stats.closes += 1;
                    }
                    (true, Err(p)) => return Err(self.fail("close panicked", "close_panic", json!({"panic": p}))),
                    (false, Ok(())) => {
                        return Err(self.fail("second close accepted silently", "double_close", json!({})));
                    }
                    (false, Err(_)) => self.stats.close_rejected += 1,
                }
            }
        }
        self.observers()?;
        Ok(true)
    }

    /// Move both cursors by `k` read-size blocks (write a block, take it).
    fn advance(&mut self, k: usize) -> Result<(), Finding> {
        for _ in 0..k {
            for _ in 0..(self.r.rs / self.r.ws) {
                self.step(Op::Write)?;
            }
            self.step(Op::Take)?;
        }
        self.hist.push('|');
        Ok(())
    }
}

fn flush_ring_stats(rec: &mut Recorder, s: &RingStats) {
    rec.add("ring_writes_ok", s.writes_ok);
    rec.add("ring_write_rejected_full", s.rejected_full);
    rec.add("ring_write_rejected_closed", s.rejected_closed);
    rec.add("ring_takes_nonempty", s.takes_nonempty);
    rec.add("ring_takes_empty", s.takes_empty);
    rec.add("ring_takes_short_after_close", s.takes_short_after_close);
    rec.add("ring_closes", s.closes);
    rec.add("ring_close_rejected", s.close_rejected);
    rec.add("ring_cursor_wraps", s.wraps);
    rec.add("ring_full_hits", s.full_hits);
    rec.add("ring_observer_checks", s.observer_checks);
}

fn report(rec: &mut Recorder, f: Finding, case: usize, mut extra: Value) {
    if let Some(o) = extra.as_object_mut() {
        o.insert("case".into(), json!(case));
        o.insert("detail".into(), f.detail.clone());
    }
    rec.violation(&f.what, f.sig, extra);
}

#[test]
fn verif_c14_ring_exhaustive() {
    let env = vlib::env();
    let mut rec = Recorder::new("C14", "verif_c14_ring_exhaustive");
    let depth: usize = env.pick(8, 9);
    let only = replay_case();
    let tail = 3usize.pow((depth - 2) as u32);
    let mut case = 0usize;
    let mut stats = RingStats::default();

    // constructor contract (debug builds): zero sizes / non-dividing sizes are rejected loudly
    if env.shard == 0 && only.is_none() && cfg!(debug_assertions) {
        for (c, w, r, ok) in [
            (0, 0, 0, false),
            (2, 0, 0, false),
            (2, 2, 0, false),
            (3, 2, 2, false),
            (6, 2, 3, false),
            (6, 3, 2, false),
            (6, 2, 4, true),
            (5, 1, 5, true),
        ] {
            rec.eval();
            let got = catch(|| CircularBuf::new(c, w, r)).is_ok();
            if got != ok {
                rec.violation(
                    "constructor accepted/rejected parameters against its contract",
                    json!({"component": "CircularBuf", "kind": "ctor", "accepted": got}),
                    json!({"case": 0, "capacity": c, "write_size": w, "read_size": r}),
                );
            } else {
                rec.count("ring_ctor_checks");
            }
        }
    }

    'outer: for ws in [1usize, 2, 3] {
        for cap_units in 1usize..=5 {
            for rs_units in 1..=cap_units {
                let (cap, rs) = (cap_units * ws, rs_units * ws);
                // every distinct cursor origin reachable with whole read blocks
                let mut origins: Vec<usize> = Vec::new();
                let mut seen = HashSet::new();
                for k in 0..(2 * cap_units) {
                    if seen.insert((k * rs) % (2 * cap)) {
                        origins.push(k);
                    }
                }
                for &origin in &origins {
                    for p in 0..9usize {
                        let idx = case;
                        case += 1;
                        if !env.mine(idx) || only.is_some_and(|c| c != idx) {
                            continue;
                        }
                        rec.seen("ring_triples", format!("{cap}/{ws}/{rs}"));
                        for t in 0..tail {
                            let mut ops = vec![Op::from_digit(p / 3), Op::from_digit(p % 3)];
                            let mut x = t;
                            for _ in 0..(depth - 2) {
                                ops.push(Op::from_digit(x % 3));
                                x /= 3;
                            }
                            rec.eval();
                            let mut ring = match Ring::new(cap, ws, rs) {
                                Ok(r) => r,
                                Err(p) => {
                                    rec.violation(
                                        "constructor panicked on valid parameters",
                                        json!({"component": "CircularBuf", "kind": "ctor_panic"}),
                                        json!({"case": idx, "capacity": cap, "write_size": ws, "read_size": rs, "panic": p}),
                                    );
                                    continue;
                                }
                            };
                            let mut res = ring.advance(origin);
                            if res.is_ok() {
                                for &op in &ops {
                                    if let Err(f) = ring.step(op) {
                                        res = Err(f);
                                        break;
                                    }
                                }
                            }
                            let s = &ring.stats;
                            if s.writes_ok > (origin * rs_units) as u64 && s.takes_nonempty > origin as u64 {
                                rec.distinct(&(cap, ws, rs, origin, p, t));
                                if rec.want_sample() {
                                    rec.sample(serde_json::json!({"ring_case": {"capacity": cap, "write_size": ws, "read_size": rs, "cursor_origin": origin}}));
                                }
                            }
                            merge_ring(&mut stats, &ring.stats);
                            if let Err(f) = res {
                                let seq: String = ops.iter().map(|o| o.ch()).collect();
                                report(&mut rec, f, idx, json!({"origin_blocks": origin, "sequence": seq}));
                                if rec.n_violations() >= 20 {
                                    break 'outer;
                                }
                            } else if rec.want_sample() && t == tail / 2 && p == 1 {
                                rec.sample(json!({"cfg": ring.cfg(), "origin_blocks": origin, "ops": ring.hist}));
                            }
                        }
                    }
                }
            }
        }
    }
    flush_ring_stats(&mut rec, &stats);
    rec.finish();
}

fn merge_ring(a: &mut RingStats, b: &RingStats) {
    a.writes_ok += b.writes_ok;
    a.rejected_full += b.rejected_full;
    a.rejected_closed += b.rejected_closed;
    a.takes_nonempty += b.takes_nonempty;
    a.takes_empty += b.takes_empty;
    a.takes_short_after_close += b.takes_short_after_close;
    a.closes += b.closes;
    a.close_rejected += b.close_rejected;
    a.wraps += b.wraps;
    a.full_hits += b.full_hits;
    a.observer_checks += b.observer_checks;
}

#[test]
fn verif_c14_ring_seeded() {
    let env = vlib::env();
    let mut rec = Recorder::new("C14", "verif_c14_ring_seeded");
    let cases: usize = env.pick(4000, 40000);
    let only = replay_case();
    let mut stats = RingStats::default();
    for idx in 0..cases {
        if !env.mine(idx) || only.is_some_and(|c| c != idx) {
            continue;
        }
        let mut r = VRng::new(env.seed ^ 0xC14A, idx as u64);
        let ws = *r.choose(&[1usize, 2, 3, 4, 5, 7, 8, 16]);
        let cap_units = r.range(1, 24) as usize;
        let rs_units = r.range(1, cap_units as u64) as usize;
        let (cap, rs) = (cap_units * ws, rs_units * ws);
        let n_ops = r.range(40, 800) as usize;
        let close_at = if r.below(4) == 0 { usize::MAX } else { r.range(10, n_ops as u64) as usize };
        rec.eval();
        let mut ring = match Ring::new(cap, ws, rs) {
            Ok(x) => x,
            Err(p) => {
                rec.violation(
                    "constructor panicked on valid parameters",
                    json!({"component": "CircularBuf", "kind": "ctor_panic"}),
                    json!({"case": idx, "capacity": cap, "write_size": ws, "read_size": rs, "panic": p}),
                );
                continue;
            }
        };
        // the write bias drifts so that the queue hovers near full, then near empty
        let mut bias = r.range(20, 80);
        let mut res = Ok(true);
        for k in 0..n_ops {
            if k % 37 == 0 {
                bias = r.range(15, 85);
            }
            let op = if k == close_at {
                Op::Close
            } else if r.below(100) < bias {
                Op::Write
            } else if r.below(60) == 0 {
                Op::Close
            } else {
                Op::Take
            };
            res = ring.step(op);
            if res.is_err() {
                break;
            }
        }
        if res.is_ok() {
            // drain: after close everything written must come out
            if !ring.r.closed {
                res = ring.step(Op::Close);
            }
            let mut guard = 0;
            while res.is_ok() && !ring.r.q.is_empty() && guard < 10_000 {
                res = ring.step(Op::Take);
                guard += 1;
            }
        }
        merge_ring(&mut stats, &ring.stats);
        match res {
            Err(f) => report(&mut rec, f, idx, json!({})),
            Ok(_) => {
                if ring.stats.wraps > 0 && ring.stats.full_hits > 0 {
                    rec.distinct(&(cap, ws, rs, fxh(&ring.hist)));
                }
                if rec.want_sample() {
                    let mut h = ring.hist.clone();
                    h.truncate(120);
                    rec.sample(json!({"cfg": ring.cfg(), "ops_prefix": h, "n_ops": ring.hist.len()}));
                }
            }
        }
    }
    flush_ring_stats(&mut rec, &stats);
    rec.finish();
}

fn fxh<T: std::hash::Hash>(t: &T) -> u64 {
    vlib::fxhash(t)
}

// ---------------------------------------------------------------------------------------------
// (B) OrderingSender: histories, event log, oracle
// ---------------------------------------------------------------------------------------------

#[derive(Clone, Debug, PartialEq, Eq, Hash)]
enum Ev {
    /// writer polled `send(i)`
    WPoll(usize),
    /// that poll returned Pending (blocked on order or on a full buffer)
    WPend(usize),
    /// `send(i)` completed
    WDone(usize),
    CPoll,
    CDone,
    /// reader polls `take_next`
    RPoll,
    RPend,
    Chunk(Vec<u8>),
    End,
}

#[derive(Clone, Default)]
struct Log(StdArc<StdMutex<Vec<Ev>>>);

impl Log {
    fn push(&self, e: Ev) {
        let mut v = self.0.lock().unwrap_or_else(|e| e.into_inner());
        // hard bound on harness memory, whatever the code under test does
        if v.len() < 200_000 {
            v.push(e);
        }
    }
    fn snapshot(&self) -> Vec<Ev> {
        self.0.lock().unwrap_or_else(|e| e.into_inner()).clone()
    }
}

#[derive(Clone, Copy, Debug, PartialEq, Eq, Hash)]
enum TaskKind {
    Writer(usize),
    Closer,
    Reader,
}

/// One history: who writes which indices, buffer geometry, spawn order.
#[derive(Clone, Debug, Hash)]
struct SCase {
    ws: usize,
    cap_units: usize,
    rs_units: usize,
    /// number of messages (the closer closes at index `n`)
    n: usize,
    /// indices sent by each writer, in the order the writer issues them
    writers: Vec<Vec<usize>>,
    /// writer polls all its sends concurrently (join_all) instead of one after the other
    joined: bool,
    spawn_order: Vec<TaskKind>,
}

impl SCase {
    fn cap(&self) -> usize {
        self.cap_units * self.ws
    }
    fn rs(&self) -> usize {
        self.rs_units * self.ws
    }
    fn expected(&self) -> Vec<u8> {
        (0..self.n).flat_map(|i| payload(i, self.ws)).collect()
    }
    fn json(&self) -> Value {
        json!({"write_size": self.ws, "capacity": self.cap(), "read_size": self.rs(), "messages": self.n,
               "writers": self.writers, "joined": self.joined,
               "spawn_order": self.spawn_order.iter().map(|t| format!("{t:?}")).collect::<Vec<_>>()})
    }
    fn shape(&self) -> String {
        format!("w{}n{}c{}r{}s{}{}", self.writers.len(), self.n, self.cap_units, self.rs_units, self.ws,
                if self.joined { "j" } else { "s" })
    }
    fn new_sender(&self) -> OrderingSender {
        OrderingSender::new(
            NonZeroUsize::new(self.cap()).unwrap(),
            NonZeroUsize::new(self.ws).unwrap(),
            NonZeroUsize::new(self.rs()).unwrap(),
        )
    }
}

fn gen_scase(r: &mut VRng, max_writers: usize, max_msgs: usize, max_cap_units: usize, sizes: &[usize]) -> SCase {
    let ws = *r.choose(sizes);
    let cap_units = r.range(1, max_cap_units as u64) as usize;
    let rs_units = r.range(1, cap_units as u64) as usize;
    let nw = r.range(1, max_writers as u64) as usize;
    let n = r.range(nw as u64, max_msgs.max(nw) as u64) as usize;
    let mut owner: Vec<usize> = (0..n).map(|_| r.below(nw as u64) as usize).collect();
    // every writer owns at least one index
    let mut idx: Vec<usize> = (0..n).collect();
    r.shuffle(&mut idx);
    for w in 0..nw {
        owner[idx[w]] = w;
    }
    let joined = r.bool();
    let mut writers: Vec<Vec<usize>> = vec![Vec::new(); nw];
    for (i, w) in owner.iter().enumerate() {
        writers[*w].push(i);
    }
    if joined {
        for w in &mut writers {
            r.shuffle(w);
        }
    }
    let mut spawn_order: Vec<TaskKind> = (0..nw).map(TaskKind::Writer).collect();
    spawn_order.push(TaskKind::Closer);
    spawn_order.push(TaskKind::Reader);
    r.shuffle(&mut spawn_order);
    SCase { ws, cap_units, rs_units, n, writers, joined, spawn_order }
}

fn logged_send<'a, N: ArrayLength>(
    sender: &'a OrderingSender,
    i: usize,
    log: &'a Log,
) -> impl Future<Output = ()> + Send + 'a {
    let mut fut = Box::pin(sender.send::<Msg<N>, Msg<N>>(i, mk_msg::<N>(i)));
    poll_fn(move |cx| {
        log.push(Ev::WPoll(i));
        match fut.as_mut().poll(cx) {
            Poll::Ready(()) => {
                log.push(Ev::WDone(i));
                Poll::Ready(())
            }
            Poll::Pending => {
                log.push(Ev::WPend(i));
                Poll::Pending
            }
        }
    })
}

async fn writer_task<N: ArrayLength>(sender: CArc<OrderingSender>, idxs: Vec<usize>, joined: bool, log: Log) {
    if joined {
        let futs: Vec<_> = idxs.iter().map(|&i| logged_send::<N>(&sender, i, &log)).collect();
        futures::future::join_all(futs).await;
    } else {
        for i in idxs {
            logged_send::<N>(&sender, i, &log).await;
        }
    }
}

async fn closer_task(sender: CArc<OrderingSender>, n: usize, log: Log) {
    let mut fut = Box::pin(sender.close(n));
    poll_fn(|cx| {
        log.push(Ev::CPoll);
        match fut.as_mut().poll(cx) {
            Poll::Ready(()) => {
                log.push(Ev::CDone);
                Poll::Ready(())
            }
            Poll::Pending => Poll::Pending,
        }
    })
    .await;
}

/// The reader keeps draining until the stream ends. `take_next` is exactly what
/// `OrderedStream::poll_next` (and the production `SendingEnd` stream) delegate to.
async fn reader_task(sender: CArc<OrderingSender>, log: Log, max_chunks: usize) {
    // every legitimate chunk carries at least one message, so more than `max_chunks` chunks means the buffer
    // yields data it does not have; stop (the log already holds the evidence) instead of looping forever
    for _ in 0..=max_chunks {
        let r = poll_fn(|cx| {
            log.push(Ev::RPoll);
            let r = sender.take_next(cx);
            match &r {
                Poll::Ready(Some(v)) => log.push(Ev::Chunk(v.clone())),
                Poll::Ready(None) => log.push(Ev::End),
                Poll::Pending => log.push(Ev::RPend),
            }
            r
        })
        .await;
        if r.is_none() {
            break;
        }
    }
}

fn trace_hash(evs: &[Ev]) -> u64 {
    let t: Vec<(u8, usize)> = evs
        .iter()
        .map(|e| match e {
            Ev::WPoll(i) => (0, *i),
            Ev::WPend(i) => (1, *i),
            Ev::WDone(i) => (2, *i),
            Ev::CPoll => (3, 0),
            Ev::CDone => (4, 0),
            Ev::RPoll => (5, 0),
            Ev::RPend => (6, 0),
            Ev::Chunk(v) => (7, v.len()),
            Ev::End => (8, 0),
        })
        .collect();
    fxh(&t)
}

fn trace_text(evs: &[Ev]) -> String {
    let mut s = String::new();
    for e in evs.iter().take(400) {
        match e {
            Ev::WPoll(i) => s.push_str(&format!("w{i} ")),
            Ev::WPend(i) => s.push_str(&format!("w{i}:pend ")),
            Ev::WDone(i) => s.push_str(&format!("w{i}:DONE ")),
            Ev::CPoll => s.push_str("c "),
            Ev::CDone => s.push_str("c:DONE "),
            Ev::RPoll => s.push_str("r "),
            Ev::RPend => s.push_str("r:pend "),
            Ev::Chunk(v) => s.push_str(&format!("r:chunk[{}] ", v.len())),
            Ev::End => s.push_str("r:END "),
        }
    }
    s
}

#[derive(Default, Clone)]
struct SStats {
    blocked_polls: u64,
    reader_pending: u64,
    chunks: u64,
    short_final_chunks: u64,
    full_at_write: u64,
    max_buffered: usize,
}

/// Judge one history from its event log. `finished` = every task ran to completion.
/// All checks are sound for logs appended *after* the operation returned (real threads / shuttle):
///  * prefix/equality of the yielded bytes with the concatenation by index;
///  * chunk k has read_size bytes unless it is the final remainder, which must come after the closer started;
///  * occupancy: when write i has returned, (i+1)*ws minus every byte that may already have been taken
///    (chunks logged so far plus the chunk of a take in flight) never exceeds the capacity.
fn judge(case: &SCase, evs: &[Ev], finished: bool, st: &mut SStats) -> Option<Finding> {
    let sig = |kind: &str| json!({"component": "OrderingSender", "kind": kind});
    let expected = case.expected();
    let (rs, ws, cap) = (case.rs(), case.ws, case.cap());
    let total = expected.len();
    let full_chunks = total / rs;
    let rem = total % rs;

    let mut got: Vec<u8> = Vec::new();
    let mut k = 0usize;
    let mut closer_started = false;
    let mut ended = false;
    // resolve the outcome of every reader poll (the next reader event after an RPoll)
    let mut inflight_len: Vec<usize> = vec![0; evs.len()];
    {
        let mut last_rpoll: Option<usize> = None;
        for (p, e) in evs.iter().enumerate() {
            match e {
                Ev::RPoll => last_rpoll = Some(p),
                Ev::Chunk(v) => {
                    if let Some(q) = last_rpoll.take() {
                        inflight_len[q] = v.len();
                    }
                }
                Ev::RPend | Ev::End => {
                    last_rpoll = None;
                }
                _ => {}
            }
        }
    }
    let mut logged_bytes = 0usize;
    let mut inflight = 0usize;
    for (p, e) in evs.iter().enumerate() {
        match e {
            Ev::CPoll => closer_started = true,
            Ev::WPend(_) => st.blocked_polls += 1,
            Ev::RPoll => inflight = inflight_len[p],
            Ev::RPend => {
                inflight = 0;
                st.reader_pending += 1;
            }
            Ev::End => {
                inflight = 0;
                ended = true;
            }
            Ev::Chunk(v) => {
                inflight = 0;
                st.chunks += 1;
                if ended {
                    return Some(finding("a chunk was yielded after the end of the stream", sig("chunk_after_end"), json!({"chunk": k})));
                }
                let want_len = if k < full_chunks { rs } else if k == full_chunks { rem } else { 0 };
                if v.len() != want_len || want_len == 0 {
                    let kind = if v.len() < want_len || (k < full_chunks && v.len() < rs) {
                        "short_chunk"
                    } else {
                        "chunk_size"
                    };
                    return Some(finding(
                        "chunk size differs from read size (before close) / remainder (after close)",
                        sig(kind),
                        json!({"chunk": k, "len": v.len(), "want": want_len}),
                    ));
                }
                if v.len() < rs {
                    st.short_final_chunks += 1;
                    if !closer_started {
                        return Some(finding(
                            "a partial chunk was yielded before close was even attempted",
                            sig("partial_before_close"),
                            json!({"chunk": k, "len": v.len()}),
                        ));
                    }
                }
                got.extend_from_slice(v);
                logged_bytes += v.len();
                if got.len() > total || got[..] != expected[..got.len()] {
                    let at = got.iter().zip(expected.iter()).position(|(a, b)| a != b).unwrap_or(total);
                    return Some(finding(
                        "stream bytes differ from the concatenation of messages by index",
                        sig("bytes"),
                        json!({"chunk": k, "first_diff_at": at, "got": hex(&got), "want": hex(&expected)}),
                    ));
                }
                k += 1;
            }
            Ev::WDone(i) => {
                let written = (i + 1) * ws;
                let maybe_taken = logged_bytes + inflight;
                let buffered_at_least = written.saturating_sub(maybe_taken);
                st.max_buffered = st.max_buffered.max(buffered_at_least);
                if buffered_at_least == cap {
                    st.full_at_write += 1;
                }
                if buffered_at_least > cap {
                    return Some(finding(
                        "a writer was admitted although the buffer was full",
                        sig("admitted_when_full"),
                        json!({"index": i, "written": written, "taken_at_most": maybe_taken, "capacity": cap}),
                    ));
                }
            }
            Ev::WPoll(_) | Ev::CDone => {}
        }
    }
    if finished {
        if got.len() != total {
            return Some(finding(
                "stream ended without all bytes",
                sig("truncated"),
                json!({"got": got.len(), "want": total}),
            ));
        }
        if !ended {
            return Some(finding("reader finished without seeing the end of the stream", sig("no_end"), json!({})));
        }
    }
    None
}

fn stall_finding(case: &SCase, evs: &[Ev], executor: &str) -> Finding {
    let done: Vec<usize> = evs.iter().filter_map(|e| if let Ev::WDone(i) = e { Some(*i) } else { None }).collect();
    let closed = evs.iter().any(|e| *e == Ev::CDone);
    let taken: usize = evs.iter().map(|e| if let Ev::Chunk(v) = e { v.len() } else { 0 }).sum();
    let stuck = (0..case.n).find(|i| !done.contains(i));
    let buffered = done.len() * case.ws - taken.min(done.len() * case.ws);
    let kind = match stuck {
        Some(_) if buffered + case.ws > case.cap() => "stall:writer_blocked_on_full_buffer",
        Some(_) => "stall:writer_never_woken",
        None if !closed => "stall:closer_never_woken",
        None => "stall:reader_never_woken",
    };
    finding(
        "quiescent without completion although the reader keeps draining (lost wake-up)",
        json!({"component": "OrderingSender", "kind": kind, "executor": executor}),
        json!({"first_incomplete_write": stuck, "writes_done": done.len(), "closed": closed, "bytes_taken": taken}),
    )
}

fn flush_sstats(rec: &mut Recorder, st: &SStats) {
    rec.add("sender_blocked_writer_polls", st.blocked_polls);
    rec.add("sender_reader_pending_polls", st.reader_pending);
    rec.add("sender_chunks", st.chunks);
    rec.add("sender_short_final_chunks", st.short_final_chunks);
    rec.add("sender_writes_filling_buffer", st.full_at_write);
}

// ---- executors for (B) that exist only without shuttle (crate::sync is std there) --------------

#[cfg(not(feature = "shuttle"))]
mod native {
    use std::time::Duration;

    use futures::{StreamExt, stream::FuturesUnordered};

    use super::*;
    use crate::verif::vlib::{Manual, catch_fut};

    pub(super) struct ManualRun {
        pub evs: Vec<Ev>,
        pub finished: bool,
        pub panics: Vec<String>,
        pub picks: Vec<usize>,
        pub polls: u64,
    }

    /// Run one history on the deterministic poll scheduler. `picker` chooses among woken tasks;
    /// `spurious` (seeded) additionally re-polls tasks that were not woken (legal for any future).
    pub(super) fn manual_world(
        case: &SCase,
        picker: &mut dyn FnMut(&[usize]) -> usize,
        mut spurious: Option<&mut VRng>,
    ) -> ManualRun {
        with_ws!(case.ws, N => {
            let sender = CArc::new(case.new_sender());
            let log = Log::default();
            let mut m: Manual<'static, Result<(), String>> = Manual::new();
            for t in &case.spawn_order {
                match *t {
                    TaskKind::Writer(w) => {
                        m.spawn(catch_fut(writer_task::<N>(CArc::clone(&sender), case.writers[w].clone(), case.joined, log.clone())));
                    }
                    TaskKind::Closer => {
                        m.spawn(catch_fut(closer_task(CArc::clone(&sender), case.n, log.clone())));
                    }
                    TaskKind::Reader => {
                        m.spawn(catch_fut(reader_task(CArc::clone(&sender), log.clone(), case.n + 2)));
                    }
                }
            }
            let n_tasks = case.spawn_order.len();
            let mut picks = Vec::new();
            let mut finished = false;
            for _ in 0..20_000 {
                if m.all_done() {
                    finished = true;
                    break;
                }
                if let Some(r) = spurious.as_deref_mut() {
                    if r.below(8) == 0 {
                        let id = r.below(n_tasks as u64) as usize;
                        if !m.is_done(id) {
                            picks.push(1000 + id);
                            m.poll_task(id);
                            continue;
                        }
                    }
                }
                let mut p = |ready: &[usize]| {
                    let c = picker(ready).min(ready.len() - 1);
                    picks.push(c);
                    c
                };
                if !m.step(&mut p) {
                    break;
                }
            }
            let polls = m.polls;
            let panics: Vec<String> = m
                .take_results()
                .into_iter()
                .filter_map(|r| match r {
                    Some(Err(p)) => Some(p),
                    _ => None,
                })
                .collect();
            ManualRun { evs: log.snapshot(), finished, panics, picks, polls }
        })
    }

    /// Verdict of one Manual run: panic in the buffer code, oracle finding, or stall.
    pub(super) fn manual_verdict(case: &SCase, run: &ManualRun, st: &mut SStats) -> Option<Finding> {
        if let Some(p) = run.panics.first() {
            return Some(finding(
                "panic inside the send buffer",
                json!({"component": "OrderingSender", "kind": "panic", "panic": panic_class(p)}),
                json!({"panic": p}),
            ));
        }
        if let Some(f) = judge(case, &run.evs, run.finished, st) {
            return Some(f);
        }
        if !run.finished {
            return Some(stall_finding(case, &run.evs, "manual"));
        }
        None
    }

    /// Stateless depth-first enumeration of all pick sequences. Returns (runs, exhausted).
    pub(super) fn dfs_choices(max_runs: usize, mut run: impl FnMut(&mut dyn FnMut(&[usize]) -> usize) -> bool) -> (usize, bool) {
        let mut path: Vec<(usize, usize)> = Vec::new();
        let mut runs = 0;
        loop {
            let mut step = 0usize;
            let mut cur = std::mem::take(&mut path);
            let keep_going = {
                let mut picker = |ready: &[usize]| {
                    if step >= cur.len() {
                        cur.push((0, ready.len()));
                    }
                    cur[step].1 = ready.len();
                    let c = cur[step].0.min(ready.len() - 1);
                    step += 1;
                    c
                };
                run(&mut picker)
            };
            runs += 1;
            cur.truncate(step);
            while let Some(&(c, w)) = cur.last() {
                if c + 1 < w {
                    break;
                }
                cur.pop();
            }
            if cur.is_empty() {
                return (runs, true);
            }
            cur.last_mut().unwrap().0 += 1;
            path = cur;
            if runs >= max_runs || !keep_going {
                return (runs, false);
            }
        }
    }

    fn small_cases(thorough: bool) -> Vec<SCase> {
        // 2-3 writers, capacities of 1-2 messages: "full" and "wrong turn" are hit constantly
        let mut v = Vec::new();
        let mut shapes = vec![(2usize, 2usize), (2, 3), (3, 3), (2, 4), (3, 4)];
        if thorough {
            shapes.extend([(3, 5), (4, 4), (4, 5), (2, 6)]);
        }
        for (nw, n) in shapes {
            for cap_units in 1..=2usize {
                for rs_units in 1..=cap_units {
                    for ws in [1usize, 2] {
                        for variant in 0..3usize {
                            let mut writers: Vec<Vec<usize>> = vec![Vec::new(); nw];
                            for i in 0..n {
                                // variant 0: round robin; 1: reversed round robin; 2: blocks
                                let w = match variant {
                                    0 => i % nw,
                                    1 => (n - 1 - i) % nw,
                                    _ => (i * nw) / n,
                                };
                                writers[w].push(i);
                            }
                            if writers.iter().any(Vec::is_empty) {
                                continue;
                            }
                            let joined = variant == 1;
                            if joined {
                                for w in &mut writers {
                                    w.reverse();
                                }
                            }
                            let mut spawn_order: Vec<TaskKind> = (0..nw).rev().map(TaskKind::Writer).collect();
                            match variant {
                                0 => {
                                    spawn_order.push(TaskKind::Closer);
                                    spawn_order.push(TaskKind::Reader);
                                }
                                1 => {
                                    spawn_order.insert(0, TaskKind::Reader);
                                    spawn_order.insert(0, TaskKind::Closer);
                                }
                                _ => {
                                    spawn_order.insert(1, TaskKind::Reader);
                                    spawn_order.push(TaskKind::Closer);
                                }
                            }
                            v.push(SCase { ws, cap_units, rs_units, n, writers, joined, spawn_order });
                        }
                    }
                }
            }
        }
        v
    }

    #[test]
    fn verif_c14_sender_manual_dfs() {
        let env = vlib::env();
        let mut rec = Recorder::new("C14", "verif_c14_sender_manual_dfs");
        let only = replay_case();
        let max_runs: usize = env.pick(4000, 60000);
        let mut st = SStats::default();
        for (idx, case) in small_cases(env.thorough).into_iter().enumerate() {
            if !env.mine(idx) || only.is_some_and(|c| c != idx) {
                continue;
            }
            rec.seen("sender_shapes", case.shape());
            let mut found: Option<(Finding, ManualRun)> = None;
            let mut traces: Vec<u64> = Vec::new();
            let (runs, exhausted) = dfs_choices(max_runs, |picker| {
                let run = manual_world(&case, picker, None);
                let mut s = SStats::default();
                let v = manual_verdict(&case, &run, &mut s);
                st.blocked_polls += s.blocked_polls;
                st.reader_pending += s.reader_pending;
                st.chunks += s.chunks;
                st.short_final_chunks += s.short_final_chunks;
                st.full_at_write += s.full_at_write;
                if s.blocked_polls > 0 {
                    traces.push(trace_hash(&run.evs));
                }
                match v {
                    Some(f) => {
                        found = Some((f, run));
                        false
                    }
                    None => true,
                }
            });
            rec.evals(runs as u64);
            rec.add("sender_manual_dfs_runs", runs as u64);
            if exhausted {
                rec.count("sender_manual_dfs_exhausted_cases");
            }
            for t in &traces {
                rec.distinct(&(idx, *t));
                if rec.want_sample() {
                    rec.sample(serde_json::json!({"sender_manual_case_index": idx}));
                }
            }
            if let Some((f, run)) = found {
                report(&mut rec, f, idx, json!({"history": case.json(), "executor": "manual-dfs", "picks": run.picks, "trace": trace_text(&run.evs)}));
            } else if rec.want_sample() {
                rec.sample(json!({"history": case.json(), "dfs_runs": runs, "exhausted": exhausted, "distinct_traces": traces.iter().collect::<HashSet<_>>().len()}));
            }
        }
        flush_sstats(&mut rec, &st);
        rec.finish();
    }

    #[test]
    fn verif_c14_sender_manual_seeded() {
        let env = vlib::env();
        let mut rec = Recorder::new("C14", "verif_c14_sender_manual_seeded");
        let only = replay_case();
        let cases: usize = env.pick(40000, 600000);
        let mut st = SStats::default();
        for idx in 0..cases {
            if !env.mine(idx) || only.is_some_and(|c| c != idx) {
                continue;
            }
            let mut r = VRng::new(env.seed ^ 0xC14B, idx as u64);
            let case = gen_scase(&mut r, 6, 14, 4, SIZES);
            let policy = r.below(4);
            let mut pr = VRng::new(env.seed ^ 0xC14C, idx as u64);
            let mut picker = |ready: &[usize]| match policy {
                0 => 0,
                1 => ready.len() - 1,
                _ => pr.below(ready.len() as u64) as usize,
            };
            let mut sp = VRng::new(env.seed ^ 0xC14D, idx as u64);
            let run = manual_world(&case, &mut picker, if policy == 3 { Some(&mut sp) } else { None });
            rec.eval();
            rec.add("sender_manual_polls", run.polls);
            rec.seen("sender_shapes", case.shape());
            let before = st.blocked_polls;
            match manual_verdict(&case, &run, &mut st) {
                Some(f) => report(&mut rec, f, idx, json!({"history": case.json(), "executor": "manual", "policy": policy, "picks": run.picks, "trace": trace_text(&run.evs)})),
                None => {
                    if st.blocked_polls > before {
                        rec.distinct(&(fxh(&case), trace_hash(&run.evs)));
                    }
                    if rec.want_sample() {
                        rec.sample(json!({"history": case.json(), "policy": policy, "trace": trace_text(&run.evs)}));
                    }
                }
            }
        }
        flush_sstats(&mut rec, &st);
        rec.finish();
    }

    // ---- real threads -----------------------------------------------------------------------------

    pub(super) enum MtOutcome {
        Done(Vec<Ev>, Vec<String>),
        TimedOut(Vec<Ev>),
    }

    async fn mt_world<N: ArrayLength>(case: SCase, per_history: Duration) -> MtOutcome {
        let sender = CArc::new(case.new_sender());
        let log = Log::default();
        let mut hs = FuturesUnordered::new();
        for t in &case.spawn_order {
            let h = match *t {
                TaskKind::Writer(w) => tokio::spawn(catch_fut(writer_task::<N>(CArc::clone(&sender), case.writers[w].clone(), case.joined, log.clone()))),
                TaskKind::Closer => tokio::spawn(catch_fut(closer_task(CArc::clone(&sender), case.n, log.clone()))),
                TaskKind::Reader => tokio::spawn(catch_fut(reader_task(CArc::clone(&sender), log.clone(), case.n + 2))),
            };
            hs.push(h);
        }
        let mut panics = Vec::new();
        let all = async {
            while let Some(r) = hs.next().await {
                match r {
                    Ok(Ok(())) => {}
                    Ok(Err(p)) => {
                        panics.push(p);
                        break;
                    }
                    Err(e) => {
                        panics.push(format!("join error: {e}"));
                        break;
                    }
                }
            }
        };
        let timed_out = tokio::time::timeout(per_history, all).await.is_err();
        for h in hs.iter() {
            h.abort();
        }
        if timed_out {
            MtOutcome::TimedOut(log.snapshot())
        } else {
            MtOutcome::Done(log.snapshot(), panics)
        }
    }

    /// A history that did not finish on real threads is inconclusive by itself (wall time); try to
    /// reproduce a stall deterministically on the poll scheduler.
    pub(super) fn reclassify(case: &SCase, seed: u64) -> Option<(Finding, ManualRun)> {
        for k in 0..400u64 {
            let mut pr = VRng::new(seed ^ 0xC14E, k);
            let mut picker = |ready: &[usize]| match k {
                0 => 0,
                1 => ready.len() - 1,
                _ => pr.below(ready.len() as u64) as usize,
            };
            let run = manual_world(case, &mut picker, None);
            let mut s = SStats::default();
            if let Some(f) = manual_verdict(case, &run, &mut s) {
                return Some((f, run));
            }
        }
        None
    }

    #[test]
    fn verif_c14_sender_threads() {
        let env = vlib::env();
        let mut rec = Recorder::new("C14", "verif_c14_sender_threads");
        let only = replay_case();
        let batches: usize = env.pick(480, 6400);
        let per_batch: usize = 40;
        let mut st = SStats::default();
        let mut timeouts = 0usize;
        for b in 0..batches {
            if !env.mine(b) || only.is_some_and(|c| c / per_batch != b) {
                continue;
            }
            let cases: Vec<(usize, SCase)> = (0..per_batch)
                .map(|j| {
                    let idx = b * per_batch + j;
                    let mut r = VRng::new(env.seed ^ 0xC14F, idx as u64);
                    (idx, gen_scase(&mut r, 6, if idx % 4 == 3 { 90 } else { 24 }, 4, SIZES))
                })
                .filter(|(idx, _)| only.is_none_or(|c| c == *idx))
                .collect();
            if timeouts >= 2 {
                // wall time is not a verdict; two histories were already handed to the poll scheduler
                rec.count("sender_thread_batches_skipped_after_timeouts");
                continue;
            }
            let workers = 2 + (b % 5);
            let cs = cases.clone();
            let out = vlib::run_mt(workers, Duration::from_secs(600), async move {
                let mut v = Vec::new();
                let mut t = 0;
                for (idx, case) in cs {
                    if t >= 2 {
                        break;
                    }
                    let o = with_ws!(case.ws, N => mt_world::<N>(case.clone(), Duration::from_secs(5)).await);
                    if matches!(o, MtOutcome::TimedOut(_)) {
                        t += 1;
                    }
                    v.push((idx, o));
                }
                v
            });
            let Some(out) = out else {
                rec.inconclusive(format!("thread batch {b} exceeded its wall deadline"));
                continue;
            };
            for ((idx, case), (_, o)) in cases.iter().zip(out.into_iter()) {
                rec.eval();
                rec.seen("sender_shapes", case.shape());
                match o {
                    MtOutcome::Done(evs, panics) => {
                        if let Some(p) = panics.first() {
                            rec.violation(
                                "panic inside the send buffer",
                                json!({"component": "OrderingSender", "kind": "panic", "panic": panic_class(p)}),
                                json!({"case": idx, "history": case.json(), "executor": "threads", "panic": p, "trace": trace_text(&evs)}),
                            );
                            continue;
                        }
                        let before = st.blocked_polls;
                        match judge(case, &evs, true, &mut st) {
                            Some(f) => report(&mut rec, f, *idx, json!({"history": case.json(), "executor": "threads", "workers": workers, "trace": trace_text(&evs)})),
                            None => {
                                rec.count("sender_thread_histories_completed");
                                if st.blocked_polls > before {
                                    rec.distinct(&(fxh(case), trace_hash(&evs)));
                                }
                                if rec.want_sample() {
                                    rec.sample(json!({"history": case.json(), "workers": workers, "trace": trace_text(&evs)}));
                                }
                            }
                        }
                    }
                    MtOutcome::TimedOut(evs) => {
                        timeouts += 1;
                        rec.count("sender_thread_histories_timed_out");
                        // the partial log is still judged (prefix checks are sound)
                        let mut s = SStats::default();
                        if let Some(f) = judge(case, &evs, false, &mut s) {
                            report(&mut rec, f, *idx, json!({"history": case.json(), "executor": "threads", "trace": trace_text(&evs)}));
                        } else if let Some((f, run)) = reclassify(case, env.seed) {
                            report(&mut rec, f, *idx, json!({"history": case.json(), "executor": "manual (re-run of a history that timed out on threads)",
                                   "picks": run.picks, "trace": trace_text(&run.evs), "thread_trace": trace_text(&evs)}));
                        } else {
                            // wall time is not a verdict: the prefix of the thread run was judged, and the poll scheduler,
                            // which decides stalls, completed the same history under every seeded pick sequence it tried
                            rec.count("sender_thread_histories_past_wall_guard_decided_by_poll_scheduler");
                            rec.note(format!(
                                "history {idx} did not finish within 5 s on {workers} threads and no stall was reproducible on the poll scheduler; partial trace: {}",
                                trace_text(&evs).chars().take(300).collect::<String>()
                            ));
                        }
                    }
                }
            }
        }
        flush_sstats(&mut rec, &st);
        rec.finish();
    }
}

// ---------------------------------------------------------------------------------------------
// (C) UnorderedReceiver
// ---------------------------------------------------------------------------------------------

#[derive(Default)]
struct Feed {
    q: VecDeque<Vec<u8>>,
    closed: bool,
    waker: Option<Waker>,
}

/// A byte stream whose chunks are handed over by the harness.
#[derive(Clone, Default)]
struct FeedHandle(StdArc<StdMutex<Feed>>);

impl FeedHandle {
    fn push(&self, chunk: Vec<u8>) {
        let w = {
            let mut f = self.0.lock().unwrap();
            f.q.push_back(chunk);
            f.waker.take()
        };
        if let Some(w) = w {
            w.wake();
        }
    }
    fn close(&self) {
        let w = {
            let mut f = self.0.lock().unwrap();
            f.closed = true;
            f.waker.take()
        };
        if let Some(w) = w {
            w.wake();
        }
    }
}

struct FeedStream(FeedHandle);

impl Stream for FeedStream {
    type Item = Vec<u8>;
    fn poll_next(self: Pin<&mut Self>, cx: &mut Context<'_>) -> Poll<Option<Vec<u8>>> {
        let mut f = self.0.0.lock().unwrap();
        if let Some(c) = f.q.pop_front() {
            Poll::Ready(Some(c))
        } else if f.closed {
            Poll::Ready(None)
        } else {
            f.waker = Some(cx.waker().clone());
            Poll::Pending
        }
    }
}

/// Outcome of one request as seen by the harness.
#[derive(Clone, Debug, PartialEq, Eq)]
enum RecvOut {
    Msg(Vec<u8>),
    EndOfStream,
    Deserialize,
}

/// First byte of a record that the receiver's message type refuses to deserialize.
const BAD_RECORD: u8 = 37;

/// The message type of the receive side: like `Msg`, but a record that starts with `BAD_RECORD` is not a valid
/// encoding. Such a record fails for the request of its own index and for nobody else.
#[derive(Clone, PartialEq, Eq)]
pub struct RMsg<N: ArrayLength>(pub GenericArray<u8, N>);

impl<N: ArrayLength> Debug for RMsg<N> {
    fn fmt(&self, f: &mut std::fmt::Formatter<'_>) -> std::fmt::Result {
        write!(f, "RMsg({})", hex(&self.0))
    }
}

#[derive(Debug)]
pub struct BadRecord;
impl std::fmt::Display for BadRecord {
    fn fmt(&self, f: &mut std::fmt::Formatter<'_>) -> std::fmt::Result {
        write!(f, "record starts with the invalid marker")
    }
}
impl std::error::Error for BadRecord {}

impl<N: ArrayLength> Serializable for RMsg<N> {
    type Size = N;
    type DeserializationError = BadRecord;

    fn serialize(&self, buf: &mut GenericArray<u8, Self::Size>) {
        buf.copy_from_slice(&self.0);
    }

    fn deserialize(buf: &GenericArray<u8, Self::Size>) -> Result<Self, Self::DeserializationError> {
        if buf[0] == BAD_RECORD { Err(BadRecord) } else { Ok(RMsg(buf.clone())) }
    }
}

/// What the request for a record with these bytes must resolve to.
fn want_out(bytes: &[u8]) -> RecvOut {
    if bytes[0] == BAD_RECORD { RecvOut::Deserialize } else { RecvOut::Msg(bytes.to_vec()) }
}

async fn recv_task<N: ArrayLength>(r: UnorderedReceiver<FeedStream, Vec<u8>>, i: usize) -> RecvOut {
    match r.recv::<RMsg<N>, usize>(i).await {
        Ok(m) => RecvOut::Msg(m.0.to_vec()),
        Err(RecvError::EndOfStream(_)) => RecvOut::EndOfStream,
        Err(RecvError::DeserializeFailed(_)) => RecvOut::Deserialize,
    }
}

fn new_receiver(cap: usize) -> (UnorderedReceiver<FeedStream, Vec<u8>>, FeedHandle) {
    let h = FeedHandle::default();
    let r = UnorderedReceiver::new(Box::pin(FeedStream(h.clone())), NonZeroUsize::new(cap).unwrap());
    (r, h)
}

#[derive(Clone, Debug)]
enum Act {
    /// first poll of request number `k` of `reqs`
    Issue(usize),
    /// hand the next chunk to the stream
    Feed,
    Close,
    /// run woken tasks until nothing is ready
    Settle,
    /// poll request `k` although nobody woke it
    Spurious(usize),
}

#[derive(Clone, Debug)]
struct RCase {
    sz: usize,
    data: Vec<u8>,
    /// chunk lengths (sum = data.len()); zero-length chunks allowed
    chunks: Vec<usize>,
    cap: usize,
    /// record index asked for by request k
    reqs: Vec<usize>,
    lifo: bool,
    script: Vec<Act>,
}

impl RCase {
    fn json(&self) -> Value {
        let script: String = self
            .script
            .iter()
            .map(|a| match a {
                Act::Issue(k) => format!("I{} ", self.reqs[*k]),
                Act::Feed => "F ".to_string(),
                Act::Close => "X ".to_string(),
                Act::Settle => "~ ".to_string(),
                Act::Spurious(k) => format!("S{} ", self.reqs[*k]),
            })
            .collect();
        json!({"message_size": self.sz, "stream": hex(&self.data), "chunks": self.chunks, "capacity": self.cap,
               "requests": self.reqs, "lifo": self.lifo, "script(I=issue,F=feed,X=close,~=settle,S=spurious poll)": script})
    }
}

/// timing 0: all requests first, then data chunk by chunk; 1: all data (and end) first, then requests;
/// 2: alternate one request / one chunk.
fn recv_script(n_reqs: usize, n_chunks: usize, timing: usize) -> Vec<Act> {
    let mut s = Vec::new();
    match timing {
        0 => {
            s.extend((0..n_reqs).map(Act::Issue));
            s.push(Act::Settle);
            for _ in 0..n_chunks {
                s.push(Act::Feed);
                s.push(Act::Settle);
            }
            s.push(Act::Close);
            s.push(Act::Settle);
        }
        1 => {
            s.extend((0..n_chunks).map(|_| Act::Feed));
            s.push(Act::Close);
            s.extend((0..n_reqs).map(Act::Issue));
            s.push(Act::Settle);
        }
        _ => {
            for k in 0..n_reqs.max(n_chunks) {
                if k < n_reqs {
                    s.push(Act::Issue(k));
                }
                if k < n_chunks {
                    s.push(Act::Feed);
                }
                s.push(Act::Settle);
            }
            s.push(Act::Close);
            s.push(Act::Settle);
        }
    }
    s
}

#[derive(Default)]
struct RStats {
    resolved_ok: u64,
    resolved_eos: u64,
    resolved_bad_record: u64,
    parked_beyond_end: u64,
    overflow_registrations: u64,
    ring_registrations: u64,
    quiescence_checks: u64,
    polls: u64,
    straddling_messages: u64,
}

fn flush_rstats(rec: &mut Recorder, s: &RStats) {
    rec.add("recv_resolved_ok", s.resolved_ok);
    rec.add("recv_resolved_end_of_stream", s.resolved_eos);
    rec.add("recv_resolved_invalid_record", s.resolved_bad_record);
    rec.add("recv_parked_beyond_end", s.parked_beyond_end);
    rec.add("recv_overflow_registrations", s.overflow_registrations);
    rec.add("recv_ring_registrations", s.ring_registrations);
    rec.add("recv_quiescence_checks", s.quiescence_checks);
    rec.add("recv_polls", s.polls);
    rec.add("recv_messages_straddling_chunks", s.straddling_messages);
}

#[cfg(not(feature = "shuttle"))]
mod native_recv {
    use super::*;
    use crate::verif::vlib::{Manual, catch_fut};

    /// Execute the script on the poll scheduler, checking the oracle at every quiescent point.
    pub(super) fn recv_run(case: &RCase, st: &mut RStats) -> Option<Finding> {
        with_ws!(case.sz, N => recv_run_n::<N>(case, st))
    }

    fn recv_run_n<N: ArrayLength>(case: &RCase, st: &mut RStats) -> Option<Finding> {
        let sig = |kind: &str| json!({"component": "UnorderedReceiver", "kind": kind});
        let sz = case.sz;
        let n_complete = case.data.len() / sz;
        let (recv, feed) = new_receiver(case.cap);
        let mut m: Manual<'static, Result<RecvOut, String>> = Manual::new();
        // task id of request k (spawned when issued)
        let mut tid: Vec<Option<usize>> = vec![None; case.reqs.len()];
        let mut fed_bytes = 0usize;
        let mut next_chunk = 0usize;
        let mut offset = 0usize;
        let mut closed = false;
        let lifo = case.lifo;

        // messages that straddle a chunk boundary (exercise the spare-bytes carry-over)
        {
            let mut o = 0;
            let mut cuts = HashSet::new();
            for c in &case.chunks {
                o += c;
                cuts.insert(o);
            }
            for i in 0..n_complete {
                if ((i * sz + 1)..((i + 1) * sz)).any(|b| cuts.contains(&b)) {
                    st.straddling_messages += 1;
                }
            }
        }

        let check = |m: &Manual<'static, Result<RecvOut, String>>, tid: &[Option<usize>], fed: usize, closed: bool, fin: bool, st: &mut RStats| -> Option<Finding> {
            st.quiescence_checks += 1;
            let issued: HashSet<usize> = tid.iter().enumerate().filter(|(_, t)| t.is_some()).map(|(k, _)| case.reqs[k]).collect();
            let first_gap = (0..).find(|i| !issued.contains(i)).unwrap();
            let avail = fed / sz;
            for (k, t) in tid.iter().enumerate() {
                let Some(t) = t else { continue };
                let i = case.reqs[k];
                match m.result(*t) {
                    Some(Err(p)) => {
                        return Some(finding("panic inside the receive buffer", json!({"component": "UnorderedReceiver", "kind": "panic", "panic": panic_class(p)}), json!({"request": i, "panic": p})));
                    }
                    Some(Ok(out)) => {
                        if i >= first_gap {
                            return Some(finding("a request resolved although an earlier record was never requested", sig("resolved_out_of_order"), json!({"request": i, "outcome": format!("{out:?}")})));
                        }
                        if i < n_complete {
                            let want = &case.data[i * sz..(i + 1) * sz];
                            if *out != want_out(want) {
                                let kind = if matches!(out, RecvOut::Msg(_)) { "wrong_message" } else { "error_instead_of_message" };
                                return Some(finding("recv(i) did not return the i-th message of the stream", sig(kind), json!({"request": i, "got": format!("{out:?}"), "want": hex(want)})));
                            }
                            if (i + 1) * sz > fed {
                                return Some(finding("recv(i) resolved before its bytes arrived", sig("resolved_early"), json!({"request": i, "fed_bytes": fed})));
                            }
                        } else if *out != RecvOut::EndOfStream || !closed {
                            return Some(finding("a request beyond the end of the stream did not fail with EndOfStream", sig("beyond_end"), json!({"request": i, "got": format!("{out:?}"), "closed": closed})));
                        }
                    }
                    None => {
                        // progress: data is there, every earlier record was requested => must be done
                        if i < first_gap && i < avail {
                            return Some(finding(
                                "quiescent although the data for a pending request has arrived (lost wake-up)",
                                sig("stall"),
                                json!({"request": i, "fed_bytes": fed, "messages_available": avail, "requests_issued": issued.iter().collect::<Vec<_>>()}),
                            ));
                        }
                        if closed && i == n_complete && i < first_gap && fed == case.data.len() {
                            return Some(finding(
                                "quiescent although the stream ended: the first missing record never got EndOfStream",
                                sig("stall_at_end"),
                                json!({"request": i}),
                            ));
                        }
                        if fin && i > n_complete {
                            st.parked_beyond_end += 1;
                        }
                    }
                }
            }
            None
        };

        for act in &case.script {
            match act {
                Act::Issue(k) | Act::Spurious(k) => {
                    let i = case.reqs[*k];
                    let id = match tid[*k] {
                        Some(id) => id,
                        None => {
                            let id = m.spawn(catch_fut(recv_task::<N>(recv.clone(), i)));
                            tid[*k] = Some(id);
                            id
                        }
                    };
                    if !m.is_done(id) {
                        // model of the read cursor = number of requests that resolved with a message
                        let next = tid.iter().flatten().filter(|t| matches!(m.result(**t), Some(Ok(RecvOut::Msg(_) | RecvOut::Deserialize)))).count();
                        if i > next + case.cap {
                            st.overflow_registrations += 1;
                        } else if i > next {
                            st.ring_registrations += 1;
                        }
                        m.poll_task(id);
                    }
                }
                Act::Feed => {
                    if next_chunk < case.chunks.len() {
                        let len = case.chunks[next_chunk];
                        feed.push(case.data[offset..offset + len].to_vec());
                        offset += len;
                        fed_bytes += len;
                        next_chunk += 1;
                    }
                }
                Act::Close => {
                    // the end of the stream only after all data
                    while next_chunk < case.chunks.len() {
                        let len = case.chunks[next_chunk];
                        feed.push(case.data[offset..offset + len].to_vec());
                        offset += len;
                        fed_bytes += len;
                        next_chunk += 1;
                    }
                    feed.close();
                    closed = true;
                }
                Act::Settle => {
                    let mut pick = |ready: &[usize]| if lifo { ready.len() - 1 } else { 0 };
                    let mut guard = 0;
                    while m.step(&mut pick) {
                        guard += 1;
                        if guard > 100_000 {
                            return Some(finding("receiver tasks keep waking each other without progress", sig("livelock"), json!({})));
                        }
                    }
                    if let Some(f) = check(&m, &tid, fed_bytes, closed, false, st) {
                        return Some(f);
                    }
                }
            }
        }
        // final: drain whatever is still ready, then judge
        let mut pick = |ready: &[usize]| if lifo { ready.len() - 1 } else { 0 };
        let mut guard = 0;
        while m.step(&mut pick) && guard < 100_000 {
            guard += 1;
        }
        st.polls += m.polls;
        let r = check(&m, &tid, fed_bytes, closed, true, st);
        if r.is_none() {
            for t in tid.iter().flatten() {
                match m.result(*t) {
                    Some(Ok(RecvOut::Msg(_))) => st.resolved_ok += 1,
                    Some(Ok(RecvOut::Deserialize)) => st.resolved_bad_record += 1,
                    Some(Ok(RecvOut::EndOfStream)) => st.resolved_eos += 1,
                    _ => {}
                }
            }
        }
        r
    }

    fn permutations(n: usize) -> Vec<Vec<usize>> {
        fn rec(cur: &mut Vec<usize>, used: &mut Vec<bool>, n: usize, out: &mut Vec<Vec<usize>>) {
            if cur.len() == n {
                out.push(cur.clone());
                return;
            }
            for i in 0..n {
                if !used[i] {
                    used[i] = true;
                    cur.push(i);
                    rec(cur, used, n, out);
                    cur.pop();
                    used[i] = false;
                }
            }
        }
        let mut out = Vec::new();
        rec(&mut Vec::new(), &mut vec![false; n], n, &mut out);
        out
    }

    #[test]
    fn verif_c14_recv_exhaustive() {
        let env = vlib::env();
        let mut rec = Recorder::new("C14", "verif_c14_recv_exhaustive");
        let only = replay_case();
        let max_len: usize = env.pick(10, 12);
        let mut st = RStats::default();
        let mut case_no = 0usize;
        let perms: Vec<Vec<Vec<usize>>> = (0..=5).map(permutations).collect();
        'outer: for sz in [1usize, 2, 3, 4] {
            for len in sz..=max_len {
                let n_complete = len / sz;
                if n_complete > 5 {
                    continue;
                }
                let data: Vec<u8> = (0..len).map(|k| (k * 17 + 3) as u8).collect();
                for mask in 0..(1usize << (len - 1)) {
                    // bit b set = cut after byte b
                    let idx = case_no;
                    case_no += 1;
                    if !env.mine(idx) || only.is_some_and(|c| c != idx) {
                        continue;
                    }
                    let mut chunks = Vec::new();
                    let mut run = 1;
                    for b in 0..(len - 1) {
                        if mask >> b & 1 == 1 {
                            chunks.push(run);
                            run = 1;
                        } else {
                            run += 1;
                        }
                    }
                    chunks.push(run);
                    // request sets: exactly the complete records; and additionally the first missing one
                    for n_reqs in [n_complete, n_complete + 1] {
                        if n_reqs > 5 || n_reqs == 0 {
                            continue;
                        }
                        for perm in &perms[n_reqs] {
                            for cap in [2usize, 3] {
                                for timing in 0..3usize {
                                    let lifo = (timing + cap + mask) % 2 == 1;
                                    let case = RCase {
                                        sz,
                                        data: data.clone(),
                                        chunks: chunks.clone(),
                                        cap,
                                        reqs: perm.clone(),
                                        lifo,
                                        script: recv_script(n_reqs, chunks.len(), timing),
                                    };
                                    rec.eval();
                                    match recv_run(&case, &mut st) {
                                        Some(f) => {
                                            report(&mut rec, f, idx, json!({"receiver_case": case.json()}));
                                            if rec.n_violations() >= 20 {
                                                break 'outer;
                                            }
                                        }
                                        None => {
                                            rec.distinct(&(sz, len, mask, n_reqs, fxh(perm), cap, timing));
                                            if rec.want_sample() {
                                                rec.sample(serde_json::json!({"receiver_case": {"message_size": sz, "stream_len": len, "chunking_mask": mask, "requests": n_reqs, "capacity": cap}}));
                                            }
                                            if rec.want_sample() && mask % 97 == 5 && timing == 0 {
                                                rec.sample(case.json());
                                            }
                                        }
                                    }
                                }
                            }
                        }
                    }
                }
                rec.seen("recv_stream_shapes", format!("len{len}/msg{sz}"));
            }
        }
        flush_rstats(&mut rec, &st);
        rec.finish();
    }

    #[test]
    fn verif_c14_recv_seeded() {
        let env = vlib::env();
        let mut rec = Recorder::new("C14", "verif_c14_recv_seeded");
        let only = replay_case();
        let cases: usize = env.pick(6000, 80000);
        let mut st = RStats::default();
        for idx in 0..cases {
            if !env.mine(idx) || only.is_some_and(|c| c != idx) {
                continue;
            }
            let mut r = VRng::new(env.seed ^ 0xC14E_0001, idx as u64);
            let sz = *r.choose(SIZES);
            let n_complete = r.range(1, 48) as usize;
            let tail = if r.below(3) == 0 { r.below(sz as u64) as usize } else { 0 };
            let mut data = r.bytes(n_complete * sz + tail);
            // records that are not a valid encoding for the receiver's message type (about every third case)
            if idx % 3 == 1 {
                for i in 0..n_complete {
                    if r.below(5) == 0 {
                        data[i * sz] = BAD_RECORD;
                    }
                }
            }
            // chunking: random cut points, occasionally empty chunks
            let mut chunks = Vec::new();
            let mut left = data.len();
            let big = r.bool();
            while left > 0 {
                let c = if r.below(12) == 0 {
                    0
                } else {
                    (r.range(1, if big { 4 * sz as u64 + 3 } else { sz as u64 + 1 }) as usize).min(left)
                };
                chunks.push(c);
                left -= c;
            }
            let cap = r.range(2, 9) as usize;
            // requests: all complete records, sometimes the first missing one and one far beyond
            let mut reqs: Vec<usize> = (0..n_complete).collect();
            if r.bool() {
                reqs.push(n_complete);
            }
            if r.below(4) == 0 {
                reqs.push(n_complete + 1 + r.below(2 * cap as u64) as usize);
            }
            match r.below(4) {
                0 => reqs.reverse(),
                1 => r.shuffle(&mut reqs),
                2 => {
                    // windows of `2*cap` shuffled: far-ahead requests, but bounded
                    for w in reqs.chunks_mut(2 * cap) {
                        r.shuffle(w);
                    }
                }
                _ => {}
            }
            // script: random interleaving of issues, feeds, settles and spurious polls
            let mut script = Vec::new();
            let (mut ni, mut nf) = (0usize, 0usize);
            while ni < reqs.len() || nf < chunks.len() {
                match r.below(10) {
                    0..=3 if ni < reqs.len() => {
                        script.push(Act::Issue(ni));
                        ni += 1;
                    }
                    4..=6 if nf < chunks.len() => {
                        script.push(Act::Feed);
                        nf += 1;
                    }
                    7 if ni > 0 => script.push(Act::Spurious(r.below(ni as u64) as usize)),
                    8 => script.push(Act::Settle),
                    _ => {}
                }
            }
            script.push(Act::Settle);
            script.push(Act::Close);
            script.push(Act::Settle);
            let case = RCase { sz, data, chunks, cap, reqs, lifo: r.bool(), script };
            rec.eval();
            let before = st.overflow_registrations;
            match recv_run(&case, &mut st) {
                Some(f) => report(&mut rec, f, idx, json!({"receiver_case": case.json()})),
                None => {
                    rec.distinct(&idx);
                    if st.overflow_registrations > before {
                        rec.count("recv_cases_with_overflow_wakers");
                    }
                    if rec.want_sample() && idx % 50 == 0 {
                        rec.sample(case.json());
                    }
                }
            }
        }
        flush_rstats(&mut rec, &st);
        rec.finish();
    }
}

// ---------------------------------------------------------------------------------------------
// (B1) shuttle: every lock / atomic access of the buffers is a scheduling point (build b2)
// ---------------------------------------------------------------------------------------------

#[cfg(feature = "shuttle")]
mod sh {
    use shuttle::scheduler::{DfsScheduler, PctScheduler, RandomScheduler, ReplayScheduler, Scheduler};

    use super::*;

    #[derive(Clone, Copy, Debug)]
    pub(super) enum Sched {
        Random,
        Pct(usize),
        Dfs,
    }

    #[derive(Default)]
    struct Coll {
        executions: u64,
        traces: HashSet<u64>,
        stats: SStats,
        /// log of the execution in flight (for the witness of a deadlock)
        current: Option<Log>,
        last_trace: Option<String>,
    }

    pub(super) struct ShResult {
        pub executions: u64,
        pub traces: HashSet<u64>,
        pub stats: SStats,
        /// (class, message, schedule, partial trace)
        pub failure: Option<(String, String, Option<String>, String)>,
        pub last_trace: Option<String>,
    }

    /// writers as shuttle threads (blocking on their futures) instead of async tasks
    fn sh_world(case: &SCase, threads: bool, log: &Log) {
        with_ws!(case.ws, N => {
            let sender = CArc::new(case.new_sender());
            if threads {
                let mut hs = Vec::new();
                for t in &case.spawn_order {
                    let (s, l) = (CArc::clone(&sender), log.clone());
                    let h = match *t {
                        TaskKind::Writer(w) => {
                            let (idxs, joined) = (case.writers[w].clone(), case.joined);
                            shuttle::thread::spawn(move || shuttle::future::block_on(writer_task::<N>(s, idxs, joined, l)))
                        }
                        TaskKind::Closer => {
                            let n = case.n;
                            shuttle::thread::spawn(move || shuttle::future::block_on(closer_task(s, n, l)))
                        }
                        TaskKind::Reader => {
                            let max_chunks = case.n + 2;
                            shuttle::thread::spawn(move || shuttle::future::block_on(reader_task(s, l, max_chunks)))
                        }
                    };
                    hs.push(h);
                }
                for h in hs {
                    h.join().unwrap();
                }
            } else {
                let case = case.clone();
                let log = log.clone();
                shuttle::future::block_on(async move {
                    let mut hs = Vec::new();
                    for t in &case.spawn_order {
                        let (s, l) = (CArc::clone(&sender), log.clone());
                        let h = match *t {
                            TaskKind::Writer(w) => shuttle::future::spawn(writer_task::<N>(s, case.writers[w].clone(), case.joined, l)),
                            TaskKind::Closer => shuttle::future::spawn(closer_task(s, case.n, l)),
                            TaskKind::Reader => shuttle::future::spawn(reader_task(s, l, case.n + 2)),
                        };
                        hs.push(h);
                    }
                    for h in hs {
                        h.await.unwrap();
                    }
                });
            }
        })
    }

    fn extract_schedule(msg: &str) -> Option<String> {
        let a = msg.find("failing schedule:\n\"\n")? + "failing schedule:\n\"\n".len();
        let b = msg[a..].find("\n\"")? + a;
        Some(msg[a..b].to_string())
    }

    fn run_with<S: Scheduler + 'static>(scheduler: S, case: &SCase, threads: bool) -> ShResult {
        let coll: StdArc<StdMutex<Coll>> = StdArc::new(StdMutex::new(Coll::default()));
        let c2 = StdArc::clone(&coll);
        let case2 = case.clone();
        let f = move || {
            let log = Log::default();
            c2.lock().unwrap().current = Some(log.clone());
            sh_world(&case2, threads, &log);
            let evs = log.snapshot();
            let mut s = SStats::default();
            let verdict = judge(&case2, &evs, true, &mut s);
            {
                let mut c = c2.lock().unwrap();
                c.executions += 1;
                if s.blocked_polls > 0 {
                    c.traces.insert(trace_hash(&evs));
                }
                c.stats.blocked_polls += s.blocked_polls;
                c.stats.reader_pending += s.reader_pending;
                c.stats.chunks += s.chunks;
                c.stats.short_final_chunks += s.short_final_chunks;
                c.stats.full_at_write += s.full_at_write;
                if c.last_trace.is_none() {
                    c.last_trace = Some(trace_text(&evs));
                }
            }
            if let Some(f) = verdict {
                // the only way to learn the schedule from shuttle is to fail the execution; the panic is
                // caught by the harness below and turned into a violation record
                panic!("VERIF-ORACLE {}", json!({"what": f.what, "sig": f.sig, "detail": f.detail}));
            }
        };
        let mut cfg = shuttle::Config::new();
        cfg.stack_size = 0x40000;
        cfg.silence_warnings = true;
        cfg.failure_persistence = shuttle::FailurePersistence::Print;
        let runner = shuttle::Runner::new(scheduler, cfg);
        let res = catch(move || runner.run(f));
        let mut c = coll.lock().unwrap_or_else(|e| e.into_inner());
        let failure = res.err().map(|msg| {
            let partial = c.current.as_ref().map(|l| trace_text(&l.snapshot())).unwrap_or_default();
            let class = if msg.contains("VERIF-ORACLE") {
                "oracle"
            } else if msg.contains("deadlock!") {
                "deadlock"
            } else if msg.contains("exceeded max_steps") || msg.contains("max_steps") {
                "step_bound"
            } else {
                "panic"
            };
            let schedule = extract_schedule(&msg);
            (class.to_string(), msg, schedule, partial)
        });
        ShResult {
            executions: c.executions,
            traces: std::mem::take(&mut c.traces),
            stats: c.stats.clone(),
            failure,
            last_trace: c.last_trace.take(),
        }
    }

    pub(super) fn explore(case: &SCase, threads: bool, sched: Sched, iters: usize, seed: u64) -> ShResult {
        match sched {
            Sched::Random => run_with(RandomScheduler::new_from_seed(seed, iters), case, threads),
            Sched::Pct(d) => run_with(PctScheduler::new_from_seed(seed, d, iters), case, threads),
            Sched::Dfs => run_with(DfsScheduler::new(Some(iters), false), case, threads),
        }
    }

    /// Turn the outcome of one exploration into evidence / violations.
    fn account(rec: &mut Recorder, idx: usize, case: &SCase, threads: bool, sched: Sched, iters: usize, seed: u64, res: ShResult, st: &mut SStats) {
        rec.evals(res.executions);
        rec.add("sh_executions", res.executions);
        rec.seen("sender_shapes", case.shape());
        for t in &res.traces {
            rec.distinct(&(fxh(case), threads, *t));
        }
        st.blocked_polls += res.stats.blocked_polls;
        st.reader_pending += res.stats.reader_pending;
        st.chunks += res.stats.chunks;
        st.short_final_chunks += res.stats.short_final_chunks;
        st.full_at_write += res.stats.full_at_write;
        let wit = |schedule: &Option<String>, partial: &str, msg: &str| {
            json!({"case": idx, "history": case.json(), "writers_as_threads": threads, "scheduler": format!("{sched:?}"),
                   "iterations": iters, "scheduler_seed": seed, "failed_after_executions": res.executions,
                   "schedule": schedule, "trace": partial, "message": msg.chars().take(1500).collect::<String>(), "build": "b2"})
        };
        match &res.failure {
            None => {
                if rec.want_sample() {
                    rec.sample(json!({"history": case.json(), "writers_as_threads": threads, "scheduler": format!("{sched:?}"),
                                      "executions": res.executions, "distinct_traces": res.traces.len(), "one_trace": res.last_trace}));
                }
            }
            Some((class, msg, schedule, partial)) => match class.as_str() {
                "deadlock" => {
                    let evs_kind = if partial.contains("c:DONE") { "after_close" } else { "before_close" };
                    rec.violation(
                        "shuttle found a schedule in which the send buffer deadlocks (lost wake-up)",
                        json!({"component": "OrderingSender", "kind": "stall:deadlock", "executor": "shuttle", "phase": evs_kind}),
                        wit(schedule, partial, msg),
                    );
                }
                "oracle" => {
                    let body = msg.find("VERIF-ORACLE ").map(|p| &msg[p + 13..]).unwrap_or("");
                    let end = body.find("\n").unwrap_or(body.len());
                    let v: Value = serde_json::from_str(&body[..end]).unwrap_or(Value::Null);
                    let mut w = wit(schedule, partial, msg);
                    w["detail"] = v["detail"].clone();
                    rec.violation(v["what"].as_str().unwrap_or("oracle failure under shuttle"), v["sig"].clone(), w);
                }
                "step_bound" => rec.inconclusive(format!("case {idx}: shuttle step bound reached: {}", msg.chars().take(200).collect::<String>())),
                _ => {
                    let orig = msg.find("original panic: ").map(|p| &msg[p + 16..]).unwrap_or(msg);
                    rec.violation(
                        "panic inside the send buffer under shuttle",
                        json!({"component": "OrderingSender", "kind": "panic", "panic": panic_class(orig)}),
                        wit(schedule, partial, msg),
                    );
                }
            },
        }
    }

    fn replay_schedule(rec: &mut Recorder, idx: usize, case: &SCase, threads: bool, st: &mut SStats) -> bool {
        let Some(w) = replay_witness() else { return false };
        let Some(s) = w["schedule"].as_str() else { return false };
        let threads = w["writers_as_threads"].as_bool().unwrap_or(threads);
        let res = run_with(ReplayScheduler::new_from_encoded(s), case, threads);
        account(rec, idx, case, threads, Sched::Random, 1, 0, res, st);
        true
    }

    fn sh_cases(seed: u64, n: usize, max_writers: usize, max_msgs: usize) -> Vec<(SCase, bool)> {
        (0..n)
            .map(|idx| {
                let mut r = VRng::new(seed ^ 0xC145, idx as u64);
                let case = gen_scase(&mut r, max_writers, max_msgs, 4, SIZES);
                (case, r.below(3) == 0)
            })
            .collect()
    }

    #[test]
    fn verif_c14_sh_random() {
        let env = vlib::env();
        let mut rec = Recorder::new("C14", "verif_c14_sh_random");
        let only = replay_case();
        let iters: usize = env.pick(500, 4000);
        let mut st = SStats::default();
        for (idx, (case, threads)) in sh_cases(env.seed, env.pick(96, 320), 6, 10).into_iter().enumerate() {
            if !env.mine(idx) || only.is_some_and(|c| c != idx) {
                continue;
            }
            if only.is_some() && replay_schedule(&mut rec, idx, &case, threads, &mut st) {
                continue;
            }
            let seed = env.seed.wrapping_mul(0x9E37_79B9).wrapping_add(idx as u64);
            let res = explore(&case, threads, Sched::Random, iters, seed);
            account(&mut rec, idx, &case, threads, Sched::Random, iters, seed, res, &mut st);
        }
        flush_sstats(&mut rec, &st);
        rec.finish();
    }

    #[test]
    fn verif_c14_sh_pct() {
        let env = vlib::env();
        let mut rec = Recorder::new("C14", "verif_c14_sh_pct");
        let only = replay_case();
        let iters: usize = env.pick(500, 4000);
        let mut st = SStats::default();
        for (idx, (case, threads)) in sh_cases(env.seed ^ 0x77, env.pick(96, 320), 6, 10).into_iter().enumerate() {
            if !env.mine(idx) || only.is_some_and(|c| c != idx) {
                continue;
            }
            if only.is_some() && replay_schedule(&mut rec, idx, &case, threads, &mut st) {
                continue;
            }
            let seed = env.seed.wrapping_mul(0x9E37_79B9).wrapping_add(idx as u64);
            let res = explore(&case, threads, Sched::Pct(3), iters, seed);
            account(&mut rec, idx, &case, threads, Sched::Pct(3), iters, seed, res, &mut st);
        }
        flush_sstats(&mut rec, &st);
        rec.finish();
    }

    #[test]
    fn verif_c14_sh_dfs() {
        let env = vlib::env();
        let mut rec = Recorder::new("C14", "verif_c14_sh_dfs");
        let only = replay_case();
        let iters: usize = env.pick(8000, 150000);
        let mut st = SStats::default();
        // 2-3 writers, one message each (plus one case with 4 messages), capacity 1-2 messages
        let mut cases = Vec::new();
        for (nw, n) in [(2usize, 2usize), (3, 3), (2, 3), (2, 4)] {
            for cap_units in 1..=2usize {
                for rs_units in 1..=cap_units {
                    for flavour in 0..2usize {
                        let mut writers: Vec<Vec<usize>> = vec![Vec::new(); nw];
                        for i in 0..n {
                            writers[if flavour == 0 { i % nw } else { (n - 1 - i) % nw }].push(i);
                        }
                        let joined = flavour == 1;
                        if joined {
                            for w in &mut writers {
                                w.reverse();
                            }
                        }
                        // DFS runs the first runnable task first: spawn the last writers first so that the
                        // default path is the one where everybody has to wait
                        let mut spawn_order: Vec<TaskKind> = (0..nw).rev().map(TaskKind::Writer).collect();
                        if flavour == 0 {
                            spawn_order.insert(0, TaskKind::Closer);
                            spawn_order.push(TaskKind::Reader);
                        } else {
                            spawn_order.insert(0, TaskKind::Reader);
                            spawn_order.push(TaskKind::Closer);
                        }
                        cases.push((SCase { ws: 1 + flavour, cap_units, rs_units, n, writers, joined, spawn_order }, flavour == 1 && nw == 2));
                    }
                }
            }
        }
        for (idx, (case, threads)) in cases.into_iter().enumerate() {
            if !env.mine(idx) || only.is_some_and(|c| c != idx) {
                continue;
            }
            if only.is_some() && replay_schedule(&mut rec, idx, &case, threads, &mut st) {
                continue;
            }
            let res = explore(&case, threads, Sched::Dfs, iters, 0);
            if res.failure.is_none() && (res.executions as usize) < iters {
                rec.count("sh_dfs_exhausted_cases");
            }
            account(&mut rec, idx, &case, threads, Sched::Dfs, iters, 0, res, &mut st);
        }
        flush_sstats(&mut rec, &st);
        rec.finish();
    }

    // ---- UnorderedReceiver under shuttle: requests as tasks, a feeder task handing over chunks ------

    fn sh_recv_world<N: ArrayLength>(sz: usize, data: &[u8], chunks: &[usize], cap: usize, reqs: &[usize]) -> Vec<(usize, RecvOut)> {
        let _ = sz;
        let (recv, feed) = new_receiver(cap);
        let data = data.to_vec();
        let chunks = chunks.to_vec();
        let reqs = reqs.to_vec();
        shuttle::future::block_on(async move {
            let mut hs = Vec::new();
            let mid = reqs.len() / 2;
            for (k, &i) in reqs.iter().enumerate() {
                if k == mid {
                    let (feed, data, chunks) = (feed.clone(), data.clone(), chunks.clone());
                    hs.push((usize::MAX, shuttle::future::spawn(async move {
                        let mut o = 0;
                        for c in chunks {
                            feed.push(data[o..o + c].to_vec());
                            o += c;
                            shuttle::future::yield_now().await;
                        }
                        feed.close();
                        RecvOut::EndOfStream
                    })));
                }
                hs.push((i, shuttle::future::spawn(recv_task::<N>(recv.clone(), i))));
            }
            let mut out = Vec::new();
            for (i, h) in hs {
                let r = h.await.unwrap();
                if i != usize::MAX {
                    out.push((i, r));
                }
            }
            out
        })
    }

    #[test]
    fn verif_c14_sh_recv() {
        let env = vlib::env();
        let mut rec = Recorder::new("C14", "verif_c14_sh_recv");
        let only = replay_case();
        let iters: usize = env.pick(400, 2000);
        let n_cases: usize = env.pick(128, 512);
        for idx in 0..n_cases {
            if !env.mine(idx) || only.is_some_and(|c| c != idx) {
                continue;
            }
            let mut r = VRng::new(env.seed ^ 0xC146, idx as u64);
            let sz = *r.choose(&[1usize, 2, 3, 4]);
            let n_complete = r.range(1, 9) as usize;
            let tail = r.below(sz as u64) as usize;
            let data: Vec<u8> = (0..n_complete * sz + tail).map(|k| (k * 17 + 3) as u8).collect();
            let mut chunks = Vec::new();
            let mut left = data.len();
            while left > 0 {
                let c = (r.range(1, 2 * sz as u64 + 1) as usize).min(left);
                chunks.push(c);
                left -= c;
            }
            let cap = r.range(2, 4) as usize;
            let mut reqs: Vec<usize> = (0..n_complete + (r.below(2) as usize)).collect();
            if r.bool() {
                reqs.reverse();
            } else {
                r.shuffle(&mut reqs);
            }
            let desc = json!({"message_size": sz, "stream": hex(&data), "chunks": chunks, "capacity": cap, "requests(spawn order)": reqs});
            let coll: StdArc<StdMutex<(u64, HashSet<u64>)>> = StdArc::new(StdMutex::new((0, HashSet::new())));
            let c2 = StdArc::clone(&coll);
            let (d2, ch2, rq2) = (data.clone(), chunks.clone(), reqs.clone());
            let f = move || {
                let out = with_ws!(sz, N => sh_recv_world::<N>(sz, &d2, &ch2, cap, &rq2));
                let mut bad: Option<Value> = None;
                for (i, o) in &out {
                    let ok = if *i < n_complete { *o == want_out(&d2[i * sz..(i + 1) * sz]) } else { *o == RecvOut::EndOfStream };
                    if !ok && bad.is_none() {
                        bad = Some(json!({"request": i, "got": format!("{o:?}")}));
                    }
                }
                let mut c = c2.lock().unwrap();
                c.0 += 1;
                if let Some(b) = bad {
                    drop(c);
                    panic!("VERIF-ORACLE {b}");
                }
            };
            let mut cfg = shuttle::Config::new();
            cfg.stack_size = 0x40000;
            cfg.silence_warnings = true;
            let seed = env.seed.wrapping_mul(0x9E37_79B9).wrapping_add(idx as u64);
            let res = if idx % 2 == 0 {
                let runner = shuttle::Runner::new(RandomScheduler::new_from_seed(seed, iters), cfg);
                catch(move || runner.run(f))
            } else {
                let runner = shuttle::Runner::new(PctScheduler::new_from_seed(seed, 3, iters), cfg);
                catch(move || runner.run(f))
            };
            let execs = coll.lock().unwrap_or_else(|e| e.into_inner()).0;
            rec.evals(execs);
            rec.add("sh_recv_executions", execs);
            match res {
                Ok(_) => {
                    rec.distinct(&(idx, "recv"));
                    if rec.want_sample() {
                        rec.sample(json!({"receiver_case": desc, "executions": execs}));
                    }
                }
                Err(msg) => {
                    let kind = if msg.contains("VERIF-ORACLE") {
                        "wrong_message"
                    } else if msg.contains("deadlock!") {
                        "stall:deadlock"
                    } else {
                        "panic"
                    };
                    rec.violation(
                        "receive buffer failed under a shuttle schedule",
                        json!({"component": "UnorderedReceiver", "kind": kind, "executor": "shuttle"}),
                        json!({"case": idx, "receiver_case": desc, "scheduler_seed": seed, "iterations": iters,
                               "schedule": extract_schedule(&msg), "message": msg.chars().take(1500).collect::<String>(), "build": "b2"}),
                    );
                }
            }
        }
        rec.finish();
    }
}

// ---------------------------------------------------------------------------------------------
// (D) small workloads on plain std threads + futures::executor (no tokio): the Miri targets.
//     The same workloads run natively in b1 through `verif_c14_small_native_x1`.
//     Hangs are not decided here (the other executors do that); these exist for UB / data-race reports and
//     re-check the functional oracle on whatever interleaving the interpreter or the OS produces.
// ---------------------------------------------------------------------------------------------

#[cfg(not(feature = "shuttle"))]
mod small {
    use super::*;

    fn ring_workload(rec: &mut Recorder) {
        let mut stats = RingStats::default();
        for (k, (cap, ws, rs, ops)) in [
            (3usize, 1usize, 2usize, "WWWTWWTWCTT"),
            (6, 2, 4, "WWWTWWWTWWTCTWT"),
            (5, 5, 5, "WTWTWTWWCCT"),
            (12, 3, 6, "WWWWTWWTWWWTWTCTTT"),
        ]
        .into_iter()
        .enumerate()
        {
            rec.eval();
            let mut ring = Ring::new(cap, ws, rs).expect("valid parameters");
            let mut res = Ok(true);
            for c in ops.chars() {
                res = ring.step(match c {
                    'W' => Op::Write,
                    'T' => Op::Take,
                    _ => Op::Close,
                });
                if res.is_err() {
                    break;
                }
            }
            merge_ring(&mut stats, &ring.stats);
            match res {
                Err(f) => report(rec, f, k, json!({"workload": "ring"})),
                Ok(_) => rec.distinct(&("ring", k)),
            }
        }
        flush_ring_stats(rec, &stats);
    }

    fn deadline() -> std::time::Duration {
        std::time::Duration::from_secs(if cfg!(miri) { 600 } else { 10 })
    }

    /// Join threads, giving up after `deadline()`; `None` = some thread did not finish (threads are leaked).
    fn join_all_timed<T: Send + 'static>(hs: Vec<std::thread::JoinHandle<T>>) -> Option<Vec<T>> {
        let (tx, rx) = std::sync::mpsc::channel();
        let n = hs.len();
        for (k, h) in hs.into_iter().enumerate() {
            let tx = tx.clone();
            std::thread::spawn(move || {
                let _ = tx.send((k, h.join()));
            });
        }
        let end = std::time::Instant::now() + deadline();
        let mut out: Vec<Option<T>> = (0..n).map(|_| None).collect();
        for _ in 0..n {
            let left = end.saturating_duration_since(std::time::Instant::now());
            match rx.recv_timeout(left) {
                Ok((k, Ok(v))) => out[k] = Some(v),
                Ok((_, Err(p))) => std::panic::resume_unwind(p),
                Err(_) => return None,
            }
        }
        Some(out.into_iter().map(Option::unwrap).collect())
    }

    fn thread_world<N: ArrayLength>(case: &SCase) -> (Vec<Ev>, bool, Vec<String>) {
        let sender = CArc::new(case.new_sender());
        let log = Log::default();
        let mut hs = Vec::new();
        for t in &case.spawn_order {
            let (s, l) = (CArc::clone(&sender), log.clone());
            let h = match *t {
                TaskKind::Writer(w) => {
                    let (idxs, joined) = (case.writers[w].clone(), case.joined);
                    std::thread::spawn(move || catch(|| futures::executor::block_on(writer_task::<N>(s, idxs, joined, l))))
                }
                TaskKind::Closer => {
                    let n = case.n;
                    std::thread::spawn(move || catch(|| futures::executor::block_on(closer_task(s, n, l))))
                }
                TaskKind::Reader => {
                    let max_chunks = case.n + 2;
                    std::thread::spawn(move || catch(|| futures::executor::block_on(reader_task(s, l, max_chunks))))
                }
            };
            hs.push(h);
        }
        let res = join_all_timed(hs);
        let finished = res.is_some();
        let panics: Vec<String> = res.unwrap_or_default().into_iter().filter_map(Result::err).collect();
        (log.snapshot(), finished, panics)
    }

    fn sender_workload(rec: &mut Recorder, rounds: usize) {
        let mut st = SStats::default();
        let w = TaskKind::Writer;
        let cases = [
            SCase { ws: 1, cap_units: 1, rs_units: 1, n: 4, writers: vec![vec![0, 2], vec![1, 3]], joined: false,
                    spawn_order: vec![w(1), TaskKind::Closer, w(0), TaskKind::Reader] },
            SCase { ws: 2, cap_units: 2, rs_units: 2, n: 5, writers: vec![vec![4, 0], vec![3, 1], vec![2]], joined: true,
                    spawn_order: vec![TaskKind::Reader, w(2), w(1), w(0), TaskKind::Closer] },
            SCase { ws: 4, cap_units: 3, rs_units: 2, n: 7, writers: vec![vec![0, 1, 5], vec![2, 3, 4, 6]], joined: false,
                    spawn_order: vec![w(0), w(1), TaskKind::Reader, TaskKind::Closer] },
        ];
        for round in 0..rounds {
            for (k, case) in cases.iter().enumerate() {
                rec.eval();
                let (evs, finished, panics) = with_ws!(case.ws, N => thread_world::<N>(case));
                if let Some(p) = panics.first() {
                    rec.violation(
                        "panic inside the send buffer",
                        json!({"component": "OrderingSender", "kind": "panic", "panic": panic_class(p)}),
                        json!({"case": k, "history": case.json(), "executor": "std threads", "panic": p, "trace": trace_text(&evs)}),
                    );
                    flush_sstats(rec, &st);
                    return;
                }
                if !finished {
                    // wall time is not a verdict: try to reproduce deterministically, else inconclusive
                    if let Some(f) = judge(case, &evs, false, &mut SStats::default()) {
                        report(rec, f, k, json!({"workload": "sender on std threads", "history": case.json(), "trace": trace_text(&evs)}));
                    } else if let Some((f, run)) = super::native::reclassify(case, 1) {
                        report(rec, f, k, json!({"workload": "sender on std threads, re-run on the poll scheduler", "history": case.json(),
                               "picks": run.picks, "trace": trace_text(&run.evs), "thread_trace": trace_text(&evs)}));
                    } else {
                        rec.inconclusive(format!("small sender workload {k} did not finish on std threads; partial trace: {}", trace_text(&evs)));
                    }
                    flush_sstats(rec, &st);
                    return;
                }
                match judge(case, &evs, true, &mut st) {
                    Some(f) => report(rec, f, k, json!({"workload": "sender on std threads", "history": case.json(), "trace": trace_text(&evs)})),
                    None => {
                        rec.distinct(&("sender", k, trace_hash(&evs)));
                        if round == 0 && rec.want_sample() {
                            rec.sample(json!({"history": case.json(), "trace": trace_text(&evs)}));
                        }
                    }
                }
            }
        }
        flush_sstats(rec, &st);
    }

    fn recv_thread_world<N: ArrayLength>(data: &[u8], chunks: &[usize], cap: usize, reqs: &[usize]) -> Option<Vec<(usize, RecvOut)>> {
        let (recv, feed) = new_receiver(cap);
        let hs: Vec<_> = reqs
            .iter()
            .map(|&i| {
                let r = recv.clone();
                std::thread::spawn(move || (i, futures::executor::block_on(recv_task::<N>(r, i))))
            })
            .collect();
        let mut o = 0;
        for &c in chunks {
            feed.push(data[o..o + c].to_vec());
            o += c;
            std::thread::yield_now();
        }
        feed.close();
        join_all_timed(hs)
    }

    fn recv_workload(rec: &mut Recorder, rounds: usize) {
        let data: Vec<u8> = (0..13usize).map(|k| (k * 17 + 3) as u8).collect();
        let cases: [(usize, &[usize], usize, &[usize]); 3] = [
            (2, &[1, 4, 3, 5], 2, &[5, 6, 3, 4, 1, 2, 0]),
            (3, &[13], 3, &[3, 2, 1, 0, 4]),
            (4, &[2, 2, 2, 2, 2, 2, 1], 2, &[2, 0, 1, 3]),
        ];
        for _ in 0..rounds {
            for (k, (sz, chunks, cap, reqs)) in cases.iter().enumerate() {
                rec.eval();
                let n_complete = data.len() / sz;
                let out = with_ws!(*sz, N => recv_thread_world::<N>(&data, chunks, *cap, reqs));
                let Some(out) = out else {
                    // wall time is not a verdict: replay the same case on the poll scheduler
                    let case = RCase { sz: *sz, data: data.clone(), chunks: chunks.to_vec(), cap: *cap, reqs: reqs.to_vec(), lifo: false,
                                       script: recv_script(reqs.len(), chunks.len(), 0) };
                    match super::native_recv::recv_run(&case, &mut RStats::default()) {
                        Some(f) => report(rec, f, k, json!({"workload": "receiver on std threads, re-run on the poll scheduler", "receiver_case": case.json()})),
                        None => rec.inconclusive(format!("small receiver workload {k} did not finish on std threads")),
                    }
                    return;
                };
                let mut ok = true;
                for (i, o) in &out {
                    let good = if *i < n_complete { *o == want_out(&data[i * sz..(i + 1) * sz]) } else { *o == RecvOut::EndOfStream };
                    if !good {
                        ok = false;
                        rec.violation(
                            "recv(i) did not return the i-th message of the stream",
                            json!({"component": "UnorderedReceiver", "kind": "wrong_message", "executor": "std threads"}),
                            json!({"case": k, "message_size": sz, "chunks": chunks, "capacity": cap, "requests": reqs, "request": i, "got": format!("{o:?}")}),
                        );
                    }
                }
                if ok {
                    rec.distinct(&("recv", k));
                    rec.add("recv_resolved_ok", out.iter().filter(|(_, o)| matches!(o, RecvOut::Msg(_))).count() as u64);
                }
            }
        }
    }

    #[test]
    fn verif_c14_miri_small_x1() {
        let mut rec = Recorder::new("C14", "verif_c14_miri_small_x1");
        ring_workload(&mut rec);
        sender_workload(&mut rec, 1);
        recv_workload(&mut rec, 1);
        rec.finish();
    }

    #[test]
    fn verif_c14_small_native_x1() {
        let env = vlib::env();
        let mut rec = Recorder::new("C14", "verif_c14_small_native_x1");
        ring_workload(&mut rec);
        sender_workload(&mut rec, env.pick(100, 1000));
        recv_workload(&mut rec, env.pick(100, 1000));
        rec.finish();
    }
}

// ---------------------------------------------------------------------------------------------
// (D) waker identity: one task waiting for several indices, futures that change hands
// ---------------------------------------------------------------------------------------------
//
// The workloads above give every send / receive request its own task, and a task is always polled with the
// same waker. Real callers do neither: `join`, `try_join` and `seq_join` poll several requests of one channel
// with ONE waker, and a future that was polled in place (select!, poll_immediate) and is then moved into
// FuturesUnordered or a spawned task comes back with ANOTHER waker. The contract of `Future::poll` is that
// only the waker of the most recent poll has to be woken. Here a small pool executor gives every task a flag
// waker, lets tasks own several requests, moves pending requests between tasks, and at the end - all data
// fed, everything issued, nothing woken - every request must have completed with its own message.

#[cfg(not(feature = "shuttle"))]
mod wk {
    use std::{
        sync::atomic::{AtomicBool, AtomicU64, Ordering as AO},
        task::Wake,
    };

    use typenum::Unsigned;

    use super::*;

    struct Flag {
        woken: AtomicBool,
        wakes: AtomicU64,
    }

    impl Wake for Flag {
        fn wake(self: StdArc<Self>) {
            self.wake_by_ref();
        }
        fn wake_by_ref(self: &StdArc<Self>) {
            self.woken.store(true, AO::SeqCst);
            self.wakes.fetch_add(1, AO::SeqCst);
        }
    }

    type Fut<T> = Pin<Box<dyn Future<Output = T>>>;

    /// Tasks with flag wakers; every future is owned by one task at a time.
    struct Pool<T> {
        tasks: Vec<(StdArc<Flag>, Waker)>,
        futs: Vec<Option<Fut<T>>>,
        owner: Vec<Option<usize>>,
        /// poll order inside a task (join order)
        prio: Vec<u32>,
        out: Vec<Option<Result<T, String>>>,
        polls: u64,
        moved_while_pending: u64,
        shared_waker_polls: u64,
    }

    impl<T> Pool<T> {
        fn new(n_tasks: usize) -> Self {
            let tasks = (0..n_tasks)
                .map(|_| {
                    let f = StdArc::new(Flag { woken: AtomicBool::new(false), wakes: AtomicU64::new(0) });
                    let w = Waker::from(StdArc::clone(&f));
                    (f, w)
                })
                .collect();
            Pool { tasks, futs: Vec::new(), owner: Vec::new(), prio: Vec::new(), out: Vec::new(), polls: 0, moved_while_pending: 0, shared_waker_polls: 0 }
        }
        fn add(&mut self, f: Fut<T>, prio: u32) -> usize {
            self.futs.push(Some(f));
            self.owner.push(None);
            self.prio.push(prio);
            self.out.push(None);
            self.futs.len() - 1
        }
        fn poll_one(&mut self, k: usize, t: usize) {
            let Some(f) = self.futs[k].as_mut() else { return };
            let w = self.tasks[t].1.clone();
            let mut cx = Context::from_waker(&w);
            self.polls += 1;
            match catch(|| f.as_mut().poll(&mut cx)) {
                Ok(Poll::Pending) => {}
                Ok(Poll::Ready(v)) => {
                    self.out[k] = Some(Ok(v));
                    self.futs[k] = None;
                }
                Err(p) => {
                    self.out[k] = Some(Err(p));
                    self.futs[k] = None;
                }
            }
        }
        /// Poll everything task `t` owns, in join order.
        fn poll_task(&mut self, t: usize) {
            self.tasks[t].0.woken.store(false, AO::SeqCst);
            let mut mine: Vec<usize> = (0..self.futs.len()).filter(|k| self.owner[*k] == Some(t) && self.futs[*k].is_some()).collect();
            mine.sort_by_key(|k| self.prio[*k]);
            if mine.len() > 1 {
                self.shared_waker_polls += 1;
            }
            for k in mine {
                self.poll_one(k, t);
            }
        }
        /// First poll of `k` as part of task `t` (the whole task is polled, as `join` would).
        fn issue(&mut self, k: usize, t: usize) {
            self.owner[k] = Some(t);
            self.poll_task(t);
        }
        /// A pending future is handed to another task and polled there; the old task forgets it.
        fn migrate(&mut self, k: usize, t: usize) {
            if self.futs[k].is_some() && self.owner[k].is_some() && self.owner[k] != Some(t) {
                self.moved_while_pending += 1;
                self.owner[k] = Some(t);
                self.poll_one(k, t);
            }
        }
        fn settle(&mut self, r: &mut VRng) {
            for _ in 0..100_000 {
                let woken: Vec<usize> = (0..self.tasks.len()).filter(|t| self.tasks[*t].0.woken.load(AO::SeqCst)).collect();
                if woken.is_empty() {
                    return;
                }
                let t = *r.choose(&woken);
                self.poll_task(t);
            }
        }
        fn pending(&self) -> Vec<usize> {
            (0..self.futs.len()).filter(|k| self.futs[*k].is_some()).collect()
        }
    }

    #[derive(Default)]
    struct WStats {
        cases: u64,
        polls: u64,
        moved: u64,
        shared: u64,
        requests_completed: u64,
        messages_checked: u64,
    }

    // ---- receiver -------------------------------------------------------------------------------

    fn recv_identity_case<N: ArrayLength>(r: &mut VRng, st: &mut WStats, small: bool) -> Result<String, Finding> {
        let sz = N::USIZE;
        let cap = *r.choose(&[2usize, 3, 4, 4, 5, 6, 8, 8, 16]);
        let n = r.range(2, if small { 10 } else { 40 }) as usize;
        let n_tasks = r.range(1, 4) as usize;
        let mut data: Vec<u8> = (0..n).flat_map(|i| payload(i, sz)).collect();
        if r.below(3) == 0 {
            for i in 0..n {
                if r.below(5) == 0 {
                    data[i * sz] = BAD_RECORD;
                }
            }
        }
        let (recv, feed) = new_receiver(cap);
        let mut pool: Pool<RecvOut> = Pool::new(n_tasks);
        let mut prios: Vec<u32> = (0..n as u32).collect();
        match r.below(3) {
            0 => prios.reverse(), // far requests first
            1 => r.shuffle(&mut prios),
            _ => {}
        }
        for i in 0..n {
            pool.add(Box::pin(recv_task::<N>(recv.clone(), i)), prios[i]);
        }
        let task_of: Vec<usize> = (0..n).map(|_| r.below(n_tasks as u64) as usize).collect();
        // chunks
        let mut chunks: Vec<Vec<u8>> = Vec::new();
        let mut o = 0;
        while o < data.len() {
            let c = (r.range(1, 3 * sz as u64 + 1) as usize).min(data.len() - o);
            chunks.push(data[o..o + c].to_vec());
            o += c;
        }
        let mut issue_order: Vec<usize> = (0..n).collect();
        match r.below(3) {
            0 => issue_order.reverse(),
            1 => r.shuffle(&mut issue_order),
            _ => {}
        }
        let (mut ni, mut nf) = (0usize, 0usize);
        let mut script = Vec::new();
        while ni < n || nf < chunks.len() {
            match r.below(10) {
                0..=3 if ni < n => {
                    let k = issue_order[ni];
                    ni += 1;
                    script.push(format!("issue {k}@t{}", task_of[k]));
                    pool.issue(k, task_of[k]);
                }
                4..=5 if nf < chunks.len() => {
                    script.push(format!("feed {}", chunks[nf].len()));
                    feed.push(chunks[nf].clone());
                    nf += 1;
                }
                6..=7 if ni > 0 && n_tasks > 1 => {
                    let k = issue_order[r.below(ni as u64) as usize];
                    let t = r.below(n_tasks as u64) as usize;
                    script.push(format!("move {k}->t{t}"));
                    pool.migrate(k, t);
                }
                8 => {
                    script.push("settle".into());
                    pool.settle(r);
                }
                _ => {}
            }
        }
        pool.settle(r);
        st.cases += 1;
        st.polls += pool.polls;
        st.moved += pool.moved_while_pending;
        st.shared += pool.shared_waker_polls;
        let geometry = json!({"message_size": sz, "capacity": cap, "requests": n, "tasks": n_tasks});
        for (i, o) in pool.out.iter().enumerate() {
            match o {
                Some(Err(p)) => {
                    return Err(finding("panic inside the receive buffer", json!({"component": "UnorderedReceiver", "kind": "panic", "panic": panic_class(p)}),
                                       json!({"request": i, "panic": p, "geometry": geometry, "script": script})));
                }
                Some(Ok(out)) => {
                    st.requests_completed += 1;
                    st.messages_checked += 1;
                    if *out != want_out(&data[i * sz..(i + 1) * sz]) {
                        return Err(finding("recv(i) did not return the i-th message of the stream",
                                           json!({"component": "UnorderedReceiver", "kind": "wrong_message", "executor": "pool"}),
                                           json!({"request": i, "got": format!("{out:?}"), "geometry": geometry, "script": script})));
                    }
                }
                None => {}
            }
        }
        let pending = pool.pending();
        if !pending.is_empty() {
            return Err(finding(
                "lost wake-up: all bytes were delivered and no task is woken, yet receive requests are still pending (the waker of their latest poll was never woken)",
                json!({"component": "UnorderedReceiver", "kind": "stall", "executor": "pool"}),
                json!({"pending_requests": pending, "owners": pending.iter().map(|k| pool.owner[*k]).collect::<Vec<_>>(), "geometry": geometry, "script": script}),
            ));
        }
        Ok(format!("r/{sz}/{cap}/{n_tasks}/{}", n.min(12)))
    }

    // ---- sender ---------------------------------------------------------------------------------

    fn send_identity_case<N: ArrayLength>(r: &mut VRng, st: &mut WStats, small: bool) -> Result<String, Finding> {
        let ws = N::USIZE;
        let cap_units = r.range(1, 6) as usize;
        let rs_units = r.range(1, cap_units as u64) as usize;
        let n = r.range(2, if small { 8 } else { 30 }) as usize;
        let n_tasks = r.range(1, 4) as usize;
        let sender = CArc::new(OrderingSender::new(
            NonZeroUsize::new(cap_units * ws).unwrap(),
            NonZeroUsize::new(ws).unwrap(),
            NonZeroUsize::new(rs_units * ws).unwrap(),
        ));
        // futures 0..n: sends, n: close, n+1: reader
        let mut pool: Pool<Vec<u8>> = Pool::new(n_tasks + 1);
        let reader_task = n_tasks;
        let mut prios: Vec<u32> = (0..=n as u32).collect();
        match r.below(3) {
            0 => prios.reverse(),
            1 => r.shuffle(&mut prios),
            _ => {}
        }
        for i in 0..n {
            let s = CArc::clone(&sender);
            pool.add(Box::pin(async move {
                s.send::<Msg<N>, Msg<N>>(i, mk_msg::<N>(i)).await;
                Vec::new()
            }), prios[i]);
        }
        {
            let s = CArc::clone(&sender);
            pool.add(Box::pin(async move {
                s.close(n).await;
                Vec::new()
            }), prios[n]);
        }
        {
            let s = CArc::clone(&sender);
            let max_chunks = n + 2;
            pool.add(Box::pin(async move {
                let mut all = Vec::new();
                for _ in 0..=max_chunks {
                    match poll_fn(|cx| s.take_next(cx)).await {
                        Some(v) => all.extend_from_slice(&v),
                        None => break,
                    }
                }
                all
            }), 0);
        }
        let reader = n + 1;
        let task_of: Vec<usize> = (0..=n).map(|_| r.below(n_tasks as u64) as usize).collect();
        let mut issue_order: Vec<usize> = (0..=n).collect();
        match r.below(3) {
            0 => issue_order.reverse(),
            1 => r.shuffle(&mut issue_order),
            _ => {}
        }
        let mut ni = 0usize;
        let mut reader_started = false;
        let mut script = Vec::new();
        let mut guard = 0;
        while ni <= n || !reader_started {
            guard += 1;
            if guard > 10_000 {
                break;
            }
            match r.below(10) {
                0..=3 if ni <= n => {
                    let k = issue_order[ni];
                    ni += 1;
                    script.push(format!("issue {k}@t{}", task_of[k]));
                    pool.issue(k, task_of[k]);
                }
                4 if !reader_started => {
                    reader_started = true;
                    script.push("reader".into());
                    pool.issue(reader, reader_task);
                }
                5..=7 if ni > 0 && n_tasks > 1 => {
                    let k = issue_order[r.below(ni as u64) as usize];
                    let t = r.below(n_tasks as u64) as usize;
                    script.push(format!("move {k}->t{t}"));
                    pool.migrate(k, t);
                }
                8 => {
                    script.push("settle".into());
                    pool.settle(r);
                }
                _ => {}
            }
        }
        pool.settle(r);
        st.cases += 1;
        st.polls += pool.polls;
        st.moved += pool.moved_while_pending;
        st.shared += pool.shared_waker_polls;
        let geometry = json!({"write_size": ws, "capacity": cap_units * ws, "read_size": rs_units * ws, "messages": n, "tasks": n_tasks});
        for (k, o) in pool.out.iter().enumerate() {
            if let Some(Err(p)) = o {
                return Err(finding("panic inside the send buffer", json!({"component": "OrderingSender", "kind": "panic", "panic": panic_class(p)}),
                                   json!({"future": k, "panic": p, "geometry": geometry, "script": script})));
            }
        }
        let pending = pool.pending();
        if !pending.is_empty() {
            return Err(finding(
                "lost wake-up: every send, the close and the reader were started and no task is woken, yet futures are still pending (the waker of their latest poll was never woken)",
                json!({"component": "OrderingSender", "kind": "stall", "executor": "pool"}),
                json!({"pending_futures": pending, "legend": format!("0..{n}: send(i), {n}: close, {}: reader", n + 1),
                       "owners": pending.iter().map(|k| pool.owner[*k]).collect::<Vec<_>>(), "geometry": geometry, "script": script}),
            ));
        }
        st.requests_completed += n as u64 + 2;
        let got = match &pool.out[reader] {
            Some(Ok(v)) => v.clone(),
            _ => Vec::new(),
        };
        let want: Vec<u8> = (0..n).flat_map(|i| payload(i, ws)).collect();
        st.messages_checked += n as u64;
        if got != want {
            return Err(finding(
                "the byte stream is not the concatenation of the messages in index order",
                json!({"component": "OrderingSender", "kind": "stream_mismatch", "executor": "pool"}),
                json!({"got": hex(&got), "want": hex(&want), "geometry": geometry, "script": script}),
            ));
        }
        Ok(format!("s/{ws}/{cap_units}/{rs_units}/{n_tasks}/{}", n.min(12)))
    }

    fn identity_workload(rec: &mut Recorder, seed: u64, cases: usize, small: bool, mine: &dyn Fn(usize) -> bool, only: Option<usize>) {
        let mut st = WStats::default();
        for idx in 0..cases {
            if !mine(idx) || only.is_some_and(|c| c != idx) {
                continue;
            }
            let mut r = VRng::new(seed ^ 0xC14D_0001, idx as u64);
            let sz = *r.choose(&[1usize, 2, 4]);
            rec.eval();
            let res = if idx % 2 == 0 {
                with_ws!(sz, N => recv_identity_case::<N>(&mut r, &mut st, small))
            } else {
                with_ws!(sz, N => send_identity_case::<N>(&mut r, &mut st, small))
            };
            match res {
                Ok(shape) => rec.distinct(&shape),
                Err(f) => report(rec, f, idx, json!({"workload": "waker identity (pool executor)", "component": if idx % 2 == 0 { "UnorderedReceiver" } else { "OrderingSender" }})),
            }
        }
        rec.add("identity_cases", st.cases);
        rec.add("identity_polls", st.polls);
        rec.add("identity_pending_futures_moved_to_another_waker", st.moved);
        rec.add("identity_task_polls_sharing_one_waker", st.shared);
        rec.add("identity_requests_completed", st.requests_completed);
        rec.add("identity_messages_checked", st.messages_checked);
    }

    #[test]
    fn verif_c14_waker_identity() {
        let env = vlib::env();
        let mut rec = Recorder::new("C14", "verif_c14_waker_identity");
        let cases = env.pick(8000, 120_000);
        identity_workload(&mut rec, env.seed, cases, false, &|i| env.mine(i), replay_case());
        rec.sample(json!({"workload": "waker identity", "cases": cases}));
        rec.finish();
    }

    #[test]
    fn verif_c14_miri_waker_identity_x1() {
        let env = vlib::env();
        let mut rec = Recorder::new("C14", "verif_c14_miri_waker_identity_x1");
        identity_workload(&mut rec, env.seed, 12, true, &|_| true, None);
        rec.sample(json!({"workload": "waker identity under miri", "cases": 12}));
        rec.finish();
    }
}

// ---------------------------------------------------------------------------------------------
// (E) upstream failure: the byte stream reports an error and (unlike a well-behaved stream) keeps producing
// ---------------------------------------------------------------------------------------------
//
// The gateway reads a channel through `LogErrors(transport stream)` -> `UnorderedReceiver`. When the transport
// reports an error for one chunk, that chunk's bytes are gone; records are located by byte offset only, so nothing
// that arrives afterwards may be handed out: the first record that is not complete before the error fails with
// EndOfStream, later ones fail or stay pending, and no request ever returns bytes from behind the gap.

#[cfg(not(feature = "shuttle"))]
mod upstream {
    use typenum::Unsigned;

    use super::*;
    use crate::{helpers::LogErrors, verif::vlib::{Manual, catch_fut}};

    struct ResStream {
        items: VecDeque<Result<Vec<u8>, std::io::Error>>,
    }

    impl Stream for ResStream {
        type Item = Result<Vec<u8>, std::io::Error>;
        fn poll_next(mut self: Pin<&mut Self>, _cx: &mut Context<'_>) -> Poll<Option<Self::Item>> {
            Poll::Ready(self.items.pop_front())
        }
    }

    type Recv = UnorderedReceiver<LogErrors<ResStream, Vec<u8>, std::io::Error>, Vec<u8>>;

    async fn task<N: ArrayLength>(r: Recv, i: usize) -> RecvOut {
        match r.recv::<RMsg<N>, usize>(i).await {
            Ok(m) => RecvOut::Msg(m.0.to_vec()),
            Err(RecvError::EndOfStream(_)) => RecvOut::EndOfStream,
            Err(RecvError::DeserializeFailed(_)) => RecvOut::Deserialize,
        }
    }

    fn one_case<N: ArrayLength>(r: &mut VRng, idx: usize) -> Result<(String, u64, u64), Finding> {
        let sz = N::USIZE;
        let n = r.range(1, 14) as usize;
        let mut data = r.bytes(n * sz);
        if idx % 4 == 3 {
            for i in 0..n {
                if r.below(6) == 0 {
                    data[i * sz] = BAD_RECORD;
                }
            }
        }
        let mut chunks: Vec<Vec<u8>> = Vec::new();
        let mut o = 0;
        while o < data.len() {
            let c = (r.range(1, 3 * sz as u64 + 1) as usize).min(data.len() - o);
            chunks.push(data[o..o + c].to_vec());
            o += c;
        }
        // the error replaces chunk `e` (its bytes are lost) or, for e == chunks.len(), follows the last chunk
        let e = r.below(chunks.len() as u64 + 1) as usize;
        let before: usize = chunks[..e].iter().map(Vec::len).sum();
        let mut items: VecDeque<Result<Vec<u8>, std::io::Error>> = VecDeque::new();
        for (k, c) in chunks.iter().enumerate() {
            if k == e {
                items.push_back(Err(std::io::Error::new(std::io::ErrorKind::ConnectionReset, "connection reset by peer")));
                if r.bool() {
                    continue; // the failed chunk is lost; otherwise the transport re-delivers it after the error
                }
            }
            items.push_back(Ok(c.clone()));
        }
        if e == chunks.len() {
            items.push_back(Err(std::io::Error::new(std::io::ErrorKind::ConnectionReset, "connection reset by peer")));
        }
        let cap = r.range(2, 8) as usize;
        let recv: Recv = UnorderedReceiver::new(Box::pin(LogErrors::new(ResStream { items })), NonZeroUsize::new(cap).unwrap());
        let mut order: Vec<usize> = (0..n).collect();
        for w in order.chunks_mut(cap) {
            r.shuffle(w);
        }
        let mut m: Manual<'static, Result<RecvOut, String>> = Manual::new();
        for i in &order {
            m.spawn(catch_fut(task::<N>(recv.clone(), *i)));
        }
        let mut pick = |ready: &[usize]| (ready.len() - 1).min(1);
        m.run(&mut pick, 100_000);
        let complete_before = before / sz;
        let geometry = json!({"message_size": sz, "records": n, "chunks": chunks.iter().map(Vec::len).collect::<Vec<_>>(), "error_at_chunk": e,
                              "bytes_before_error": before, "capacity": cap, "request_order": order});
        let (mut delivered, mut refused) = (0u64, 0u64);
        for (t, i) in order.iter().enumerate() {
            let want_bytes = &data[i * sz..(i + 1) * sz];
            match m.result(t) {
                Some(Err(p)) => {
                    return Err(finding("panic inside the receive buffer", json!({"component": "UnorderedReceiver", "kind": "panic", "panic": panic_class(p)}),
                                       json!({"request": i, "panic": p, "geometry": geometry})));
                }
                Some(Ok(out)) if *i < complete_before => {
                    if *out != want_out(want_bytes) {
                        return Err(finding("a record that arrived completely before the upstream error was not delivered to its request",
                                           json!({"component": "UnorderedReceiver+LogErrors", "kind": "record_before_error_lost"}),
                                           json!({"request": i, "got": format!("{out:?}"), "geometry": geometry})));
                    }
                    delivered += 1;
                }
                Some(Ok(out)) => {
                    if matches!(out, RecvOut::Msg(_) | RecvOut::Deserialize) {
                        return Err(finding("bytes from behind an upstream error were handed out as a record",
                                           json!({"component": "UnorderedReceiver+LogErrors", "kind": "data_after_error_delivered"}),
                                           json!({"request": i, "got": format!("{out:?}"), "sent_for_this_record": hex(want_bytes), "geometry": geometry})));
                    }
                    refused += 1;
                }
                None => {
                    if *i < complete_before {
                        return Err(finding("quiescent although the data for a pending request has arrived (lost wake-up)",
                                           json!({"component": "UnorderedReceiver+LogErrors", "kind": "stall"}),
                                           json!({"request": i, "geometry": geometry})));
                    }
                    refused += 1;
                }
            }
        }
        Ok((format!("{sz}/{n}/{}/{e}/{cap}", chunks.len()), delivered, refused))
    }

    #[test]
    fn verif_c14_recv_upstream_error() {
        let env = vlib::env();
        let mut rec = Recorder::new("C14", "verif_c14_recv_upstream_error");
        let only = replay_case();
        let cases = env.pick(8000, 160_000);
        for idx in 0..cases {
            if !env.mine(idx) || only.is_some_and(|c| c != idx) {
                continue;
            }
            let mut r = VRng::new(env.seed ^ 0xC14E_0E01, idx as u64);
            let sz = *r.choose(&[1usize, 2, 3, 4]);
            rec.eval();
            let res = with_ws!(sz, N => { let _ = N::USIZE; one_case::<N>(&mut r, idx) });
            match res {
                Ok((shape, delivered, refused)) => {
                    rec.distinct(&shape);
                    rec.add("upstream_error_records_delivered_before_error", delivered);
                    rec.add("upstream_error_records_refused_after_error", refused);
                }
                Err(f) => report(&mut rec, f, idx, json!({"workload": "upstream error followed by more data"})),
            }
        }
        rec.sample(json!({"workload": "upstream error followed by more data", "cases": cases}));
        rec.finish();
    }
}
