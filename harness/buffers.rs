// Included by hook H2 inside `crate::helpers::buffers` (access to private buffer types).
