// Included by hook H2 inside `crate::helpers::buffers` (access to private buffer types).
#[cfg(descriptive_gate)]
pub(crate) mod c14 {
    include!(concat!(env!("IPA_VERIF_DIR"), "/harness/c14.rs"));
}
