// C11 A report submitted twice in one query is rejected wherever the copies land.
//
// Drives the real `Query::execute` (HPKE input, length-delimited stream, decrypt, reshard-by-tag,
// duplicate check) on 3 helpers x S shards. Hook H5 lets the harness end the query right after the
// duplicate check (so a run costs milliseconds); a few runs per tier go without that switch.
// Oracle: the expected shard of each duplicated report is computed independently from the 16
// ciphertext bytes of *that helper's* copy (little-endian mod S).

use std::{
    collections::BTreeSet,
    sync::{Arc, Mutex},
    time::Duration,
};

use futures::future::join_all;
use serde_json::{Value, json};

use super::{
    vlib::{self, Paused, Recorder, VRng, catch_fut},
    wl::{self, Rep},
};
use crate::{
    error::Error,
    ff::boolean_array::{BA3, BA8, BA32, BA64},
    helpers::{
        BodyStream,
        query::{HybridQueryParams, QuerySize},
    },
    hpke::{KeyPair, KeyRegistry},
    query::VerifHybridQuery as HybridQuery,
    report::{
        hybrid::{HybridConversionReport, HybridImpressionReport, HybridReport},
        hybrid_info::{HybridConversionInfo, HybridImpressionInfo},
    },
    test_fixture::{TestWorld, TestWorldConfig, WithShards},
    verif_obs,
};

#[derive(Clone, Debug)]
enum Out {
    /// number of output shares, and the (left,right) shares themselves
    Ok(usize, Vec<(u128, u128)>),
    Duplicate,
    Err(String),
    Panic(String),
    NoOutput,
}
impl Out {
    fn brief(&self) -> String {
        match self {
            Out::Ok(n, _) => format!("ok[{n}]"),
            Out::Duplicate => "DuplicateBytes".into(),
            Out::Err(e) => format!("err:{}", e.chars().take(60).collect::<String>()),
            Out::Panic(e) => format!("panic:{}", e.chars().take(60).collect::<String>()),
            Out::NoOutput => "no_output".into(),
        }
    }
}

/// One helper's encrypted copy of every report (without length prefix).
fn encrypt_all(reports: &[Rep], reg: &KeyRegistry<KeyPair>, r: &mut VRng) -> [Vec<Vec<u8>>; 3] {
    let mut out: [Vec<Vec<u8>>; 3] = Default::default();
    for rep in reports {
        let shares: [HybridReport<BA8, BA3>; 3] = match rep {
            Rep::Imp { mk, bk } => {
                let m = wl::share_ba::<BA64>(u128::from(*mk), r);
                let b = wl::share_ba::<BA8>(u128::from(*bk), r);
                std::array::from_fn(|i| {
                    HybridReport::Impression(HybridImpressionReport { match_key: m[i].clone(), breakdown_key: b[i].clone(), info: HybridImpressionInfo::new(0) })
                })
            }
            Rep::Conv { mk, v } => {
                let m = wl::share_ba::<BA64>(u128::from(*mk), r);
                let b = wl::share_ba::<BA3>(u128::from(*v), r);
                std::array::from_fn(|i| {
                    HybridReport::Conversion(HybridConversionReport {
                        match_key: m[i].clone(),
                        value: b[i].clone(),
                        info: HybridConversionInfo::new(0, "example.com", 1234, 1.0, 2.0).unwrap(),
                    })
                })
            }
        };
        for h in 0..3 {
            out[h].push(shares[h].encrypt(0, reg, r).unwrap());
        }
    }
    out
}

/// independent routing rule: tag = bytes 33..49 of the record (event type, 32-byte encapsulated key, then ciphertext)
fn expected_shard(record: &[u8], shards: usize) -> usize {
    let mut t = [0u8; 16];
    t.copy_from_slice(&record[33..49]);
    (u128::from_le_bytes(t) % shards as u128) as usize
}

#[derive(Clone, Debug)]
struct Case {
    reports: Vec<Rep>,
    shards: usize,
    /// input layout: for every input shard the list of report indices (a duplicated index appears twice)
    layout: Vec<Vec<usize>>,
    world_seed: u64,
    stop_after_dedup: bool,
    mt: bool,
}

type Slots = Arc<Mutex<Vec<Option<Out>>>>;

async fn body<const S: usize>(case: Case, bufs: [Vec<Vec<u8>>; 3], reg: Arc<KeyRegistry<KeyPair>>, slots: Slots) {
    let mut cfg = TestWorldConfig::default();
    cfg.seed = case.world_seed;
    cfg.timeout = None;
    let world = TestWorld::<WithShards<S>>::with_shards(&cfg);
    let ctxs = world.malicious_contexts();
    let mut futs = Vec::new();
    for (role, hctxs) in ctxs.into_iter().enumerate() {
        for (shard, ctx) in hctxs.into_iter().enumerate() {
            let mut body = Vec::new();
            for idx in &case.layout[shard] {
                let rec = &bufs[role][*idx];
                body.extend((rec.len() as u16).to_le_bytes());
                body.extend(rec);
            }
            let size = QuerySize::try_from(case.layout[shard].len().max(1)).unwrap();
            let reg = Arc::clone(&reg);
            let slots = Arc::clone(&slots);
            futs.push(async move {
                let params = HybridQueryParams { with_dp: 0, ..Default::default() };
                let q = HybridQuery::<_, BA32, KeyRegistry<KeyPair>>::new(params, reg);
                let out = match catch_fut(q.execute(ctx, size, BodyStream::from(body))).await {
                    Ok(Ok(v)) => {
                        use crate::{ff::U128Conversions, secret_sharing::replicated::ReplicatedSecretSharing};
                        Out::Ok(v.len(), v.iter().map(|s| (s.left().as_u128(), s.right().as_u128())).collect())
                    }
                    Ok(Err(Error::DuplicateBytes(_))) => Out::Duplicate,
                    Ok(Err(e)) => Out::Err(format!("{e:?}")),
                    Err(p) => Out::Panic(p),
                };
                slots.lock().unwrap()[shard * 3 + role] = Some(out);
            });
        }
    }
    join_all(futs).await;
}

struct RunOut {
    outs: Vec<[Out; 3]>,
    quiescent: bool,
    wall_timeout: bool,
    dedup_passed: BTreeSet<(u64, u64)>, // (role, shard)
}

fn run_s<const S: usize>(case: &Case, bufs: &[Vec<Vec<u8>>; 3], reg: &Arc<KeyRegistry<KeyPair>>) -> RunOut {
    let slots: Slots = Arc::new(Mutex::new(vec![None; S * 3]));
    let _ = verif_obs::drain();
    verif_obs::enable(true, false);
    verif_obs::set_stop_after_dedup(case.stop_after_dedup);
    let b = body::<S>(case.clone(), bufs.clone(), Arc::clone(reg), Arc::clone(&slots));
    let (quiescent, wall_timeout) = if case.mt {
        (false, vlib::run_mt(4, Duration::from_secs(900), b).is_none())
    } else {
        (matches!(vlib::run_paused(Duration::from_secs(60), b), Paused::Quiescent), false)
    };
    verif_obs::set_stop_after_dedup(false);
    let ev = verif_obs::drain();
    verif_obs::enable(false, false);
    let got = slots.lock().unwrap().clone();
    RunOut {
        outs: (0..S).map(|s| std::array::from_fn(|r| got[s * 3 + r].clone().unwrap_or(Out::NoOutput))).collect(),
        quiescent,
        wall_timeout,
        dedup_passed: ev.iter().filter(|e| e.kind == "query:dedup-passed").map(|e| (e.a, e.b)).collect(),
    }
}

fn run(case: &Case, bufs: &[Vec<Vec<u8>>; 3], reg: &Arc<KeyRegistry<KeyPair>>) -> RunOut {
    match case.shards {
        1 => run_s::<1>(case, bufs, reg),
        2 => run_s::<2>(case, bufs, reg),
        3 => run_s::<3>(case, bufs, reg),
        4 => run_s::<4>(case, bufs, reg),
        _ => run_s::<5>(case, bufs, reg),
    }
}

fn judge(rec: &mut Recorder, case: &Case, bufs: &[Vec<Vec<u8>>; 3], out: &RunOut, idx: usize, dups: &[usize]) {
    rec.eval();
    if out.wall_timeout {
        rec.inconclusive(format!("case {idx}: wall-clock guard on the multi-thread runtime"));
        return;
    }
    let witness = || {
        json!({"case": idx, "shards": case.shards, "layout": case.layout, "duplicated_reports": dups, "stop_after_dedup": case.stop_after_dedup,
               "world_seed": case.world_seed,
               "outs": out.outs.iter().map(|o| o.iter().map(Out::brief).collect::<Vec<_>>()).collect::<Vec<_>>(),
               "dedup_passed": out.dedup_passed.iter().collect::<Vec<_>>(), "quiescent": out.quiescent})
    };
    let mut ok = true;
    for h in 0..3 {
        let expect: BTreeSet<usize> = dups.iter().map(|d| expected_shard(&bufs[h][*d], case.shards)).collect();
        for s in 0..case.shards {
            let o = &out.outs[s][h];
            if expect.contains(&s) {
                if !matches!(o, Out::Duplicate) {
                    ok = false;
                    rec.violation(
                        "a report present twice in a helper's input was not rejected with a duplicate error on the shard its tag routes to",
                        json!({"kind": "duplicate_not_rejected", "outcome": o.brief().split(':').next().unwrap_or("").to_string(),
                               "multi_shard": case.shards > 1, "stop_after_dedup": case.stop_after_dedup}),
                        json!({"w": witness(), "helper": h, "shard": s}),
                    );
                }
                if out.dedup_passed.contains(&(h as u64, s as u64)) {
                    ok = false;
                    rec.violation(
                        "the duplicate check passed on the shard that holds both copies",
                        json!({"kind": "dedup_passed_with_duplicates", "multi_shard": case.shards > 1}),
                        json!({"w": witness(), "helper": h, "shard": s}),
                    );
                }
            } else {
                if matches!(o, Out::Duplicate) {
                    ok = false;
                    rec.violation(
                        "a shard without any duplicated tag reported a duplicate",
                        json!({"kind": "false_duplicate", "multi_shard": case.shards > 1, "has_duplicates_elsewhere": !dups.is_empty()}),
                        json!({"w": witness(), "helper": h, "shard": s}),
                    );
                }
                if case.stop_after_dedup && !matches!(o, Out::Ok(..)) {
                    ok = false;
                    rec.violation(
                        "a shard without duplicates did not get past the duplicate check",
                        json!({"kind": "clean_shard_failed", "outcome": o.brief().split(':').next().unwrap_or("").to_string(), "multi_shard": case.shards > 1}),
                        json!({"w": witness(), "helper": h, "shard": s}),
                    );
                }
            }
        }
    }
    if ok {
        rec.count(if dups.is_empty() { "distinct_input_accepted" } else { "duplicate_rejected_on_expected_shards" });
        let placement: Vec<usize> = dups.iter().map(|d| case.layout.iter().filter(|l| l.contains(d)).count()).collect();
        rec.distinct(&(case.shards, &case.layout, dups, case.stop_after_dedup));
        rec.seen("dup_classes", format!("S{}/dups{}/copies_span_input_shards{:?}", case.shards, dups.len(), placement));
    }
}

fn gen_reports(n: usize, r: &mut VRng) -> Vec<Rep> {
    (0..n)
        .map(|i| if i % 2 == 0 { Rep::Imp { mk: 1000 + (i / 2) as u64, bk: r.below(256) as u8 } } else { Rep::Conv { mk: 1000 + (i / 2) as u64, v: r.below(8) as u8 } })
        .collect()
}

#[test]
fn verif_c11_dedup() {
    let env = vlib::env();
    let mut rec = Recorder::new("C11", "verif_c11_dedup");
    let n_cases = env.pick(1600, 8000);
    for idx in 0..n_cases {
        if !env.mine(idx) {
            continue;
        }
        let mut r = VRng::new(env.seed ^ 0xc11, idx as u64);
        let shards = 1 + idx % 5;
        let n = if idx % 7 == 0 { 2 + r.below(39) as usize } else { 2 + r.below(9) as usize };
        let reports = gen_reports(n, &mut r);
        let reg = Arc::new(KeyRegistry::<KeyPair>::random(1, &mut r));
        let bufs = encrypt_all(&reports, &reg, &mut r);
        // base layout: every report once, on a seeded input shard
        let mut layout: Vec<Vec<usize>> = vec![Vec::new(); shards];
        for i in 0..n {
            layout[r.below(shards as u64) as usize].push(i);
        }
        // duplicates: 0 (every 4th case), else 1..3 pairs; copies in the same or another input shard, any position
        let ndup = if idx % 4 == 0 { 0 } else { 1 + r.below(3) as usize };
        let mut dups = Vec::new();
        for _ in 0..ndup {
            let d = r.below(n as u64) as usize;
            if dups.contains(&d) {
                continue;
            }
            dups.push(d);
            let home = layout.iter().position(|l| l.contains(&d)).unwrap();
            let target = if idx % 3 == 0 { home } else { r.below(shards as u64) as usize };
            let pos = r.below(layout[target].len() as u64 + 1) as usize;
            layout[target].insert(pos, d);
        }
        let case = Case { reports, shards, layout, world_seed: env.seed.wrapping_mul(13) + idx as u64, stop_after_dedup: true, mt: idx % 6 == 5 };
        let out = run(&case, &bufs, &reg);
        judge(&mut rec, &case, &bufs, &out, idx, &dups);
        if rec.want_sample() && idx % 11 == 1 {
            rec.sample(json!({"shards": shards, "reports": n, "layout": case.layout, "duplicated": dups,
                              "expected_shard_per_helper": dups.iter().map(|d| (0..3).map(|h| expected_shard(&bufs[h][*d], shards)).collect::<Vec<_>>()).collect::<Vec<_>>(),
                              "outs": out.outs.iter().map(|o| o.iter().map(Out::brief).collect::<Vec<_>>()).collect::<Vec<_>>()}));
        }
    }
    rec.finish();
}

/// Exhaustive positions (i, j) of one duplicate pair for small inputs, all shard counts.
#[test]
fn verif_c11_all_positions() {
    let env = vlib::env();
    let mut rec = Recorder::new("C11", "verif_c11_all_positions");
    let mut idx = 0usize;
    let nmax = env.pick(4, 6);
    for shards in 1..=5usize {
        for n in 2..=nmax {
            for d in 0..n {
                for pos in 0..=n {
                    for split in 0..env.pick(2, 3) {
                        idx += 1;
                        if !env.mine(idx) {
                            continue;
                        }
                        let mut r = VRng::new(env.seed ^ 0xc11a, idx as u64);
                        let reports = gen_reports(n, &mut r);
                        let reg = Arc::new(KeyRegistry::<KeyPair>::random(1, &mut r));
                        let bufs = encrypt_all(&reports, &reg, &mut r);
                        // split 0: all in input shard 0 with the copy at position `pos`; split 1: copy in the last input shard;
                        // split 2: originals round-robin, copy at `pos` of shard pos % shards
                        let mut layout: Vec<Vec<usize>> = vec![Vec::new(); shards];
                        match split {
                            0 => {
                                layout[0] = (0..n).collect();
                                layout[0].insert(pos, d);
                            }
                            1 => {
                                layout[0] = (0..n).collect();
                                layout[shards - 1].push(d);
                            }
                            _ => {
                                for i in 0..n {
                                    layout[i % shards].push(i);
                                }
                                let t = pos % shards;
                                let p = pos.min(layout[t].len());
                                layout[t].insert(p, d);
                            }
                        }
                        let case = Case { reports, shards, layout, world_seed: env.seed.wrapping_mul(17) + idx as u64, stop_after_dedup: true, mt: false };
                        let out = run(&case, &bufs, &reg);
                        judge(&mut rec, &case, &bufs, &out, idx, &[d]);
                    }
                }
            }
        }
    }
    rec.finish();
}

/// A few runs without the early-return switch: the duplicate verdict must be the same, and a distinct input must
/// complete the whole query (ties the H5 switch to the real behaviour).
#[test]
fn verif_c11_full_query_x1() {
    let env = vlib::env();
    let mut rec = Recorder::new("C11", "verif_c11_full_query_x1");
    let runs = env.pick(2, 4);
    for idx in 0..runs {
        let mut r = VRng::new(env.seed ^ 0xc11f, idx as u64);
        let shards = 1 + idx % 2;
        let reports = gen_reports(6, &mut r);
        let reg = Arc::new(KeyRegistry::<KeyPair>::random(1, &mut r));
        let bufs = encrypt_all(&reports, &reg, &mut r);
        let mut layout: Vec<Vec<usize>> = vec![Vec::new(); shards];
        for i in 0..6 {
            layout[i % shards].push(i);
        }
        // runs 0,1: one duplicate; later (thorough) runs: distinct input on one shard, full attribution
        let dups: Vec<usize> = if idx < 2 { vec![2] } else { vec![] };
        if idx < 2 {
            let t = shards - 1;
            layout[t].push(2);
        }
        let shards = if dups.is_empty() { 1 } else { shards };
        if dups.is_empty() {
            layout = vec![(0..6).collect()];
        }
        let case = Case { reports, shards, layout, world_seed: env.seed.wrapping_mul(19) + idx as u64, stop_after_dedup: false, mt: !dups.is_empty() && idx % 2 == 1 && false };
        let out = run(&case, &bufs, &reg);
        judge(&mut rec, &case, &bufs, &out, idx, &dups);
        if dups.is_empty() {
            rec.eval();
            let all_ok = out.outs.iter().all(|o| o.iter().all(|x| matches!(x, Out::Ok(256, _))));
            if all_ok {
                rec.count("full_query_completed");
                // ties the two entry points together: the real Query::execute (HPKE input, stream parsing, reshard by
                // tag, built-in padding) must give the same histogram as the plaintext reference (C01's oracle)
                if let [Out::Ok(_, a), Out::Ok(_, b), Out::Ok(_, c)] = &out.outs[0] {
                    let want = wl::reference_histogram(&case.reports, 32);
                    match wl::reconstruct3([a, b, c]) {
                        Ok(h) if h == want => rec.count("full_query_histogram_equals_reference"),
                        other => rec.violation(
                            "Query::execute returned a histogram different from the plaintext reference",
                            json!({"kind": "full_query_wrong_histogram"}),
                            json!({"case": idx, "got": format!("{other:?}").chars().take(300).collect::<String>()}),
                        ),
                    }
                }
            } else {
                rec.violation(
                    "a query with pairwise distinct reports did not complete",
                    json!({"kind": "distinct_query_failed"}),
                    json!({"case": idx, "outs": out.outs.iter().map(|o| o.iter().map(Out::brief).collect::<Vec<_>>()).collect::<Vec<_>>()}),
                );
            }
        }
        rec.sample(json!({"full_query": true, "shards": case.shards, "duplicated": dups,
                          "outs": out.outs.iter().map(|o| o.iter().map(Out::brief).collect::<Vec<_>>()).collect::<Vec<_>>()}));
    }
    rec.finish();
}

// ---------------------------------------------------------------------------------------------
// the duplicate set itself, against a reference set of full 16-byte tags
// ---------------------------------------------------------------------------------------------

struct RawTag([u8; 16]);
impl crate::report::hybrid::UniqueBytes for RawTag {
    fn unique_bytes(&self) -> [u8; 16] {
        self.0
    }
}

/// Tags built to be "almost equal": a base tag with one byte / one bit changed at any of the 16 positions, equal low or
/// high halves, byte-swapped halves. Ciphertext tags are random, so a full query never produces such neighbours.
fn neighbour_tags(r: &mut VRng) -> Vec<[u8; 16]> {
    let mut base = [0u8; 16];
    base.copy_from_slice(&r.bytes(16));
    let mut v = vec![base];
    for pos in 0..16 {
        let mut t = base;
        t[pos] ^= 1 << r.below(8);
        v.push(t);
    }
    let mut t = base;
    t[8..].copy_from_slice(&r.bytes(8)); // same low half
    v.push(t);
    let mut t = base;
    t[..8].copy_from_slice(&r.bytes(8)); // same high half
    v.push(t);
    let mut t = base;
    t.rotate_left(8);
    v.push(t);
    for _ in 0..r.below(12) {
        let mut t = [0u8; 16];
        t.copy_from_slice(&r.bytes(16));
        v.push(t);
    }
    v.sort_unstable();
    v.dedup();
    v
}

/// `UniqueTagValidator` (check_duplicates in batches of every size, check_duplicate singly) in lock-step with a
/// reference `BTreeSet<[u8; 16]>`: an input is refused iff it repeats a tag of the same batch or of an earlier one.
#[test]
fn verif_c11_tag_set_model() {
    use crate::report::hybrid::UniqueTagValidator;
    let env = vlib::env();
    let mut rec = Recorder::new("C11", "verif_c11_tag_set_model");
    let n_cases = env.pick(20_000, 400_000);
    for idx in 0..n_cases {
        if !env.mine(idx) {
            continue;
        }
        let mut r = VRng::new(env.seed ^ 0xc11d, idx as u64);
        let pool = neighbour_tags(&mut r);
        let mut reference: BTreeSet<[u8; 16]> = BTreeSet::new();
        let mut val = UniqueTagValidator::new(pool.len());
        let with_dup = idx % 3 != 0;
        let n_batches = 1 + r.below(4) as usize;
        let mut order: Vec<usize> = (0..pool.len()).collect();
        r.shuffle(&mut order);
        let mut next = 0usize;
        let mut history: Vec<Vec<String>> = Vec::new();
        for b in 0..n_batches {
            let size = (r.below(9) as usize).min(pool.len() - next);
            let mut batch: Vec<[u8; 16]> = order[next..next + size].iter().map(|i| pool[*i]).collect();
            next += size;
            let last = b + 1 == n_batches;
            let mut expect_dup = false;
            if with_dup && last {
                // one repeated tag: of this batch or of an earlier one, inserted at any position
                let candidates: Vec<[u8; 16]> = reference.iter().copied().chain(batch.iter().copied()).collect();
                if !candidates.is_empty() {
                    let t = *r.choose(&candidates);
                    let pos = r.below(batch.len() as u64 + 1) as usize;
                    batch.insert(pos, t);
                    expect_dup = true;
                }
            }
            history.push(batch.iter().map(|t| vlib::hex(t)).collect());
            let items: Vec<RawTag> = batch.iter().map(|t| RawTag(*t)).collect();
            let single = items.len() == 1 && r.bool();
            rec.eval();
            let got = vlib::catch(|| if single { val.check_duplicate(&items[0]) } else { val.check_duplicates(&items) });
            let kind = match (&got, expect_dup) {
                (Ok(Ok(())), false) | (Ok(Err(_)), true) => None,
                (Ok(Ok(())), true) => Some("duplicate_tag_accepted"),
                (Ok(Err(_)), false) => Some("distinct_tags_rejected"),
                (Err(_), _) => Some("panic"),
            };
            if let Some(kind) = kind {
                let sorted_rank_parity = if expect_dup {
                    let mut s = batch.clone();
                    s.sort_unstable();
                    s.windows(2).position(|w| w[0] == w[1]).map(|p| p % 2)
                } else {
                    None
                };
                rec.violation(
                    "the duplicate set disagrees with a reference set of full 16-byte tags",
                    json!({"kind": kind, "api": if single { "check_duplicate" } else { "check_duplicates" }}),
                    json!({"case": idx, "batches": history, "rank_parity_of_repeated_tag_in_sorted_batch": sorted_rank_parity}),
                );
                break;
            }
            if expect_dup {
                rec.count("tag_set_duplicates_rejected");
                break; // the validator's state after an error is not specified
            }
            rec.count("tag_set_distinct_batches_accepted");
            rec.add("tag_set_near_equal_tags_accepted", batch.len() as u64);
            reference.extend(batch.iter().copied());
        }
        rec.distinct(&(pool.len(), n_batches, with_dup, idx % 64));
        if rec.want_sample() && idx % 997 == 5 {
            rec.sample(json!({"case": idx, "batches": history, "ends_with_duplicate": with_dup}));
        }
    }
    rec.finish();
}
