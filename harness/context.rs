// Included by hook H3 inside `crate::protocol::context` (access to Batcher).
#[cfg(descriptive_gate)]
pub(crate) mod c16 {
    include!(concat!(env!("IPA_VERIF_DIR"), "/harness/c16.rs"));
}
