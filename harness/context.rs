// Included by hook H3 inside `crate::protocol::context` (access to Batcher / Batch).
