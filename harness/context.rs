// Included by hook H3 inside `crate::protocol::context` (access to Batcher / Batch).
pub(crate) mod c16 {
    include!(concat!(env!("IPA_VERIF_DIR"), "/harness/c16.rs"));
}
pub(crate) mod c03 {
    include!(concat!(env!("IPA_VERIF_DIR"), "/harness/c03.rs"));
}
