// C10 Encrypted reports decrypt only if untouched; bad input never crashes a helper.
//
// Monitors: (1) round-trip equality of decrypt(encrypt(r)) with the original, (2) every single-bit
// flip / truncation / wrong key must yield Err (an Ok is a violation), (3) *any* panic while
// parsing / decrypting attacker-controlled bytes is a violation (caught with catch_unwind, the
// offending bytes are the witness), (4) the same through the production input pipeline
// LengthDelimitedStream -> try_from -> decrypt.

use std::sync::Arc;

use bytes::Bytes;
use futures::{StreamExt, TryStreamExt};
use serde_json::json;

use super::vlib::{self, Recorder, VRng, catch, hex};
use crate::{
    error::BoxError,
    ff::boolean_array::{BA3, BA8, BA64},
    helpers::{BodyStream, LengthDelimitedStream},
    hpke::{KeyPair, KeyRegistry},
    report::{
        hybrid::{EncryptedHybridReport, HybridConversionReport, HybridImpressionReport, HybridReport},
        hybrid_info::{HybridConversionInfo, HybridImpressionInfo},
    },
    secret_sharing::replicated::{ReplicatedSecretSharing, semi_honest::AdditiveShare},
};

type Enc = EncryptedHybridReport<BA8, BA3>;
type Rep = HybridReport<BA8, BA3>;

const N_KEYS: usize = 3;

fn ba64(r: &mut VRng) -> BA64 {
    use crate::ff::U128Conversions;
    BA64::truncate_from(r.u128())
}
fn ba8(r: &mut VRng) -> BA8 {
    use crate::ff::U128Conversions;
    BA8::truncate_from(r.u128())
}
fn ba3(r: &mut VRng) -> BA3 {
    use crate::ff::U128Conversions;
    BA3::truncate_from(r.u128())
}

const DOMAIN_LENS: &[usize] = &[0, 1, 2, 24, 63, 255];
const TIMESTAMPS: &[u64] = &[0, 1, 1_234_567, u64::MAX];
fn floats() -> Vec<f64> {
    vec![0.0, -0.0, 1.151, f64::MIN_POSITIVE / 4.0, f64::INFINITY, f64::NAN, -3.5]
}

/// Deterministic report #idx. Even idx = impression, odd = conversion; metadata classes rotate.
fn make_report(idx: usize, r: &mut VRng) -> (Rep, u8, serde_json::Value) {
    let key_id = (idx % N_KEYS) as u8;
    if idx % 2 == 0 {
        let rep = HybridReport::Impression(HybridImpressionReport::<BA8> {
            match_key: AdditiveShare::new(ba64(r), ba64(r)),
            breakdown_key: AdditiveShare::new(ba8(r), ba8(r)),
            info: HybridImpressionInfo::new(key_id),
        });
        (rep, key_id, json!({"kind": "impression", "key_id": key_id}))
    } else {
        let k = idx / 2;
        let dl = DOMAIN_LENS[k % DOMAIN_LENS.len()];
        let ts = TIMESTAMPS[(k / DOMAIN_LENS.len()) % TIMESTAMPS.len()];
        let fl = floats();
        let eps = fl[(k / 3) % fl.len()];
        let sens = fl[(k / 5) % fl.len()];
        // printable ascii plus the characters adjacent to NUL (0x01) and DEL (0x7f)
        let domain: String = (0..dl)
            .map(|i| match (i + k) % 17 {
                0 => '\u{1}',
                1 => '\u{7f}',
                _ => (b'a' + ((r.next() % 26) as u8)) as char,
            })
            .collect();
        let rep = HybridReport::Conversion(HybridConversionReport::<BA3> {
            match_key: AdditiveShare::new(ba64(r), ba64(r)),
            value: AdditiveShare::new(ba3(r), ba3(r)),
            info: HybridConversionInfo::new(key_id, &domain, ts, eps, sens).unwrap(),
        });
        (
            rep,
            key_id,
            json!({"kind": "conversion", "key_id": key_id, "domain_len": dl, "ts": ts,
                   "eps_bits": format!("{:x}", eps.to_bits()), "sens_bits": format!("{:x}", sens.to_bits())}),
        )
    }
}

/// Equality that treats float metadata bit-wise (NaN == NaN when the bits agree).
fn same_report(a: &Rep, b: &Rep) -> bool {
    match (a, b) {
        (HybridReport::Impression(x), HybridReport::Impression(y)) => x == y,
        (HybridReport::Conversion(x), HybridReport::Conversion(y)) => {
            x.match_key == y.match_key
                && x.value == y.value
                && x.info.key_id == y.info.key_id
                && x.info.conversion_site_domain == y.info.conversion_site_domain
                && x.info.timestamp == y.info.timestamp
                && x.info.epsilon.to_bits() == y.info.epsilon.to_bits()
                && x.info.sensitivity.to_bits() == y.info.sensitivity.to_bits()
        }
        _ => false,
    }
}

#[derive(Debug)]
enum Outcome {
    ParseErr,
    DecryptErr,
    Ok(Rep),
    Panic(String),
}

/// The code path of a helper for one record: parse, then decrypt. Never lets a panic escape.
fn parse_and_decrypt(bytes: &[u8], reg: &KeyRegistry<KeyPair>) -> Outcome {
    let b = Bytes::copy_from_slice(bytes);
    match catch(|| Enc::try_from(b)) {
        Err(p) => Outcome::Panic(format!("try_from: {p}")),
        Ok(Err(_)) => Outcome::ParseErr,
        Ok(Ok(enc)) => match catch(|| enc.decrypt(reg)) {
            Err(p) => Outcome::Panic(format!("decrypt: {p}")),
            Ok(Err(_)) => Outcome::DecryptErr,
            Ok(Ok(r)) => Outcome::Ok(r),
        },
    }
}

/// Region name of byte `off` in an encrypted record for BA8/BA3 (both kinds share one layout).
fn region(off: usize, len: usize) -> &'static str {
    // event(1) | encap_mk(32) | ct_mk(16)+tag(16) | encap_btt(32) | ct_btt(2)+tag(16) | key_id(1) | info..
    match off {
        0 => "event_type",
        1..=32 => "encap_key_mk",
        33..=48 => "ciphertext_mk",
        49..=64 => "tag_mk",
        65..=96 => "encap_key_btt",
        97..=98 => "ciphertext_btt",
        99..=114 => "tag_btt",
        115 => "key_id",
        _ if off < len => "info",
        _ => "beyond",
    }
}

fn panic_class(msg: &str) -> String {
    // stable class of a panic message (numbers stripped) for known-finding signatures
    let mut s: String = msg.chars().map(|c| if c.is_ascii_digit() { '#' } else { c }).collect();
    while s.contains("##") {
        s = s.replace("##", "#");
    }
    s.truncate(90);
    s
}

fn registry(seed: u64) -> KeyRegistry<KeyPair> {
    let mut r = VRng::new(seed, 0xC10);
    KeyRegistry::<KeyPair>::random(N_KEYS, &mut r)
}

fn replay_case() -> Option<usize> {
    let p = vlib::env().replay?;
    let w: serde_json::Value = serde_json::from_str(&std::fs::read_to_string(p).ok()?).ok()?;
    w["witness"]["case"].as_u64().map(|v| v as usize)
}

#[test]
fn verif_c10_bitflip_truncate() {
    let env = vlib::env();
    let mut rec = Recorder::new("C10", "verif_c10_bitflip_truncate");
    let reg = registry(env.seed);
    let other = registry(env.seed ^ 0xdead_beef);
    let cases = env.pick(128, 640);
    let only = replay_case();
    for idx in 0..cases {
        if !env.mine(idx) || only.is_some_and(|c| c != idx) {
            continue;
        }
        let mut r = VRng::new(env.seed, idx as u64);
        let (rep, key_id, desc) = make_report(idx, &mut r);
        let enc = rep.encrypt(key_id, &reg, &mut r).unwrap();
        let kind = desc["kind"].as_str().unwrap().to_string();
        rec.seen("report_kinds", format!("{kind}/dl={}", desc["domain_len"]));

        // (1) untouched record decrypts to the original
        rec.eval();
        match parse_and_decrypt(&enc, &reg) {
            Outcome::Ok(back) if same_report(&back, &rep) => rec.count("roundtrip_ok"),
            o => rec.violation(
                "untouched encrypted report does not decrypt to the original",
                json!({"kind": "roundtrip", "report": kind, "outcome": format!("{o:?}").chars().take(60).collect::<String>()}),
                json!({"case": idx, "desc": desc, "record": hex(&enc)}),
            ),
        }
        // (2) wrong key (same key id, different registry) must fail
        rec.eval();
        match parse_and_decrypt(&enc, &other) {
            Outcome::DecryptErr => rec.count("wrong_key_rejected"),
            o => rec.violation(
                "decryption under a different private key did not fail",
                json!({"kind": "wrong_key", "report": kind, "outcome": format!("{o:?}").chars().take(40).collect::<String>()}),
                json!({"case": idx, "desc": desc, "record": hex(&enc)}),
            ),
        }
        // (3) every single-bit flip at every offset
        for off in 0..enc.len() {
            for bit in 0..8 {
                let mut m = enc.clone();
                m[off] ^= 1 << bit;
                rec.eval();
                let reg_name = region(off, enc.len());
                match parse_and_decrypt(&m, &reg) {
                    Outcome::ParseErr | Outcome::DecryptErr => {
                        rec.count("bitflip_rejected");
                        rec.distinct(&(kind.as_str(), reg_name, off.min(140), bit));
                    }
                    Outcome::Ok(back) => rec.violation(
                        "a record with one flipped bit decrypted successfully",
                        json!({"kind": "bitflip_accepted", "report": kind, "region": reg_name,
                               "same_as_original": same_report(&back, &rep)}),
                        json!({"case": idx, "desc": desc, "offset": off, "bit": bit, "record": hex(&m)}),
                    ),
                    Outcome::Panic(p) => rec.violation(
                        "panic while parsing/decrypting a record with one flipped bit",
                        json!({"kind": "panic", "input": "bitflip", "report": kind, "region": reg_name,
                               "panic": panic_class(&p)}),
                        json!({"case": idx, "desc": desc, "offset": off, "bit": bit, "record": hex(&m), "panic": p}),
                    ),
                }
            }
        }
        // (4) all truncations: Err, never panic, never Ok-with-different-report
        for cut in 0..enc.len() {
            rec.eval();
            match parse_and_decrypt(&enc[..cut], &reg) {
                Outcome::ParseErr | Outcome::DecryptErr => {
                    rec.count("truncation_rejected");
                    rec.distinct(&(kind.as_str(), "trunc", cut.min(140)));
                }
                Outcome::Ok(back) => rec.violation(
                    "a truncated record decrypted successfully",
                    json!({"kind": "truncation_accepted", "report": kind, "same_as_original": same_report(&back, &rep)}),
                    json!({"case": idx, "desc": desc, "cut": cut, "record": hex(&enc[..cut])}),
                ),
                Outcome::Panic(p) => rec.violation(
                    "panic while parsing/decrypting a truncated record",
                    json!({"kind": "panic", "input": "truncation", "report": kind,
                           "region": region(cut, enc.len()), "panic": panic_class(&p)}),
                    json!({"case": idx, "desc": desc, "cut": cut, "record": hex(&enc[..cut]), "panic": p}),
                ),
            }
        }
        // (5) extensions by 1..3 bytes: no panic; if accepted, must be the original report
        for ext in 1..=3usize {
            let mut m = enc.clone();
            m.extend(r.bytes(ext));
            rec.eval();
            match parse_and_decrypt(&m, &reg) {
                Outcome::ParseErr | Outcome::DecryptErr => rec.count("extension_rejected"),
                Outcome::Ok(back) if same_report(&back, &rep) => rec.count("extension_ignored_same_report"),
                Outcome::Ok(_) => rec.violation(
                    "an extended record decrypted to a different report",
                    json!({"kind": "extension_different", "report": kind}),
                    json!({"case": idx, "desc": desc, "record": hex(&m)}),
                ),
                Outcome::Panic(p) => rec.violation(
                    "panic while parsing/decrypting an extended record",
                    json!({"kind": "panic", "input": "extension", "report": kind, "region": "info", "panic": panic_class(&p)}),
                    json!({"case": idx, "desc": desc, "record": hex(&m), "panic": p}),
                ),
            }
        }
        // (6) unknown key id in the record (ids >= N_KEYS) must be an error
        {
            let mut m = enc.clone();
            m[115] = (N_KEYS as u8) + (r.next() % 200) as u8;
            rec.eval();
            match parse_and_decrypt(&m, &reg) {
                Outcome::DecryptErr | Outcome::ParseErr => rec.count("unknown_key_id_rejected"),
                o => rec.violation(
                    "record naming an unknown key id was not rejected with an error",
                    json!({"kind": "unknown_key_id", "report": kind, "outcome": format!("{o:?}").chars().take(40).collect::<String>()}),
                    json!({"case": idx, "desc": desc, "record": hex(&m)}),
                ),
            }
        }
        if rec.want_sample() {
            rec.sample(json!({"case": idx, "desc": desc, "record_len": enc.len(), "bitflips_tried": enc.len() * 8,
                              "truncations_tried": enc.len()}));
        }
    }
    rec.finish();
}

#[test]
fn verif_c10_garbage() {
    let env = vlib::env();
    let mut rec = Recorder::new("C10", "verif_c10_garbage");
    let reg = registry(env.seed);
    let n = env.pick(6_000, 120_000);
    let only = replay_case();
    for idx in 0..n {
        if !env.mine(idx) || only.is_some_and(|c| c != idx) {
            continue;
        }
        let mut r = VRng::new(env.seed ^ 0x6a7b, idx as u64);
        // lengths 0..400 with emphasis on the interesting ones around the fixed layout
        let len = match idx % 8 {
            0 => idx / 8 % 8,
            1 => 110 + (idx / 8 % 16),
            2 => 116 + 25 + (idx / 8 % 6),
            _ => r.below(401) as usize,
        };
        let mut bytes = r.bytes(len);
        if !bytes.is_empty() {
            // make the event type valid most of the time so that parsing goes deep
            match idx % 5 {
                0 => {}
                1 | 2 => bytes[0] = 0,
                _ => bytes[0] = 1,
            }
            if bytes.len() > 115 && idx % 3 != 0 {
                bytes[115] = (idx % N_KEYS) as u8; // known key id => reaches the info parser
            }
            if bytes.len() > 117 && idx % 4 == 0 {
                let p = 116 + (r.below((bytes.len() - 116) as u64) as usize);
                bytes[p] = 0; // a delimiter somewhere in the info
            }
        }
        rec.eval();
        match parse_and_decrypt(&bytes, &reg) {
            Outcome::ParseErr => {
                rec.count("garbage_parse_err");
                rec.distinct(&("g", len, bytes.first().copied()));
            }
            Outcome::DecryptErr => {
                rec.count("garbage_decrypt_err");
                rec.distinct(&("g", len, bytes.first().copied()));
            }
            Outcome::Ok(_) => rec.violation(
                "random bytes decrypted successfully",
                json!({"kind": "garbage_accepted"}),
                json!({"case": idx, "record": hex(&bytes)}),
            ),
            Outcome::Panic(p) => rec.violation(
                "panic while parsing/decrypting arbitrary bytes",
                json!({"kind": "panic", "input": "garbage", "event_type": bytes.first().copied(),
                       "len_class": if len == 0 { "empty" } else if len < 116 { "short" } else { "long" },
                       "panic": panic_class(&p)}),
                json!({"case": idx, "record": hex(&bytes), "panic": p}),
            ),
        }
        if rec.want_sample() && idx % 7 == 3 {
            rec.sample(json!({"case": idx, "len": len, "first_bytes": hex(&bytes[..bytes.len().min(8)])}));
        }
    }
    rec.finish();
}

/// Drive the production input pipeline: body bytes -> LengthDelimitedStream -> try_from -> decrypt.
fn pipeline(body: Vec<u8>, chunk: usize, reg: Arc<KeyRegistry<KeyPair>>) -> Result<Result<usize, String>, String> {
    catch(move || {
        let chunks: Vec<Result<Bytes, BoxError>> = if chunk == 0 {
            vec![Ok(Bytes::from(body))]
        } else {
            body.chunks(chunk).map(|c| Ok(Bytes::copy_from_slice(c))).collect()
        };
        let stream = BodyStream::from_bytes_stream(futures::stream::iter(chunks));
        let fut = async move {
            let mut n = 0usize;
            let mut s = std::pin::pin!(LengthDelimitedStream::<Enc, _>::new(stream));
            while let Some(batch) = s.next().await {
                match batch {
                    Err(e) => return Err(format!("stream: {e}")),
                    Ok(items) => {
                        for it in items {
                            match it.decrypt(reg.as_ref()) {
                                Ok(_) => n += 1,
                                Err(e) => return Err(format!("decrypt: {e}")),
                            }
                        }
                    }
                }
            }
            Ok(n)
        };
        vlib::poll_now(fut).expect("in-memory stream never pends")
    })
}

#[test]
fn verif_c10_stream_pipeline() {
    let env = vlib::env();
    let mut rec = Recorder::new("C10", "verif_c10_stream_pipeline");
    let reg = Arc::new(registry(env.seed));
    let n = env.pick(400, 6000);
    let only = replay_case();
    for idx in 0..n {
        if !env.mine(idx) || only.is_some_and(|c| c != idx) {
            continue;
        }
        let mut r = VRng::new(env.seed ^ 0x5717, idx as u64);
        // a body of 1..5 valid length-prefixed records, then one mutation of the framing
        let nrec = 1 + idx % 5;
        let mut body = Vec::new();
        let mut lens = Vec::new();
        for k in 0..nrec {
            let (rep, key_id, _) = make_report(idx * 7 + k, &mut r);
            let before = body.len();
            rep.delimited_encrypt_to(key_id, reg.as_ref(), &mut r, &mut body).unwrap();
            lens.push(body.len() - before);
        }
        let mutation = idx % 9;
        let mut expect_ok = false;
        let label = match mutation {
            0 => {
                expect_ok = true;
                "valid"
            }
            1 => {
                // a zero-length record in front
                let mut b = vec![0u8, 0u8];
                b.extend(&body);
                body = b;
                "zero_length_record_first"
            }
            2 => {
                body.extend([0u8, 0u8]);
                "zero_length_record_last"
            }
            3 => {
                body.extend([(r.next() % 200) as u8 + 1]);
                "bare_half_length_prefix"
            }
            4 => {
                let cut = r.below(body.len() as u64) as usize;
                body.truncate(cut);
                "truncated_body"
            }
            5 => {
                // length prefix says 1..4 bytes: record far too short
                let l = 1 + (r.below(4) as u16);
                body.extend(l.to_le_bytes());
                body.extend(r.bytes(l as usize));
                "tiny_record"
            }
            6 => {
                // shrink the first record's declared length so that framing shifts
                let l = u16::from_le_bytes([body[0], body[1]]);
                let nl = l - 1 - (r.below(u64::from(l) - 1) as u16);
                body[0..2].copy_from_slice(&nl.to_le_bytes());
                "shifted_framing"
            }
            7 => {
                // (an empty body is a valid input with zero records, so garbage has at least one byte)
                let g = 1 + r.below(300) as usize;
                body = r.bytes(g);
                "garbage_body"
            }
            _ => {
                // record of exactly the minimum length with a valid event type and no info bytes
                let mut b = vec![116u8, 0u8];
                let mut recd = r.bytes(116);
                recd[0] = (idx % 2) as u8;
                recd[115] = 0;
                b.extend(recd);
                body.extend(b);
                "record_without_info"
            }
        };
        let chunk = match idx % 4 {
            0 => 0,
            1 => 1,
            2 => 7,
            _ => 1 + r.below(64) as usize,
        };
        rec.eval();
        rec.seen("framing_mutations", label);
        match pipeline(body.clone(), chunk, Arc::clone(&reg)) {
            Ok(Ok(k)) if expect_ok && k == nrec => {
                rec.count("pipeline_valid_ok");
                rec.distinct(&(label, nrec, chunk.min(9)));
            }
            Ok(Ok(k)) if !expect_ok && mutation != 4 => rec.violation(
                "malformed body accepted by the input pipeline",
                json!({"kind": "pipeline_accepted", "mutation": label}),
                json!({"case": idx, "body": hex(&body), "chunk": chunk, "records": k}),
            ),
            Ok(Ok(k)) => {
                // truncated_body cut exactly on a record boundary: fine, k complete records
                let mut acc = 0usize;
                let boundary = lens.iter().any(|l| {
                    acc += l;
                    acc == body.len()
                }) || body.is_empty();
                if mutation == 4 && boundary && k <= nrec {
                    rec.count("pipeline_truncated_on_boundary_ok");
                } else {
                    rec.violation(
                        "input pipeline returned an unexpected record count",
                        json!({"kind": "pipeline_count", "mutation": label}),
                        json!({"case": idx, "body": hex(&body), "chunk": chunk, "records": k, "expected": nrec}),
                    );
                }
            }
            Ok(Err(e)) if expect_ok => rec.violation(
                "valid body rejected by the input pipeline",
                json!({"kind": "pipeline_rejected_valid"}),
                json!({"case": idx, "body": hex(&body), "chunk": chunk, "error": e}),
            ),
            Ok(Err(_)) => {
                rec.count("pipeline_malformed_err");
                rec.distinct(&(label, nrec, chunk.min(9)));
            }
            Err(p) => rec.violation(
                "panic in the input pipeline on a malformed body",
                json!({"kind": "panic", "input": "stream", "mutation": label, "panic": panic_class(&p)}),
                json!({"case": idx, "body": hex(&body), "chunk": chunk, "panic": p}),
            ),
        }
        if rec.want_sample() && idx % 9 == mutation {
            rec.sample(json!({"case": idx, "mutation": label, "records": nrec, "chunk": chunk, "body_len": body.len()}));
        }
    }
    rec.finish();
}

/// Direct calls of the two metadata parsers on arbitrary bytes (they are `pub`).
#[test]
fn verif_c10_info_parsers() {
    let env = vlib::env();
    let mut rec = Recorder::new("C10", "verif_c10_info_parsers");
    let n = env.pick(4_000, 80_000);
    for idx in 0..n {
        if !env.mine(idx) {
            continue;
        }
        let mut r = VRng::new(env.seed ^ 0x1f0, idx as u64);
        let len = if idx % 3 == 0 { idx / 3 % 40 } else { r.below(80) as usize };
        let mut b = r.bytes(len);
        if !b.is_empty() && idx % 2 == 0 {
            let p = r.below(b.len() as u64) as usize;
            b[p] = 0;
        }
        rec.eval();
        let which = idx % 2;
        let res = if which == 0 {
            catch(|| HybridConversionInfo::from_bytes(&b).map(|_| ()))
        } else {
            catch(|| HybridImpressionInfo::from_bytes(&b).map(|_| ()))
        };
        match res {
            Ok(_) => {
                rec.count("info_parser_total");
                rec.distinct(&(which, len, b.iter().position(|x| *x == 0)));
            }
            Err(p) => rec.violation(
                "panic in a report-metadata parser on arbitrary bytes",
                json!({"kind": "panic", "input": "info_bytes",
                       "parser": if which == 0 { "HybridConversionInfo" } else { "HybridImpressionInfo" },
                       "panic": panic_class(&p)}),
                json!({"case": idx, "bytes": hex(&b), "panic": p}),
            ),
        }
    }
    // a valid conversion info must round-trip through its own bytes
    for (i, dl) in DOMAIN_LENS.iter().enumerate() {
        if !env.mine(i) {
            continue;
        }
        let d: String = "x".repeat(*dl);
        for f in floats() {
            let info = HybridConversionInfo::new(7, &d, 42, f, f).unwrap();
            let back = catch(|| HybridConversionInfo::from_bytes(&info.to_bytes()));
            rec.eval();
            match back {
                Ok(Ok(b))
                    if b.conversion_site_domain == d
                        && b.key_id == 7
                        && b.timestamp == 42
                        && b.epsilon.to_bits() == f.to_bits() =>
                {
                    rec.count("info_roundtrip_ok");
                }
                o => rec.violation(
                    "conversion metadata does not round-trip",
                    json!({"kind": "info_roundtrip"}),
                    json!({"domain_len": dl, "float_bits": format!("{:x}", f.to_bits()), "outcome": format!("{o:?}")}),
                ),
            }
        }
    }
    rec.finish();
}

/// Small workload for the Miri interpreter (also runs natively): metadata parsers and record framing on short inputs.
#[test]
fn verif_c10_miri_parsers_x1() {
    let env = vlib::env();
    let mut rec = Recorder::new("C10", "verif_c10_miri_parsers_x1");
    for idx in 0..300usize {
        let mut r = VRng::new(env.seed ^ 0x3141, idx as u64);
        let len = idx % 45;
        let mut b = r.bytes(len);
        if !b.is_empty() && idx % 2 == 0 {
            let p = r.below(b.len() as u64) as usize;
            b[p] = 0;
        }
        rec.eval();
        let res = if idx % 3 == 0 {
            catch(|| HybridConversionInfo::from_bytes(&b).map(|_| ()).is_ok())
        } else if idx % 3 == 1 {
            catch(|| HybridImpressionInfo::from_bytes(&b).map(|_| ()).is_ok())
        } else {
            catch(|| Enc::try_from(Bytes::copy_from_slice(&b)).is_ok())
        };
        match res {
            Ok(_) => {
                rec.count("miri_parser_calls");
                rec.distinct(&(idx % 3, len));
            }
            Err(p) => rec.violation(
                "panic in a report parser on arbitrary bytes",
                json!({"kind": "panic", "input": "miri_small", "panic": panic_class(&p)}),
                json!({"case": idx, "bytes": hex(&b), "panic": p}),
            ),
        }
    }
    rec.finish();
}
