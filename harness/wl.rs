// World library: three-helper (x S shards) executions of the hybrid protocol with per-helper
// outcome capture, traffic tap / fault injection and the H5 stage log. Used by C01, C02, C06.

use std::{
    collections::BTreeMap,
    sync::{Arc, Mutex},
    time::Duration,
};

use futures::future::join_all;
use serde_json::{Value, json};

use super::vlib::{self, Paused, VRng, catch_fut};
use crate::{
    ff::{
        U128Conversions,
        boolean_array::{BA3, BA8, BA32, BA64, BooleanArray},
    },
    helpers::{
        HelperIdentity, Role,
        in_memory_config::{DynStreamInterceptor, InspectContext},
        query::DpMechanism,
    },
    protocol::{
        hybrid::hybrid_protocol,
        ipa_prf::oprf_padding::{AggregationPadding, OPRFPadding, PaddingParameters},
    },
    report::hybrid::IndistinguishableHybridReport,
    secret_sharing::replicated::{ReplicatedSecretSharing, semi_honest::AdditiveShare},
    sharding::ShardConfiguration,
    test_fixture::{TestWorld, TestWorldConfig, WithShards},
    verif_obs,
};

// ---------------------------------------------------------------------------------------------
// plaintext reports, own three-party sharing, own reconstruction
// ---------------------------------------------------------------------------------------------

#[derive(Clone, Debug, PartialEq, Eq, Hash)]
pub enum Rep {
    Imp { mk: u64, bk: u8 },
    Conv { mk: u64, v: u8 },
}
impl Rep {
    pub fn mk(&self) -> u64 {
        match self {
            Rep::Imp { mk, .. } | Rep::Conv { mk, .. } => *mk,
        }
    }
    pub fn to_json(&self) -> Value {
        match self {
            Rep::Imp { mk, bk } => json!({"i": mk, "bk": bk}),
            Rep::Conv { mk, v } => json!({"c": mk, "v": v}),
        }
    }
    pub fn from_json(v: &Value) -> Rep {
        if let Some(mk) = v.get("i") {
            Rep::Imp { mk: mk.as_u64().unwrap(), bk: v["bk"].as_u64().unwrap() as u8 }
        } else {
            Rep::Conv { mk: v["c"].as_u64().unwrap(), v: v["v"].as_u64().unwrap() as u8 }
        }
    }
}

/// x = s0 ^ s1 ^ s2 ; helper i holds (s_i, s_{i+1}).
pub fn share_ba<T: BooleanArray + U128Conversions>(x: u128, r: &mut VRng) -> [AdditiveShare<T>; 3] {
    let s0 = T::truncate_from(r.u128());
    let s1 = T::truncate_from(r.u128());
    let s2 = T::truncate_from(x) - s0 - s1; // BA subtraction = xor
    [
        AdditiveShare::new(s0, s1),
        AdditiveShare::new(s1, s2),
        AdditiveShare::new(s2, s0),
    ]
}

pub type Row = IndistinguishableHybridReport<BA8, BA3>;

pub fn share_report(rep: &Rep, r: &mut VRng) -> [Row; 3] {
    let (mk, v, bk) = match rep {
        Rep::Imp { mk, bk } => (*mk, 0u8, *bk),
        Rep::Conv { mk, v } => (*mk, *v, 0u8),
    };
    let mks = share_ba::<BA64>(u128::from(mk), r);
    let vs = share_ba::<BA3>(u128::from(v), r);
    let bks = share_ba::<BA8>(u128::from(bk), r);
    let [m0, m1, m2] = mks;
    let [v0, v1, v2] = vs;
    let [b0, b1, b2] = bks;
    [
        Row { match_key: m0, value: v0, breakdown_key: b0 },
        Row { match_key: m1, value: v1, breakdown_key: b1 },
        Row { match_key: m2, value: v2, breakdown_key: b2 },
    ]
}

/// Independent plaintext reference of the hybrid attribution (property C01).
/// value width 3 bits, breakdown width 8 bits, `hv_bits` output width.
pub fn reference_histogram(reports: &[Rep], hv_bits: u32) -> Vec<u128> {
    let mut groups: BTreeMap<u64, Vec<&Rep>> = BTreeMap::new();
    for r in reports {
        groups.entry(r.mk()).or_default().push(r);
    }
    let mut h = vec![0u128; 256];
    for g in groups.values() {
        if g.len() != 2 {
            continue;
        }
        let mut bk = 0u32;
        let mut v = 0u32;
        for r in g {
            match r {
                Rep::Imp { bk: b, .. } => bk += u32::from(*b),
                Rep::Conv { v: x, .. } => v += u32::from(*x),
            }
        }
        h[(bk % 256) as usize] += u128::from(v % 8);
    }
    let max = (1u128 << hv_bits) - 1;
    h.into_iter().map(|x| x.min(max)).collect()
}

// ---------------------------------------------------------------------------------------------
// case description
// ---------------------------------------------------------------------------------------------

#[derive(Clone, Debug)]
pub enum Exec {
    Paused,
    Mt(usize),
}

#[derive(Clone, Debug)]
pub struct HybridCase {
    pub reports: Vec<Rep>,
    /// shard of each report (same for the three helpers)
    pub assign: Vec<usize>,
    pub shards: usize,
    pub malicious: bool,
    pub padding: bool,
    pub hv_bits: u32,
    pub world_seed: u64,
    pub exec: Exec,
}

impl HybridCase {
    pub fn to_json(&self) -> Value {
        json!({
            "reports": self.reports.iter().map(Rep::to_json).collect::<Vec<_>>(),
            "assign": self.assign,
            "shards": self.shards,
            "malicious": self.malicious,
            "padding": self.padding,
            "hv_bits": self.hv_bits,
            "world_seed": self.world_seed,
            "exec": format!("{:?}", self.exec),
        })
    }
    pub fn from_json(v: &Value) -> HybridCase {
        HybridCase {
            reports: v["reports"].as_array().unwrap().iter().map(Rep::from_json).collect(),
            assign: v["assign"].as_array().unwrap().iter().map(|x| x.as_u64().unwrap() as usize).collect(),
            shards: v["shards"].as_u64().unwrap() as usize,
            malicious: v["malicious"].as_bool().unwrap(),
            padding: v["padding"].as_bool().unwrap(),
            hv_bits: v["hv_bits"].as_u64().unwrap() as u32,
            world_seed: v["world_seed"].as_u64().unwrap(),
            exec: if v["exec"].as_str().unwrap_or("Paused").starts_with("Mt") { Exec::Mt(4) } else { Exec::Paused },
        }
    }
    pub fn summary(&self) -> Value {
        json!({
            "n": self.reports.len(), "shards": self.shards, "malicious": self.malicious, "padding": self.padding,
            "hv_bits": self.hv_bits, "world_seed": self.world_seed, "exec": format!("{:?}", self.exec),
            "per_shard": (0..self.shards).map(|s| self.assign.iter().filter(|a| **a == s).count()).collect::<Vec<_>>(),
        })
    }
}

/// small explicit padding parameters => tens of dummies instead of thousands
pub fn small_padding() -> PaddingParameters {
    PaddingParameters {
        aggregation_padding: AggregationPadding::Parameters {
            aggregation_epsilon: 10.0,
            aggregation_delta: 1e-2,
            aggregation_padding_sensitivity: 2,
        },
        oprf_padding: OPRFPadding::Parameters {
            oprf_epsilon: 10.0,
            oprf_delta: 1e-2,
            matchkey_cardinality_cap: 3,
            oprf_padding_sensitivity: 2,
        },
    }
}

// ---------------------------------------------------------------------------------------------
// outcomes
// ---------------------------------------------------------------------------------------------

#[derive(Clone, Debug)]
pub enum HelperOut {
    /// (left, right) per bucket
    Ok(Vec<(u128, u128)>),
    Err(String),
    Panic(String),
    /// the helper future had not finished when the system became quiescent
    NoOutput,
}
impl HelperOut {
    pub fn class(&self) -> &'static str {
        match self {
            HelperOut::Ok(_) => "ok",
            HelperOut::Err(_) => "err",
            HelperOut::Panic(_) => "panic",
            HelperOut::NoOutput => "no_output",
        }
    }
    pub fn brief(&self) -> String {
        match self {
            HelperOut::Ok(v) => format!("ok[{}]", v.len()),
            HelperOut::Err(e) => format!("err:{}", e.chars().take(80).collect::<String>()),
            HelperOut::Panic(e) => format!("panic:{}", e.chars().take(80).collect::<String>()),
            HelperOut::NoOutput => "no_output".into(),
        }
    }
}

#[derive(Clone, Debug)]
pub struct StageEv {
    pub kind: String,
    pub role: u64,
    pub shard: u64,
    pub n: u64,
}

pub struct HybridRun {
    /// outs[shard][role]
    pub outs: Vec<[HelperOut; 3]>,
    pub quiescent: bool,
    pub wall_timeout: bool,
    pub stages: Vec<StageEv>,
}

impl HybridRun {
    /// leader-shard outcome classes, e.g. "ok/ok/ok"
    pub fn leader_classes(&self) -> String {
        self.outs[0].iter().map(HelperOut::class).collect::<Vec<_>>().join("/")
    }
    /// earliest pipeline stage at which some (helper, shard) logged a zero row count
    pub fn first_empty_stage(&self) -> Option<&'static str> {
        for st in ["hybrid:input", "hybrid:shuffled", "hybrid:resharded", "hybrid:pairs", "hybrid:aggregated", "hybrid:agg_shuffled"] {
            if self.stages.iter().any(|e| e.kind == st && e.n == 0) {
                return Some(match st {
                    "hybrid:input" => "input",
                    "hybrid:shuffled" => "shuffled",
                    "hybrid:resharded" => "resharded",
                    "hybrid:pairs" => "pairs",
                    "hybrid:aggregated" => "aggregated",
                    _ => "agg_shuffled",
                });
            }
        }
        None
    }
    /// did every helper on every shard return Ok?
    pub fn all_ok(&self) -> bool {
        self.outs.iter().all(|o| o.iter().all(|h| matches!(h, HelperOut::Ok(_))))
    }
    pub fn stages_json(&self) -> Value {
        let mut m: BTreeMap<String, Vec<u64>> = BTreeMap::new();
        for e in &self.stages {
            m.entry(format!("{}@H{}", e.kind, e.role + 1)).or_default().push(e.n);
        }
        json!(m)
    }
}

/// Reconstruct bucket values from three helpers' (left,right) outputs, checking share consistency
/// (H_i.right == H_{i+1}.left). Err(description) if inconsistent or lengths differ.
pub fn reconstruct3(h: [&Vec<(u128, u128)>; 3]) -> Result<Vec<u128>, String> {
    let n = h[0].len();
    if h[1].len() != n || h[2].len() != n {
        return Err(format!("output lengths differ: {} {} {}", h[0].len(), h[1].len(), h[2].len()));
    }
    let mut out = Vec::with_capacity(n);
    for i in 0..n {
        for k in 0..3 {
            if h[k][i].1 != h[(k + 1) % 3][i].0 {
                return Err(format!("inconsistent sharing at bucket {i}: H{}.right != H{}.left", k + 1, (k + 1) % 3 + 1));
            }
        }
        out.push(h[0][i].0 ^ h[1][i].0 ^ h[2][i].0);
    }
    Ok(out)
}

// ---------------------------------------------------------------------------------------------
// traffic tap / fault plan
// ---------------------------------------------------------------------------------------------

#[derive(Clone, Debug, PartialEq, Eq, Hash, PartialOrd, Ord)]
pub struct ChanKey {
    pub gate: String,
    pub src: u8, // helper 0..2
    pub dst: u8,
    pub shard: u32,
}

#[derive(Clone, Debug)]
pub struct ChunkInfo {
    pub key: ChanKey,
    pub chunk_no: u32,
    pub len: usize,
}

#[derive(Clone, Debug)]
pub enum Pattern {
    FlipBit { byte: usize, bit: u8 },
    FlipLastBit,
    XorFf { byte: usize },
    Zero,
    /// add 1 to the little-endian integer starting at `byte` (wrapping on `width` bytes)
    AddOne { byte: usize, width: usize },
}

#[derive(Clone, Debug)]
pub struct Fault {
    pub key: ChanKey,
    pub chunk_no: u32,
    pub pattern: Pattern,
}

impl Fault {
    pub fn to_json(&self) -> Value {
        json!({"gate": self.key.gate, "src": self.key.src, "dst": self.key.dst, "shard": self.key.shard,
               "chunk": self.chunk_no, "pattern": format!("{:?}", self.pattern)})
    }
}

#[derive(Default)]
pub struct TapState {
    pub chunks: Vec<ChunkInfo>,
    pub counters: BTreeMap<ChanKey, u32>,
    pub fault: Option<Fault>,
    pub fault_applied: Option<(usize, bool)>, // (len, changed)
    pub shard_chunks: u64,
}

fn helper_no(h: HelperIdentity) -> u8 {
    if h == HelperIdentity::ONE {
        0
    } else if h == HelperIdentity::TWO {
        1
    } else {
        2
    }
}

pub fn apply_pattern(p: &Pattern, data: &mut Vec<u8>) -> bool {
    if data.is_empty() {
        return false;
    }
    let before = data.clone();
    match p {
        Pattern::FlipBit { byte, bit } => {
            let i = byte % data.len();
            data[i] ^= 1 << (bit % 8);
        }
        Pattern::FlipLastBit => {
            let i = data.len() - 1;
            data[i] ^= 0x80;
        }
        Pattern::XorFf { byte } => {
            let i = byte % data.len();
            data[i] ^= 0xff;
        }
        Pattern::Zero => {
            for b in data.iter_mut() {
                *b = 0;
            }
        }
        Pattern::AddOne { byte, width } => {
            let w = (*width).max(1).min(data.len());
            let start = (byte % data.len()).min(data.len() - w);
            let mut carry = 1u16;
            for b in &mut data[start..start + w] {
                let s = u16::from(*b) + carry;
                *b = s as u8;
                carry = s >> 8;
                if carry == 0 {
                    break;
                }
            }
        }
    }
    *data != before
}

/// Interceptor recording every MPC chunk (gate, src, dst, shard, chunk#, len) and applying at most
/// one fault. Default role assignment (identity i == role i) is assumed by all harness worlds.
pub fn tap(state: Arc<Mutex<TapState>>) -> DynStreamInterceptor {
    Arc::new(move |ctx: &InspectContext, data: &mut Vec<u8>| {
        let mut st = state.lock().unwrap_or_else(|e| e.into_inner());
        match ctx {
            InspectContext::MpcMessage { shard, source, dest, gate } => {
                let key = ChanKey {
                    gate: gate.as_ref().to_string(),
                    src: helper_no(*source),
                    dst: helper_no(*dest),
                    shard: shard.map(u32::from).unwrap_or(0),
                };
                let c = st.counters.entry(key.clone()).or_insert(0);
                let chunk_no = *c;
                *c += 1;
                st.chunks.push(ChunkInfo { key: key.clone(), chunk_no, len: data.len() });
                let hit = st.fault.as_ref().is_some_and(|f| f.key == key && f.chunk_no == chunk_no);
                if hit && st.fault_applied.is_none() {
                    let pattern = st.fault.as_ref().unwrap().pattern.clone();
                    let changed = apply_pattern(&pattern, data);
                    st.fault_applied = Some((data.len(), changed));
                }
            }
            InspectContext::ShardMessage { .. } => {
                st.shard_chunks += 1;
            }
        }
    })
}

/// `gate` with volatile numeric suffixes normalised, for coverage keys ("bit17" -> "bit*").
pub fn step_family(gate: &str) -> String {
    let mut out = String::with_capacity(gate.len());
    let mut prev_digit = false;
    for ch in gate.chars() {
        if ch.is_ascii_digit() {
            if !prev_digit {
                out.push('*');
            }
            prev_digit = true;
        } else {
            out.push(ch);
            prev_digit = false;
        }
    }
    // drop the per-run unique test gate prefix ("/run-N")
    if let Some(rest) = out.strip_prefix("/run-*") {
        return rest.to_string();
    }
    out
}

// ---------------------------------------------------------------------------------------------
// the runner
// ---------------------------------------------------------------------------------------------

/// set by the PRSS monitor (C06) to keep the draw log on during hybrid runs
pub static PRSS_LOG: std::sync::atomic::AtomicBool = std::sync::atomic::AtomicBool::new(false);

type Slots = Arc<Mutex<Vec<Option<HelperOut>>>>;

fn shares_to_pairs<HV: BooleanArray + U128Conversions>(v: &[AdditiveShare<HV>]) -> Vec<(u128, u128)> {
    v.iter().map(|s| (s.left().as_u128(), s.right().as_u128())).collect()
}

macro_rules! helper_future {
    ($ctx:expr, $rows:expr, $padding:expr, $hv:ty, $slots:expr, $idx:expr) => {{
        let slots: Slots = Arc::clone(&$slots);
        let idx = $idx;
        let ctx = $ctx;
        let rows = $rows;
        let padding = $padding;
        async move {
            let r = catch_fut(hybrid_protocol::<_, BA8, BA3, $hv, 3, 256>(ctx, rows, DpMechanism::NoDp, padding)).await;
            let out = match r {
                Ok(Ok(v)) => HelperOut::Ok(shares_to_pairs::<$hv>(&v)),
                Ok(Err(e)) => HelperOut::Err(format!("{e:?}")),
                Err(p) => HelperOut::Panic(p),
            };
            slots.lock().unwrap()[idx] = Some(out);
        }
    }};
}

async fn world_body<const S: usize>(case: HybridCase, interceptor: Option<DynStreamInterceptor>, slots: Slots) {
    let mut cfg = TestWorldConfig::default();
    cfg.seed = case.world_seed;
    cfg.timeout = None;
    if let Some(i) = interceptor {
        cfg.stream_interceptor = i;
    }
    // the compact step table only knows gates below the protocol's root step
    #[cfg(compact_gate)]
    {
        use ipa_step::StepNarrow;
        cfg.initial_gate = Some(crate::protocol::Gate::default().narrow(&crate::protocol::step::ProtocolStep::Hybrid));
    }
    let world = TestWorld::<WithShards<S>>::with_shards(&cfg);
    // own sharing of the inputs, own distribution over shards
    let mut r = VRng::new(case.world_seed ^ 0x51a4e5, 0);
    let mut per: [Vec<Vec<Row>>; 3] = std::array::from_fn(|_| vec![Vec::new(); S]);
    for (rep, shard) in case.reports.iter().zip(&case.assign) {
        let [a, b, c] = share_report(rep, &mut r);
        per[0][*shard].push(a);
        per[1][*shard].push(b);
        per[2][*shard].push(c);
    }
    let padding = if case.padding { small_padding() } else { PaddingParameters::no_padding() };
    let mut futs: Vec<std::pin::Pin<Box<dyn std::future::Future<Output = ()> + Send + '_>>> = Vec::new();
    if case.malicious {
        let ctxs = world.malicious_contexts();
        for (role, (hctxs, hrows)) in ctxs.into_iter().zip(per).enumerate() {
            for (shard, (ctx, rows)) in hctxs.into_iter().zip(hrows).enumerate() {
                let idx = shard * 3 + role;
                if case.hv_bits == 8 {
                    futs.push(Box::pin(helper_future!(ctx, rows, padding, BA8, slots, idx)));
                } else {
                    futs.push(Box::pin(helper_future!(ctx, rows, padding, BA32, slots, idx)));
                }
            }
        }
    } else {
        let ctxs = world.contexts();
        for (role, (hctxs, hrows)) in ctxs.into_iter().zip(per).enumerate() {
            for (shard, (ctx, rows)) in hctxs.into_iter().zip(hrows).enumerate() {
                let idx = shard * 3 + role;
                if case.hv_bits == 8 {
                    futs.push(Box::pin(helper_future!(ctx, rows, padding, BA8, slots, idx)));
                } else {
                    futs.push(Box::pin(helper_future!(ctx, rows, padding, BA32, slots, idx)));
                }
            }
        }
    }
    join_all(futs).await;
}

#[cfg(not(feature = "shuttle"))]
fn run_s<const S: usize>(case: &HybridCase, interceptor: Option<DynStreamInterceptor>) -> HybridRun {
    let slots: Slots = Arc::new(Mutex::new(vec![None; S * 3]));
    let _ = verif_obs::drain();
    let prss_on = PRSS_LOG.load(std::sync::atomic::Ordering::SeqCst);
    verif_obs::enable(true, prss_on);
    let body = world_body::<S>(case.clone(), interceptor, Arc::clone(&slots));
    let (quiescent, wall_timeout) = match case.exec {
        Exec::Paused => match vlib::run_paused(Duration::from_secs(60), body) {
            Paused::Done(()) => (false, false),
            Paused::Quiescent => (true, false),
        },
        Exec::Mt(w) => match vlib::run_mt(w, Duration::from_secs(240), body) {
            Some(()) => (false, false),
            None => (false, true),
        },
    };
    let events = verif_obs::drain();
    verif_obs::enable(false, prss_on);
    let got = slots.lock().unwrap().clone();
    let mut outs = Vec::with_capacity(S);
    for s in 0..S {
        let o: [HelperOut; 3] = std::array::from_fn(|r| got[s * 3 + r].clone().unwrap_or(HelperOut::NoOutput));
        outs.push(o);
    }
    HybridRun {
        outs,
        quiescent,
        wall_timeout,
        stages: events
            .into_iter()
            .filter(|e| e.kind.starts_with("hybrid:"))
            .map(|e| StageEv { kind: e.kind.to_string(), role: e.a, shard: e.b, n: e.c })
            .collect(),
    }
}

#[cfg(not(feature = "shuttle"))]
pub fn run_hybrid(case: &HybridCase, interceptor: Option<DynStreamInterceptor>) -> HybridRun {
    let run = run_hybrid_once(case, interceptor.clone());
    if run.wall_timeout {
        // a multi-thread run that did not finish within the wall-clock guard is re-run on the paused-clock
        // executor, which decides "never finishes" soundly (quiescence) instead of by time
        let mut c = case.clone();
        c.exec = Exec::Paused;
        return run_hybrid_once(&c, interceptor);
    }
    run
}

#[cfg(not(feature = "shuttle"))]
fn run_hybrid_once(case: &HybridCase, interceptor: Option<DynStreamInterceptor>) -> HybridRun {
    assert_eq!(case.reports.len(), case.assign.len());
    match case.shards {
        1 => run_s::<1>(case, interceptor),
        2 => run_s::<2>(case, interceptor),
        3 => run_s::<3>(case, interceptor),
        5 => run_s::<5>(case, interceptor),
        n => panic!("unsupported shard count {n}"),
    }
}

// ---- shuttle executor (build b2): the same world under shuttle's random / PCT schedulers ----------------------

#[cfg(feature = "shuttle")]
fn shuttle_exec<const S: usize>(case: &HybridCase, runs: &Arc<Mutex<Vec<HybridRun>>>) {
    let slots: Slots = Arc::new(Mutex::new(vec![None; S * 3]));
    let _ = verif_obs::drain();
    verif_obs::enable(true, false);
    crate::shuttle::future::block_on(world_body::<S>(case.clone(), None, Arc::clone(&slots)));
    let events = verif_obs::drain();
    verif_obs::enable(false, false);
    let got = slots.lock().unwrap().clone();
    let outs = (0..S).map(|s| std::array::from_fn(|r| got[s * 3 + r].clone().unwrap_or(HelperOut::NoOutput))).collect();
    runs.lock().unwrap().push(HybridRun {
        outs,
        quiescent: false,
        wall_timeout: false,
        stages: events
            .into_iter()
            .filter(|e| e.kind.starts_with("hybrid:"))
            .map(|e| StageEv { kind: e.kind.to_string(), role: e.a, shard: e.b, n: e.c })
            .collect(),
    });
}

/// Runs `case` under `iterations` shuttle schedules (random, or PCT with depth 3). Returns the observed runs, or
/// Err(panic text) when shuttle itself failed the execution (deadlock report, panic outside the helper futures).
#[cfg(feature = "shuttle")]
pub fn run_hybrid_shuttle(case: &HybridCase, iterations: usize, pct: bool) -> Result<Vec<HybridRun>, String> {
    let runs: Arc<Mutex<Vec<HybridRun>>> = Arc::new(Mutex::new(Vec::new()));
    let r2 = Arc::clone(&runs);
    let c = case.clone();
    let f = move || match c.shards {
        1 => shuttle_exec::<1>(&c, &r2),
        2 => shuttle_exec::<2>(&c, &r2),
        _ => shuttle_exec::<3>(&c, &r2),
    };
    let res = vlib::catch(move || {
        // the hybrid protocol's futures are far larger than shuttle's default 32 KiB continuation stacks
        let mut config = crate::shuttle::Config::new();
        config.stack_size = 64 * 1024 * 1024;
        if pct {
            crate::shuttle::Runner::new(crate::shuttle::scheduler::PctScheduler::new(3, iterations), config).run(f);
        } else {
            crate::shuttle::Runner::new(crate::shuttle::scheduler::RandomScheduler::new(iterations), config).run(f);
        }
    });
    verif_obs::enable(false, false);
    res?;
    Ok(std::mem::take(&mut *runs.lock().unwrap()))
}
