// C17 Byte-stream parsers are independent of chunking and total on arbitrary input.
//
// Oracle: an independent reference parser over the CONTIGUOUS bytes gives (records, Option<error class>)
// where the error (if any) is located right after `records` (k = records.len()). For every chunking of the
// same bytes the implementation must
//   * on success yield exactly the reference records (flattened), nothing lost / duplicated / reordered;
//   * on an error yield a prefix (length <= k; == k for the one-record-per-poll parsers) of the reference
//     records followed by an error of the same class (trailing partial data => WriteZero, T::try_from /
//     deserialisation failure => InvalidData / ParseError, upstream error => propagated, UnexpectedEof);
//   * never panic, never return Pending while the upstream is ready.
// The implementation legitimately drops already-parsed items of the *current batch* when it hits an error
// (DESIGN §6 item 6), hence "prefix" and not "exactly k" for the batching parsers.

use std::{
    cell::RefCell,
    collections::{BTreeMap, HashMap, HashSet, VecDeque},
    convert::Infallible,
    num::NonZeroUsize,
    pin::Pin,
    task::{Context, Poll},
};

use bytes::Bytes;
use futures::{Stream, StreamExt, TryStreamExt};
use generic_array::{ArrayLength, GenericArray};
use serde_json::{Value, json};
use typenum::{U1, U2, U3, U4, U5, U6, U7, U8, Unsigned};

use super::vlib::{self, Recorder, VRng, catch, hex};
use crate::{
    error::{BoxError, Error},
    ff::{
        Fp31, Fp32BitPrime, Fp61BitPrime, Gf3Bit, Gf9Bit, Gf20Bit, Gf40Bit, Serializable,
        boolean_array::{BA8, BA16, BA20, BA32, BA64},
    },
    helpers::{
        BufferedBytesStream, LengthDelimitedStream, RecordsStream, SingleRecordStream,
        stream::{
            Chunk, ChunkData, ExactSizeStream, FixedLength, TryFlattenItersExt, process_slice_by_chunks,
            process_stream_by_chunks,
        },
    },
    secret_sharing::replicated::semi_honest::AdditiveShare,
};

const MARK: u8 = 0xEE;
const UPSTREAM_MARKER: &str = "verif-c17-upstream-error";

// ---------------------------------------------------------------------------------------------
// feed = one way of delivering a byte string: chunk lengths, optional upstream error, Pending
// ---------------------------------------------------------------------------------------------

#[derive(Clone, Debug, PartialEq, Eq, Hash)]
struct Feed {
    /// chunk lengths in order (0 = an empty chunk); they sum to the length of the byte string
    lens: Vec<usize>,
    /// Some(j): the upstream yields an Err item after j chunks (the remaining chunks follow it)
    err_at: Option<usize>,
    /// the upstream returns Pending once before every item (and before the final None)
    pending: bool,
}

impl Feed {
    fn delivered(&self) -> usize {
        match self.err_at {
            Some(j) => self.lens[..j].iter().sum(),
            None => self.lens.iter().sum(),
        }
    }
    fn empties(&self) -> usize {
        self.lens.iter().filter(|l| **l == 0).count()
    }
    fn to_json(&self) -> Value {
        json!({"chunk_lens": self.lens, "err_after_chunks": self.err_at, "pending": self.pending})
    }
}

/// Harness upstream: a queue of items; optionally returns Pending (with a wake) once before each item.
struct Src<I> {
    q: VecDeque<I>,
    pending: bool,
    armed: bool,
}
impl<I> Unpin for Src<I> {}
impl<I> Src<I> {
    fn new(items: impl IntoIterator<Item = I>, pending: bool) -> Self {
        Src { q: items.into_iter().collect(), pending, armed: false }
    }
    /// maximal number of Pending results this source can produce
    fn pending_budget(&self) -> u32 {
        if self.pending { self.q.len() as u32 + 1 } else { 0 }
    }
}
impl<I> Stream for Src<I> {
    type Item = I;
    fn poll_next(mut self: Pin<&mut Self>, cx: &mut Context<'_>) -> Poll<Option<I>> {
        if self.pending && !self.armed {
            self.armed = true;
            cx.waker().wake_by_ref();
            return Poll::Pending;
        }
        self.armed = false;
        Poll::Ready(self.q.pop_front())
    }
}

fn byte_src(bytes: &[u8], feed: &Feed) -> Src<Result<Bytes, BoxError>> {
    let mut q: Vec<Result<Bytes, BoxError>> = Vec::with_capacity(feed.lens.len() + 1);
    let mut off = 0;
    for (i, l) in feed.lens.iter().enumerate() {
        if feed.err_at == Some(i) {
            q.push(Err(UPSTREAM_MARKER.into()));
        }
        q.push(Ok(Bytes::copy_from_slice(&bytes[off..off + l])));
        off += l;
    }
    if feed.err_at == Some(feed.lens.len()) {
        q.push(Err(UPSTREAM_MARKER.into()));
    }
    assert_eq!(off, bytes.len(), "harness: feed does not cover the bytes");
    Src::new(q, feed.pending)
}

/// Poll `s` until it ends, `stop(item)` says so, or it returns more Pendings than the upstream can cause.
/// Returns (items, pendings seen, stuck).
fn drive<S: Stream>(s: S, budget: u32, stop: impl Fn(&S::Item) -> bool) -> (Vec<S::Item>, u32, bool) {
    let mut s = std::pin::pin!(s);
    let waker = futures::task::noop_waker();
    let mut cx = Context::from_waker(&waker);
    let mut out = Vec::new();
    let mut pend = 0u32;
    loop {
        match s.as_mut().poll_next(&mut cx) {
            Poll::Ready(None) => return (out, pend, false),
            Poll::Ready(Some(it)) => {
                let st = stop(&it);
                out.push(it);
                if st {
                    return (out, pend, false);
                }
                // no stream in this harness legitimately yields that many items: never-ending stream
                if out.len() > ITEM_CAP {
                    return (out, pend, true);
                }
            }
            Poll::Pending => {
                pend += 1;
                if pend > budget {
                    return (out, pend, true);
                }
            }
        }
    }
}
const ITEM_CAP: usize = 20_000;

// ---------------------------------------------------------------------------------------------
// observation, reference, verdict
// ---------------------------------------------------------------------------------------------

#[derive(Clone, Copy, Debug, PartialEq, Eq, Hash)]
enum Class {
    Trailing,
    Invalid,
    Upstream,
    Other,
}
impl Class {
    fn name(self) -> &'static str {
        match self {
            Class::Trailing => "trailing_partial_data",
            Class::Invalid => "invalid_record",
            Class::Upstream => "upstream_error",
            Class::Other => "other",
        }
    }
}

#[derive(Clone, Debug, PartialEq, Eq)]
enum End {
    Done,
    Err { class: Class, detail: String, marker: bool },
    Panic(String),
    /// returned Pending more often than the upstream did (would hang under a real executor)
    Stuck,
}

#[derive(Clone, Debug, PartialEq, Eq)]
struct Obs {
    recs: Vec<Vec<u8>>,
    batches: usize,
    max_batch: usize,
    after_err: usize,
    pendings: u32,
    end: End,
}
impl Obs {
    fn new() -> Self {
        Obs { recs: Vec::new(), batches: 0, max_batch: 0, after_err: 0, pendings: 0, end: End::Done }
    }
    fn panic(p: String) -> Self {
        let mut o = Obs::new();
        o.end = End::Panic(p);
        o
    }
    fn push_batch(&mut self, b: Vec<Vec<u8>>) {
        if self.end != End::Done {
            self.after_err += 1;
            return;
        }
        self.batches += 1;
        self.max_batch = self.max_batch.max(b.len());
        self.recs.extend(b);
    }
    fn push_err(&mut self, e: End) {
        if self.end != End::Done {
            self.after_err += 1;
            return;
        }
        self.end = e;
    }
}

fn class_of_io(e: &std::io::Error) -> End {
    let class = match e.kind() {
        std::io::ErrorKind::WriteZero => Class::Trailing,
        std::io::ErrorKind::InvalidData => Class::Invalid,
        std::io::ErrorKind::UnexpectedEof => Class::Upstream,
        _ => Class::Other,
    };
    let msg = e.to_string();
    End::Err { class, detail: format!("io::{:?}", e.kind()), marker: msg.contains(UPSTREAM_MARKER) }
}

fn class_of_crate(e: &Error) -> End {
    match e {
        Error::Io(io) => class_of_io(io),
        Error::ParseError(_) => End::Err { class: Class::Invalid, detail: "Error::ParseError".into(), marker: false },
        other => {
            let mut d = format!("{other:?}");
            d.truncate(40);
            End::Err { class: Class::Other, detail: d, marker: false }
        }
    }
}

/// Result of the reference parser: the records before the error (k = recs.len()) and the error class.
#[derive(Clone, Debug)]
struct Ref {
    recs: Vec<Vec<u8>>,
    err: Option<Class>,
}

fn ref_fixed(bytes: &[u8], size: usize, valid: fn(&[u8]) -> bool, upstream: bool) -> Ref {
    let mut recs = Vec::new();
    let mut off = 0;
    while bytes.len() - off >= size {
        let r = &bytes[off..off + size];
        if !valid(r) {
            return Ref { recs, err: Some(Class::Invalid) };
        }
        recs.push(r.to_vec());
        off += size;
    }
    let err = if upstream {
        Some(Class::Upstream)
    } else if off < bytes.len() {
        Some(Class::Trailing)
    } else {
        None
    };
    Ref { recs, err }
}

fn ref_delimited(bytes: &[u8], fails: fn(&[u8]) -> bool, upstream: bool) -> Ref {
    let mut recs = Vec::new();
    let mut off = 0;
    let incomplete = loop {
        let rest = bytes.len() - off;
        if rest == 0 {
            break false;
        }
        if rest < 2 {
            break true;
        }
        let len = usize::from(bytes[off]) + 256 * usize::from(bytes[off + 1]);
        if rest - 2 < len {
            break true;
        }
        let body = &bytes[off + 2..off + 2 + len];
        if fails(body) {
            return Ref { recs, err: Some(Class::Invalid) };
        }
        recs.push(body.to_vec());
        off += 2 + len;
    };
    let err = if upstream {
        Some(Class::Upstream)
    } else if incomplete {
        Some(Class::Trailing)
    } else {
        None
    };
    Ref { recs, err }
}

fn is_prefix(a: &[Vec<u8>], b: &[Vec<u8>]) -> bool {
    a.len() <= b.len() && a.iter().zip(b).all(|(x, y)| x == y)
}

/// Ok(outcome label) or Err((violation kind, description)).
fn judge(o: &Obs, r: &Ref, exact: bool, fused: bool) -> Result<&'static str, (&'static str, &'static str)> {
    match (&o.end, r.err) {
        (End::Panic(_), _) => Err(("panic", "parser panicked")),
        (End::Stuck, _) => Err(("pending_while_upstream_ready", "parser returned Pending more often than its upstream (would hang)")),
        (End::Done, None) => {
            if o.recs == r.recs {
                Ok("held_all_records")
            } else if o.recs.len() < r.recs.len() {
                Err(("records_lost", "fewer records than encoded in the bytes"))
            } else if o.recs.len() > r.recs.len() {
                Err(("records_extra", "more records than encoded in the bytes (duplicated / invented)"))
            } else {
                let mut a = o.recs.clone();
                let mut b = r.recs.clone();
                a.sort();
                b.sort();
                if a == b {
                    Err(("records_reordered", "same records in a different order"))
                } else {
                    Err(("records_corrupted", "record contents differ from the bytes"))
                }
            }
        }
        (End::Done, Some(Class::Trailing)) => Err(("trailing_data_not_reported", "stream ended cleanly although partial data was left over")),
        (End::Done, Some(Class::Invalid)) => Err(("invalid_record_not_reported", "stream ended cleanly although a record failed to deserialise")),
        (End::Done, Some(_)) => Err(("upstream_error_swallowed", "stream ended cleanly although the upstream yielded an error")),
        (End::Err { .. }, None) => Err(("unexpected_error", "error on a well-formed byte stream")),
        (End::Err { class, marker, .. }, Some(c)) => {
            if *class != c {
                Err(("wrong_error_class", "error of a different class than the reference parser"))
            } else if !is_prefix(&o.recs, &r.recs) {
                Err(("not_a_prefix_before_error", "items yielded before the error are not a prefix of the reference records"))
            } else if exact && o.recs.len() != r.recs.len() {
                Err(("error_at_wrong_record", "one-record-per-poll parser reported the error at a different record"))
            } else if c == Class::Upstream && !*marker {
                Err(("upstream_error_not_propagated", "upstream error was replaced, its message is gone"))
            } else if fused && o.after_err > 0 {
                Err(("items_after_error", "stream documented to end after the first error kept yielding"))
            } else {
                Ok(match c {
                    Class::Trailing => "held_err_trailing_partial_data",
                    Class::Invalid => "held_err_invalid_record",
                    Class::Upstream => "held_err_upstream",
                    Class::Other => "held_err_other",
                })
            }
        }
    }
}

// ---------------------------------------------------------------------------------------------
// record types
// ---------------------------------------------------------------------------------------------

trait RecTy: Serializable + 'static {
    fn name() -> String;
    fn size() -> usize {
        <Self as Serializable>::Size::USIZE
    }
    /// independent validity predicate of one encoded record
    fn valid(b: &[u8]) -> bool;
    fn make_valid(b: &mut [u8]);
    /// returns false when every encoding is valid
    fn make_invalid(b: &mut [u8]) -> bool;
}

fn ser<T: Serializable>(t: &T) -> Vec<u8> {
    let mut buf = GenericArray::<u8, T::Size>::default();
    t.serialize(&mut buf);
    buf.to_vec()
}

/// Harness record of N bytes that keeps the bytes; an encoding whose first byte is MARK is invalid.
#[derive(Clone, Debug, PartialEq, Eq)]
struct Raw<N: ArrayLength>(GenericArray<u8, N>);

#[derive(Debug, thiserror::Error)]
#[error("verif-c17 marker byte")]
struct MarkerErr;

impl<N: ArrayLength> Serializable for Raw<N> {
    type Size = N;
    type DeserializationError = MarkerErr;
    fn serialize(&self, buf: &mut GenericArray<u8, N>) {
        buf.copy_from_slice(&self.0);
    }
    fn deserialize(buf: &GenericArray<u8, N>) -> Result<Self, MarkerErr> {
        if buf[0] == MARK { Err(MarkerErr) } else { Ok(Raw(buf.clone())) }
    }
}
impl<N: ArrayLength + 'static> RecTy for Raw<N> {
    fn name() -> String {
        format!("Raw{}", N::USIZE)
    }
    fn valid(b: &[u8]) -> bool {
        b[0] != MARK
    }
    fn make_valid(b: &mut [u8]) {
        if b[0] == MARK {
            b[0] = 0x11;
        }
    }
    fn make_invalid(b: &mut [u8]) -> bool {
        b[0] = MARK;
        true
    }
}

macro_rules! rec_always_valid {
    ($($t:ty),*) => {$(
        impl RecTy for $t {
            fn name() -> String { stringify!($t).to_string() }
            fn valid(_b: &[u8]) -> bool { true }
            fn make_valid(_b: &mut [u8]) {}
            fn make_invalid(_b: &mut [u8]) -> bool { false }
        }
    )*};
}
rec_always_valid!(BA8, BA16, BA32, BA64, Gf40Bit);

/// types whose padding bits (mask on one byte) must be zero
macro_rules! rec_padding {
    ($($t:ty, $byte:expr, $mask:expr);*) => {$(
        impl RecTy for $t {
            fn name() -> String { stringify!($t).to_string() }
            fn valid(b: &[u8]) -> bool { b[$byte] & $mask == 0 }
            fn make_valid(b: &mut [u8]) { b[$byte] &= !$mask; }
            fn make_invalid(b: &mut [u8]) -> bool {
                // lowest padding bit, or another one depending on the data
                let low = $mask & (!$mask + 1);
                b[$byte] |= if b[0] & 1 == 0 { low } else { 0x80 };
                true
            }
        }
    )*};
}
rec_padding!(Gf3Bit, 0, 0xF8u8; Gf9Bit, 1, 0xFEu8; BA20, 2, 0xF0u8; Gf20Bit, 2, 0xF0u8);

impl RecTy for Fp31 {
    fn name() -> String {
        "Fp31".into()
    }
    fn valid(b: &[u8]) -> bool {
        b[0] < 31
    }
    fn make_valid(b: &mut [u8]) {
        b[0] %= 31;
    }
    fn make_invalid(b: &mut [u8]) -> bool {
        b[0] = 31 + b[0] % 225;
        true
    }
}
impl RecTy for Fp32BitPrime {
    fn name() -> String {
        "Fp32BitPrime".into()
    }
    fn valid(b: &[u8]) -> bool {
        u32::from_le_bytes([b[0], b[1], b[2], b[3]]) < 4_294_967_291
    }
    fn make_valid(b: &mut [u8]) {
        if !Self::valid(b) {
            b[3] &= 0x7F;
        }
    }
    fn make_invalid(b: &mut [u8]) -> bool {
        let low = 0xFB + b[0] % 5;
        b.copy_from_slice(&[low, 0xFF, 0xFF, 0xFF]);
        true
    }
}
impl RecTy for Fp61BitPrime {
    fn name() -> String {
        "Fp61BitPrime".into()
    }
    fn valid(b: &[u8]) -> bool {
        let mut a = [0u8; 8];
        a.copy_from_slice(b);
        u64::from_le_bytes(a) < (1u64 << 61) - 1
    }
    fn make_valid(b: &mut [u8]) {
        b[7] &= 0x0F;
    }
    fn make_invalid(b: &mut [u8]) -> bool {
        if b[0] & 1 == 0 {
            // exactly the prime
            b.copy_from_slice(&((1u64 << 61) - 1).to_le_bytes());
        } else {
            b[7] |= 0x20;
        }
        true
    }
}
macro_rules! rec_share {
    ($($v:ty),*) => {$(
        impl RecTy for AdditiveShare<$v> {
            fn name() -> String { format!("AdditiveShare<{}>", <$v as RecTy>::name()) }
            fn valid(b: &[u8]) -> bool {
                let h = b.len() / 2;
                <$v as RecTy>::valid(&b[..h]) && <$v as RecTy>::valid(&b[h..])
            }
            fn make_valid(b: &mut [u8]) {
                let h = b.len() / 2;
                <$v as RecTy>::make_valid(&mut b[..h]);
                <$v as RecTy>::make_valid(&mut b[h..]);
            }
            fn make_invalid(b: &mut [u8]) -> bool {
                let h = b.len() / 2;
                if b[0] & 2 == 0 { <$v as RecTy>::make_invalid(&mut b[h..]) } else { <$v as RecTy>::make_invalid(&mut b[..h]) }
            }
        }
    )*};
}
rec_share!(Fp31, BA16, BA20, Fp32BitPrime);

// ---------------------------------------------------------------------------------------------
// parsers under test, behind one uniform interface
// ---------------------------------------------------------------------------------------------

struct Parser<'a> {
    name: String,
    /// record size in bytes (0 = length-delimited)
    size: usize,
    /// one record per poll: the error must come exactly at record k
    exact: bool,
    /// documented to end after the first error
    fused: bool,
    run: Box<dyn Fn(&[u8], &Feed) -> Obs + 'a>,
    reference: Box<dyn Fn(&[u8], bool) -> Ref + 'a>,
    /// the same parser behind a BufferedBytesStream with the given buffer size
    buffered: Option<Box<dyn Fn(&[u8], &Feed, usize) -> Obs + 'a>>,
}

fn run_single<T: RecTy>(bytes: &[u8], feed: &Feed) -> Obs {
    let src = byte_src(bytes, feed);
    let budget = src.pending_budget();
    match catch(move || {
        let s: SingleRecordStream<T, _> = RecordsStream::new(src);
        drive(s, budget, Result::is_err)
    }) {
        Err(p) => Obs::panic(p),
        Ok((items, pendings, stuck)) => {
            let mut o = Obs::new();
            o.pendings = pendings;
            for it in items {
                match it {
                    Ok(t) => o.push_batch(vec![ser(&t)]),
                    Err(e) => o.push_err(class_of_crate(&e)),
                }
            }
            if stuck {
                o.end = End::Stuck;
            }
            o
        }
    }
}

fn run_batch<T: RecTy>(bytes: &[u8], feed: &Feed) -> Obs {
    let src = byte_src(bytes, feed);
    let budget = src.pending_budget();
    match catch(move || {
        let s: RecordsStream<T, Src<Result<Bytes, BoxError>>> = RecordsStream::new(src);
        drive(s, budget, Result::is_err)
    }) {
        Err(p) => Obs::panic(p),
        Ok((items, pendings, stuck)) => {
            let mut o = Obs::new();
            o.pendings = pendings;
            for it in items {
                match it {
                    Ok(v) => o.push_batch(v.iter().map(ser).collect()),
                    Err(e) => o.push_err(class_of_crate(&e)),
                }
            }
            if stuck {
                o.end = End::Stuck;
            }
            o
        }
    }
}

/// RecordsStream behind a BufferedBytesStream of `bufsz` bytes (only used with error-free feeds).
fn run_buffered_single<T: RecTy>(bytes: &[u8], feed: &Feed, bufsz: usize) -> Obs {
    let src = byte_src(bytes, feed);
    let budget = src.pending_budget();
    match catch(move || {
        let b = BufferedBytesStream::new(src, NonZeroUsize::new(bufsz).unwrap());
        let s: SingleRecordStream<T, _> = RecordsStream::new(b);
        drive(s, budget, Result::is_err)
    }) {
        Err(p) => Obs::panic(p),
        Ok((items, pendings, stuck)) => {
            let mut o = Obs::new();
            o.pendings = pendings;
            for it in items {
                match it {
                    Ok(t) => o.push_batch(vec![ser(&t)]),
                    Err(e) => o.push_err(class_of_crate(&e)),
                }
            }
            if stuck {
                o.end = End::Stuck;
            }
            o
        }
    }
}

fn records_parsers<T: RecTy>() -> Vec<Parser<'static>> {
    let size = T::size();
    vec![
        Parser {
            name: format!("RecordsStream<{},Single>", T::name()),
            size,
            exact: true,
            fused: false,
            run: Box::new(run_single::<T>),
            reference: Box::new(move |b, up| ref_fixed(b, size, T::valid, up)),
            buffered: Some(Box::new(run_buffered_single::<T>)),
        },
        Parser {
            name: format!("RecordsStream<{},Batch>", T::name()),
            size,
            exact: false,
            fused: false,
            run: Box::new(run_batch::<T>),
            reference: Box::new(move |b, up| ref_fixed(b, size, T::valid, up)),
            buffered: None,
        },
    ]
}

fn raw_parsers() -> Vec<Parser<'static>> {
    let mut v = Vec::new();
    v.extend(records_parsers::<Raw<U1>>());
    v.extend(records_parsers::<Raw<U2>>());
    v.extend(records_parsers::<Raw<U3>>());
    v.extend(records_parsers::<Raw<U4>>());
    v.extend(records_parsers::<Raw<U5>>());
    v.extend(records_parsers::<Raw<U6>>());
    v.extend(records_parsers::<Raw<U7>>());
    v.extend(records_parsers::<Raw<U8>>());
    v
}

/// (parsers, per parser: make_valid / make_invalid of its record type)
type Fixer = (fn(&mut [u8]), fn(&mut [u8]) -> bool);
fn typed<T: RecTy>(out: &mut Vec<(Parser<'static>, Fixer)>) {
    for p in records_parsers::<T>() {
        out.push((p, (T::make_valid, T::make_invalid)));
    }
}
fn real_parsers() -> Vec<(Parser<'static>, Fixer)> {
    let mut v = Vec::new();
    typed::<Fp31>(&mut v);
    typed::<BA8>(&mut v);
    typed::<Gf3Bit>(&mut v);
    typed::<BA16>(&mut v);
    typed::<Gf9Bit>(&mut v);
    typed::<AdditiveShare<Fp31>>(&mut v);
    typed::<BA20>(&mut v);
    typed::<Gf20Bit>(&mut v);
    typed::<Fp32BitPrime>(&mut v);
    typed::<BA32>(&mut v);
    typed::<AdditiveShare<BA16>>(&mut v);
    typed::<Gf40Bit>(&mut v);
    typed::<AdditiveShare<BA20>>(&mut v);
    typed::<BA64>(&mut v);
    typed::<Fp61BitPrime>(&mut v);
    typed::<AdditiveShare<Fp32BitPrime>>(&mut v);
    v
}
fn all_typed_parsers() -> Vec<(Parser<'static>, Fixer)> {
    let mut v = real_parsers();
    typed::<Raw<U1>>(&mut v);
    typed::<Raw<U2>>(&mut v);
    typed::<Raw<U3>>(&mut v);
    typed::<Raw<U4>>(&mut v);
    typed::<Raw<U5>>(&mut v);
    typed::<Raw<U6>>(&mut v);
    typed::<Raw<U7>>(&mut v);
    typed::<Raw<U8>>(&mut v);
    v
}

// ---- length-delimited ---------------------------------------------------------------------------

trait LdItem: TryFrom<Bytes> + 'static {
    fn body(&self) -> &[u8];
    fn fails(b: &[u8]) -> bool;
    fn label() -> &'static str;
}
/// keeps the bytes, never fails
struct Keep(Bytes);
impl TryFrom<Bytes> for Keep {
    type Error = Infallible;
    fn try_from(b: Bytes) -> Result<Self, Infallible> {
        Ok(Keep(b))
    }
}
impl LdItem for Keep {
    fn body(&self) -> &[u8] {
        &self.0
    }
    fn fails(_b: &[u8]) -> bool {
        false
    }
    fn label() -> &'static str {
        "Keep"
    }
}
/// keeps the bytes, fails when the body starts with MARK
struct Marked(Bytes);
impl TryFrom<Bytes> for Marked {
    type Error = MarkerErr;
    fn try_from(b: Bytes) -> Result<Self, MarkerErr> {
        if b.first() == Some(&MARK) { Err(MarkerErr) } else { Ok(Marked(b)) }
    }
}
impl LdItem for Marked {
    fn body(&self) -> &[u8] {
        &self.0
    }
    fn fails(b: &[u8]) -> bool {
        b.first() == Some(&MARK)
    }
    fn label() -> &'static str {
        "Marked"
    }
}

fn run_ld<K: LdItem>(bytes: &[u8], feed: &Feed) -> Obs
where
    <K as TryFrom<Bytes>>::Error: Into<BoxError>,
{
    let src = byte_src(bytes, feed);
    let budget = src.pending_budget();
    match catch(move || drive(LengthDelimitedStream::<K, _>::new(src), budget, Result::is_err)) {
        Err(p) => Obs::panic(p),
        Ok((items, pendings, stuck)) => {
            let mut o = Obs::new();
            o.pendings = pendings;
            for it in items {
                match it {
                    Ok(v) => o.push_batch(v.iter().map(|k| k.body().to_vec()).collect()),
                    Err(e) => o.push_err(class_of_io(&e)),
                }
            }
            if stuck {
                o.end = End::Stuck;
            }
            o
        }
    }
}

/// the production composition (query/runner/hybrid.rs): LengthDelimitedStream -> map_err -> try_flatten_iters
fn run_ld_flat<K: LdItem>(bytes: &[u8], feed: &Feed) -> Obs
where
    <K as TryFrom<Bytes>>::Error: Into<BoxError>,
{
    let src = byte_src(bytes, feed);
    let budget = src.pending_budget();
    match catch(move || {
        let s = LengthDelimitedStream::<K, _>::new(src).map_err(Error::from).try_flatten_iters();
        // do not stop at the first error: the flattened stream must end by itself (give up after a few
        // further items, they are already a violation)
        let after = std::cell::Cell::new(0u32);
        drive(s, budget, |it| {
            if after.get() > 0 || it.is_err() {
                after.set(after.get() + 1);
            }
            after.get() > 4
        })
    }) {
        Err(p) => Obs::panic(p),
        Ok((items, pendings, stuck)) => {
            let mut o = Obs::new();
            o.pendings = pendings;
            for it in items {
                match it {
                    Ok(k) => o.push_batch(vec![k.body().to_vec()]),
                    Err(e) => o.push_err(class_of_crate(&e)),
                }
            }
            if stuck {
                o.end = End::Stuck;
            }
            o
        }
    }
}

fn ld_parsers() -> Vec<Parser<'static>> {
    fn mk<K: LdItem>() -> Vec<Parser<'static>>
    where
        <K as TryFrom<Bytes>>::Error: Into<BoxError>,
    {
        vec![
            Parser {
                name: format!("LengthDelimitedStream<{}>", K::label()),
                size: 0,
                exact: false,
                fused: false,
                run: Box::new(run_ld::<K>),
                reference: Box::new(|b, up| ref_delimited(b, K::fails, up)),
                buffered: None,
            },
            Parser {
                name: format!("LengthDelimitedStream<{}>+TryFlattenIters", K::label()),
                size: 0,
                exact: false,
                fused: true,
                run: Box::new(run_ld_flat::<K>),
                reference: Box::new(|b, up| ref_delimited(b, K::fails, up)),
                buffered: None,
            },
        ]
    }
    let mut v = mk::<Keep>();
    v.extend(mk::<Marked>());
    v
}

// ---------------------------------------------------------------------------------------------
// bookkeeping
// ---------------------------------------------------------------------------------------------

struct Cx {
    rec: Recorder,
    counts: BTreeMap<&'static str, u64>,
    distinct: HashSet<u64>,
    only: Option<usize>,
    env: vlib::Env,
}
impl Cx {
    fn new(test: &'static str) -> Self {
        Cx {
            rec: Recorder::new("C17", test),
            counts: BTreeMap::new(),
            distinct: HashSet::new(),
            only: replay_case(),
            env: vlib::env(),
        }
    }
    fn mine(&self, case: usize) -> bool {
        self.env.mine(case) && self.only.is_none_or(|c| c == case)
    }
    fn hit(&mut self, k: &'static str, n: u64) {
        *self.counts.entry(k).or_insert(0) += n;
    }
    fn finish(mut self) {
        for (k, v) in &self.counts {
            self.rec.add(k, *v);
        }
        let mut keys: Vec<u64> = self.distinct.iter().copied().collect();
        keys.sort_unstable();
        for k in keys {
            self.rec.distinct(&k);
        }
        self.rec.finish();
    }
}

fn replay_case() -> Option<usize> {
    let p = vlib::env().replay?;
    let w: Value = serde_json::from_str(&std::fs::read_to_string(p).ok()?).ok()?;
    w["witness"]["case"].as_u64().map(|v| v as usize)
}

fn short_hex(b: &[u8]) -> String {
    if b.len() <= 4096 { hex(b) } else { format!("{}…(+{} bytes)", hex(&b[..4096]), b.len() - 4096) }
}

/// One parse + verdict. `variant` describes the content of the stream (goes into the distinct key).
fn check_feed(
    cx: &mut Cx,
    p: &Parser<'_>,
    case: usize,
    variant: &str,
    bytes: &[u8],
    feed: &Feed,
    cache: &mut HashMap<(usize, bool), Ref>,
) -> Option<Obs> {
    let upstream = feed.err_at.is_some();
    let key = (feed.delivered(), upstream);
    let r = cache.entry(key).or_insert_with(|| (p.reference)(&bytes[..key.0], upstream));
    let o = (p.run)(bytes, feed);
    cx.rec.eval();
    cx.hit("parses", 1);
    if feed.pending {
        cx.hit("parses_with_pending_upstream", 1);
        cx.hit("pendings_observed", u64::from(o.pendings));
    }
    if feed.empties() > 0 {
        cx.hit("parses_with_empty_chunks", 1);
    }
    if upstream {
        cx.hit("parses_with_upstream_error", 1);
    }
    cx.hit("records_yielded", o.recs.len() as u64);
    cx.hit("batches_yielded", o.batches as u64);
    if o.max_batch > 1 {
        cx.hit("parses_with_multi_record_batch", 1);
    }
    match judge(&o, r, p.exact, p.fused) {
        Ok(label) => {
            cx.hit(label, 1);
            if r.err.is_some() && o.recs.len() < r.recs.len() {
                cx.hit("held_err_with_dropped_batch_items", 1);
            }
            if !bytes.is_empty() {
                let k = vlib::fxhash(&(
                    p.name.as_str(),
                    bytes.len().min(64),
                    variant,
                    feed.lens.len().min(24),
                    feed.empties().min(3),
                    feed.err_at.is_some(),
                    feed.pending,
                    label,
                ));
                cx.distinct.insert(k);
            }
            Some(o)
        }
        Err((kind, what)) => {
            let (got_class, detail) = match &o.end {
                End::Err { class, detail, .. } => (class.name(), detail.clone()),
                End::Done => ("none", String::new()),
                End::Panic(m) => ("panic", panic_class(m)),
                End::Stuck => ("stuck", String::new()),
            };
            cx.rec.violation(
                what,
                json!({"kind": kind, "parser": p.name, "expected_error": r.err.map(Class::name), "got": got_class, "detail": detail}),
                json!({"case": case, "variant": variant, "bytes": short_hex(bytes), "n": bytes.len(), "feed": feed.to_json(),
                       "expected_records": r.recs.len(), "expected_error": r.err.map(Class::name),
                       "observed_records": o.recs.len(), "observed_first_records": o.recs.iter().take(8).map(|x| short_hex(x)).collect::<Vec<_>>(),
                       "observed_end": format!("{:?}", o.end), "items_after_error": o.after_err}),
            );
            None
        }
    }
}

fn panic_class(msg: &str) -> String {
    let mut s: String = msg.chars().map(|c| if c.is_ascii_digit() { '#' } else { c }).collect();
    while s.contains("##") {
        s = s.replace("##", "#");
    }
    s.truncate(90);
    s
}

// ---------------------------------------------------------------------------------------------
// chunkings
// ---------------------------------------------------------------------------------------------

/// chunk lengths of the chunking of n bytes given by `mask` (bit i set = split after byte i)
fn lens_of_mask(n: usize, mask: u32) -> Vec<usize> {
    let mut lens = Vec::new();
    if n == 0 {
        return lens;
    }
    let mut cur = 0;
    for i in 0..n {
        cur += 1;
        if i + 1 == n || mask & (1 << i) != 0 {
            lens.push(cur);
            cur = 0;
        }
    }
    lens
}

/// All feeds derived from one chunking: plain, with Pending, one empty chunk inserted at every position,
/// empty chunks at all positions at once (also with Pending), an upstream error at every position.
fn feeds_of(base: &[usize], with_err: bool) -> Vec<Feed> {
    let c = base.len();
    let mut v = Vec::with_capacity(2 * c + 8);
    v.push(Feed { lens: base.to_vec(), err_at: None, pending: false });
    v.push(Feed { lens: base.to_vec(), err_at: None, pending: true });
    for p in 0..=c {
        let mut l = base.to_vec();
        l.insert(p, 0);
        v.push(Feed { lens: l, err_at: None, pending: false });
    }
    let mut all = Vec::with_capacity(2 * c + 1);
    for l in base {
        all.push(0);
        all.push(*l);
    }
    all.push(0);
    v.push(Feed { lens: all.clone(), err_at: None, pending: false });
    v.push(Feed { lens: all.clone(), err_at: None, pending: true });
    if with_err {
        for j in 0..=c {
            v.push(Feed { lens: base.to_vec(), err_at: Some(j), pending: false });
        }
        v.push(Feed { lens: base.to_vec(), err_at: Some(c / 2), pending: true });
        v.push(Feed { lens: all, err_at: Some(c), pending: true });
    }
    v
}

const BLOCK: u32 = 128;

/// Exhaustive exploration of every chunking of `bytes` for parser `p`; one case = a block of masks.
fn exhaust(cx: &mut Cx, case: &mut usize, p: &Parser<'_>, variant: &str, bytes: &[u8], with_err: bool) {
    let n = bytes.len();
    let nmasks: u32 = if n <= 1 { 1 } else { 1 << (n - 1) };
    let mut cache = HashMap::new();
    let mut start = 0u32;
    while start < nmasks {
        let this = *case;
        *case += 1;
        let end = (start + BLOCK).min(nmasks);
        if cx.mine(this) {
            for mask in start..end {
                let base = lens_of_mask(n, mask);
                for f in feeds_of(&base, with_err) {
                    check_feed(cx, p, this, variant, bytes, &f, &mut cache);
                }
                cx.hit("chunkings_enumerated", 1);
            }
            if cx.rec.want_sample() && n >= 6 && this % 13 == 0 {
                cx.rec.sample(json!({"case": this, "parser": p.name, "variant": variant, "bytes": hex(bytes), "chunkings": format!("masks {start}..{end} of {nmasks}"),
                                      "feeds_per_chunking": "plain, Pending, 1 empty chunk at each position, empty chunks everywhere (+Pending), upstream error at each position"}));
            }
        }
        start = end;
    }
}

/// test streams for fixed-size records of `size` bytes with exactly n bytes: all valid, and an invalid
/// record first / in the middle / last (MARK also occurs at a non-leading position where it is harmless)
fn raw_streams(size: usize, n: usize) -> Vec<(String, Vec<u8>)> {
    let mut base: Vec<u8> = (0..n).map(|i| (i as u8) * 7 + 1).collect();
    if size >= 2 && n >= 2 {
        base[1] = MARK;
    }
    let count = n / size;
    let mut v = vec![("valid".to_string(), base.clone())];
    let mut bad: Vec<usize> = Vec::new();
    if count >= 1 {
        bad.push(0);
    }
    if count >= 2 {
        bad.push(count - 1);
    }
    if count >= 3 {
        bad.push(count / 2);
    }
    bad.sort_unstable();
    bad.dedup();
    for j in bad {
        let mut b = base.clone();
        b[j * size] = MARK;
        let pos = if j == 0 { "first" } else if j == count - 1 { "last" } else { "middle" };
        v.push((format!("invalid_{pos}"), b));
    }
    v
}

#[test]
fn verif_c17_records_exhaustive() {
    let mut cx = Cx::new("verif_c17_records_exhaustive");
    let nmax = cx.env.pick(11, 14);
    let err_nmax = cx.env.pick(9, 12);
    let mut case = 0usize;
    for p in raw_parsers() {
        cx.rec.seen("parsers", p.name.clone());
        cx.rec.seen("record_sizes", p.size.to_string());
        for n in 0..=nmax {
            for (variant, bytes) in raw_streams(p.size, n) {
                if n % p.size != 0 {
                    cx.rec.seen("truncation_sites", "inside_fixed_size_record");
                }
                exhaust(&mut cx, &mut case, &p, &variant, &bytes, n <= err_nmax);
            }
        }
    }
    cx.rec.note(format!("records_exhaustive: all 2^(n-1) chunkings for n <= {nmax}, upstream errors at every position for n <= {err_nmax}"));
    cx.finish();
}

/// exhaustive chunkings with the real field / boolean-array / share types (valid encodings and an invalid
/// encoding in the middle of the stream)
#[test]
fn verif_c17_records_types_exhaustive() {
    let mut cx = Cx::new("verif_c17_records_types_exhaustive");
    let nmax = cx.env.pick(9, 12);
    let err_nmax = cx.env.pick(8, 10);
    let mut case = 0usize;
    for (p, (make_valid, make_invalid)) in real_parsers() {
        cx.rec.seen("parsers", p.name.clone());
        cx.rec.seen("record_sizes", p.size.to_string());
        for n in 0..=nmax {
            let mut r = VRng::new(cx.env.seed ^ 0x7e57, (p.size * 64 + n) as u64);
            let mut valid = r.bytes(n);
            for c in valid.chunks_mut(p.size) {
                if c.len() == p.size {
                    make_valid(c);
                }
            }
            let mut streams = vec![("valid".to_string(), valid.clone())];
            let count = n / p.size;
            if count >= 1 {
                let j = count / 2;
                let mut b = valid.clone();
                if make_invalid(&mut b[j * p.size..(j + 1) * p.size]) {
                    streams.push(("invalid_encoding".to_string(), b));
                    cx.rec.seen("fallible_types_with_invalid_encoding", p.name.clone());
                }
            }
            for (variant, bytes) in streams {
                exhaust(&mut cx, &mut case, &p, &variant, &bytes, n <= err_nmax);
            }
        }
    }
    cx.finish();
}

// ---------------------------------------------------------------------------------------------
// length-delimited: exhaustive
// ---------------------------------------------------------------------------------------------

fn encode_ld(bodies: &[Vec<u8>]) -> Vec<u8> {
    let mut out = Vec::new();
    for b in bodies {
        out.extend((b.len() as u16).to_le_bytes());
        out.extend(b);
    }
    out
}

/// where a cut at byte `cut` of an encoded length-delimited stream falls
fn ld_cut_site(bytes: &[u8], cut: usize) -> &'static str {
    let mut off = 0;
    loop {
        if cut == off {
            return "record_boundary";
        }
        if cut < off + 2 {
            return "inside_length_prefix";
        }
        if off + 2 > bytes.len() {
            return "record_boundary";
        }
        let len = usize::from(bytes[off]) + 256 * usize::from(bytes[off + 1]);
        if cut == off + 2 && len > 0 {
            return "after_length_prefix_before_body";
        }
        if cut < off + 2 + len {
            return "inside_body";
        }
        off += 2 + len;
    }
}

const LD_BASES: &[&[usize]] = &[
    &[],
    &[0],
    &[1],
    &[2],
    &[5],
    &[9],
    &[12],
    &[0, 0],
    &[0, 0, 0],
    &[1, 1],
    &[0, 3],
    &[3, 0],
    &[1, 2, 3],
    &[2, 0, 1],
    &[0, 0, 0, 0, 0, 0, 0],
    &[4, 4],
    &[10, 0],
    &[1, 0, 1, 0],
    &[3, 5],
    &[6, 2],
    &[2, 2, 2],
    &[0, 1, 0, 2],
    &[7],
    &[1, 1, 1],
];

/// (variant label, bytes) of every short length-delimited test stream of at most nmax bytes
fn ld_streams(nmax: usize) -> Vec<(String, Vec<u8>)> {
    let mut v: Vec<(String, Vec<u8>)> = Vec::new();
    let mut seen: HashSet<Vec<u8>> = HashSet::new();
    let mut add = |label: String, b: Vec<u8>, v: &mut Vec<(String, Vec<u8>)>| {
        if b.len() <= nmax && seen.insert(b.clone()) {
            v.push((label, b));
        }
    };
    for lens in LD_BASES {
        let mut next = 1u8;
        let bodies: Vec<Vec<u8>> = lens
            .iter()
            .map(|l| {
                (0..*l)
                    .map(|_| {
                        next = next.wrapping_mul(5).wrapping_add(3);
                        if next == MARK { 0x42 } else { next }
                    })
                    .collect()
            })
            .collect();
        let full = encode_ld(&bodies);
        add("complete".into(), full.clone(), &mut v);
        for cut in 1..full.len() {
            add(format!("cut:{}", ld_cut_site(&full, cut)), full[..cut].to_vec(), &mut v);
        }
        // try_from failures: body of the first / last non-empty record starts with MARK; MARK elsewhere is harmless
        let nonempty: Vec<usize> = (0..bodies.len()).filter(|i| !bodies[*i].is_empty()).collect();
        for j in [nonempty.first(), nonempty.last()].into_iter().flatten() {
            let mut b2 = bodies.clone();
            b2[*j][0] = MARK;
            add("marker_leading".into(), encode_ld(&b2), &mut v);
            if b2[*j].len() > 1 {
                let mut b3 = bodies.clone();
                b3[*j][1] = MARK;
                add("marker_inside".into(), encode_ld(&b3), &mut v);
            }
        }
    }
    // declared lengths far beyond the data (little-endian!), and a length whose low byte is zero
    add("declared_65535".into(), vec![0xFF, 0xFF, 1, 2, 3], &mut v);
    add("declared_256".into(), vec![0x00, 0x01, 9, 8, 7, 6], &mut v);
    add("declared_1_then_garbage".into(), vec![0x01, 0x00, 0x55, 0x00, 0x01], &mut v);
    add("declared_3_exact".into(), vec![0x03, 0x00, MARK, MARK, MARK], &mut v);
    v
}

#[test]
fn verif_c17_delimited_exhaustive() {
    let mut cx = Cx::new("verif_c17_delimited_exhaustive");
    let nmax = cx.env.pick(11, 14);
    let err_nmax = cx.env.pick(9, 12);
    let streams = ld_streams(nmax);
    let mut case = 0usize;
    for p in ld_parsers() {
        cx.rec.seen("parsers", p.name.clone());
        for (variant, bytes) in &streams {
            if let Some(site) = variant.strip_prefix("cut:") {
                cx.rec.seen("truncation_sites", site);
            }
            // record lengths present in this stream (as far as the reference can read them)
            for r in &ref_delimited(bytes, |_| false, false).recs {
                cx.rec.seen("ld_record_lengths_exhaustive", r.len().to_string());
            }
            exhaust(&mut cx, &mut case, &p, variant, bytes, bytes.len() <= err_nmax);
        }
    }
    if cx.env.shard == 0 {
        cx.rec.add("ld_short_streams", streams.len() as u64);
    }
    cx.finish();
}

// ---------------------------------------------------------------------------------------------
// seeded chunkings of longer streams
// ---------------------------------------------------------------------------------------------

fn lens_from_splits(n: usize, mut splits: Vec<usize>) -> Vec<usize> {
    splits.retain(|s| *s > 0 && *s < n);
    splits.sort_unstable();
    splits.dedup();
    let mut lens = Vec::with_capacity(splits.len() + 1);
    let mut prev = 0;
    for s in splits {
        lens.push(s - prev);
        prev = s;
    }
    if n > prev {
        lens.push(n - prev);
    }
    lens
}

const STYLES: usize = 9;
/// seeded chunking of n bytes. `marks` = offsets of interest (record / prefix boundaries).
fn seeded_lens(r: &mut VRng, n: usize, style: usize, unit: usize, marks: &[usize]) -> (Vec<usize>, &'static str) {
    let by_max = |r: &mut VRng, max: usize| {
        let mut lens = Vec::new();
        let mut left = n;
        while left > 0 {
            let l = (r.range(1, max as u64) as usize).min(left);
            lens.push(l);
            left -= l;
        }
        lens
    };
    let (mut lens, name) = match style % STYLES {
        0 => (if n == 0 { vec![] } else { vec![n] }, "one_chunk"),
        1 => (vec![1; n], "byte_by_byte"),
        2 => (by_max(r, 3), "sizes_1_to_3"),
        3 => (by_max(r, 4 * unit.max(1)), "sizes_up_to_4_units"),
        4 => (by_max(r, 64), "sizes_1_to_64"),
        5 => (by_max(r, 1024), "sizes_1_to_1024"),
        6 => {
            // splits at / next to offsets of interest
            let mut sp = Vec::new();
            for m in marks {
                if r.below(3) != 0 {
                    let d = r.below(3) as usize;
                    sp.push((*m + d).saturating_sub(1));
                }
            }
            (lens_from_splits(n, sp), "around_boundaries")
        }
        7 => {
            let a = if n == 0 { 0 } else { r.below(n as u64 + 1) as usize };
            (lens_from_splits(n, vec![a]), "two_chunks")
        }
        _ => {
            // exactly on the unit grid
            let u = unit.max(1) * (1 + r.below(4) as usize);
            (lens_from_splits(n, (1..=n / u).map(|i| i * u).collect()), "aligned")
        }
    };
    if r.below(3) == 0 {
        let k = 1 + r.below(4) as usize;
        for _ in 0..k {
            let p = r.below(lens.len() as u64 + 1) as usize;
            lens.insert(p, 0);
        }
    }
    (lens, name)
}

#[test]
fn verif_c17_records_seeded() {
    let mut cx = Cx::new("verif_c17_records_seeded");
    let parsers = all_typed_parsers();
    let cases = cx.env.pick(40_000, 400_000);
    for case in 0..cases {
        if !cx.mine(case) {
            continue;
        }
        let mut r = VRng::new(cx.env.seed ^ 0x5eed_17, case as u64);
        let (p, (make_valid, make_invalid)) = &parsers[case % parsers.len()];
        let k = case / parsers.len();
        let max_bytes = [16usize, 64, 300, 1200, 4096][k % 5];
        let count = r.below((max_bytes / p.size) as u64 + 1) as usize;
        let mut bytes = r.bytes(count * p.size);
        for c in bytes.chunks_mut(p.size) {
            make_valid(c);
        }
        let content = (k / 5) % 4;
        let mut variant = "valid";
        match content {
            1 if count > 0 => {
                let j = r.below(count as u64) as usize;
                if make_invalid(&mut bytes[j * p.size..(j + 1) * p.size]) {
                    variant = "invalid_encoding";
                }
            }
            2 if p.size > 1 => {
                // truncated tail: 1..size-1 extra bytes of a further record
                let extra = r.range(1, p.size as u64 - 1) as usize;
                bytes.extend(r.bytes(extra));
                variant = "truncated_tail";
                cx.rec.seen("truncation_sites", "inside_fixed_size_record");
            }
            _ => {}
        }
        let n = bytes.len();
        let marks: Vec<usize> = (0..=count).map(|i| i * p.size).collect();
        let (lens, style) = seeded_lens(&mut r, n, k / 20, p.size, &marks);
        let err_at = if (k / 20 / STYLES) % 3 == 2 { Some(r.below(lens.len() as u64 + 1) as usize) } else { None };
        let feed = Feed { lens, err_at, pending: r.bool() };
        cx.rec.seen("chunking_styles", style);
        cx.rec.seen("parsers", p.name.clone());
        cx.rec.seen("record_sizes", p.size.to_string());
        cx.hit("seeded_stream_bytes", n as u64);
        let mut cache = HashMap::new();
        let v = format!("{variant}/{style}/{}", max_bytes);
        check_feed(&mut cx, p, case, &v, &bytes, &feed, &mut cache);
        // the same bytes through BufferedBytesStream -> RecordsStream (error-free feeds only: bytes held in
        // the buffer are not delivered when the upstream fails, which changes the reference)
        if let (Some(run_b), None) = (&p.buffered, feed.err_at) {
            let bufsz = match r.below(4) {
                0 => 1,
                1 => p.size,
                2 => 1 + r.below(16) as usize,
                _ => 1 + r.below(2048) as usize,
            };
            let wrapped = Parser {
                name: format!("BufferedBytesStream+{}", p.name),
                size: p.size,
                exact: true,
                fused: false,
                run: Box::new(move |b, f| run_b(b, f, bufsz)),
                reference: Box::new(|b, up| (p.reference)(b, up)),
                buffered: None,
            };
            cx.rec.seen("parsers", wrapped.name.clone());
            let mut cache2 = HashMap::new();
            check_feed(&mut cx, &wrapped, case, &v, &bytes, &feed, &mut cache2);
        }
        if cx.rec.want_sample() && case % 97 == 5 {
            cx.rec.sample(json!({"case": case, "parser": p.name, "bytes": n, "records": count, "variant": variant,
                                  "chunks": feed.lens.len(), "style": style, "err_after_chunks": feed.err_at, "pending": feed.pending}));
        }
    }
    cx.finish();
}

#[test]
fn verif_c17_delimited_seeded() {
    let mut cx = Cx::new("verif_c17_delimited_seeded");
    let parsers = ld_parsers();
    let cases = cx.env.pick(30_100, 301_000);
    for case in 0..cases {
        if !cx.mine(case) {
            continue;
        }
        let mut r = VRng::new(cx.env.seed ^ 0x1d_5eed, case as u64);
        let p = &parsers[case % parsers.len()];
        let k = case / parsers.len();
        // every length 0..=300 is used as the length of some record: record 0 of case k has length k % 301
        let nrec = 1 + r.below(if k % 4 == 0 { 24 } else { 6 }) as usize;
        let mut bodies: Vec<Vec<u8>> = Vec::with_capacity(nrec);
        for i in 0..nrec {
            let len = if i == 0 {
                k % 301
            } else {
                match r.below(4) {
                    0 => 0,
                    1 => r.below(4) as usize,
                    2 => r.below(301) as usize,
                    _ => 255 + r.below(4) as usize, // around the low-byte wrap of the prefix
                }
            };
            let mut b = r.bytes(len);
            if b.first() == Some(&MARK) {
                b[0] = 0x21;
            }
            bodies.push(b);
        }
        for b in &bodies {
            cx.rec.seen("ld_record_lengths", b.len().to_string());
        }
        let content = (k / 301) % 4;
        let mut variant = "complete".to_string();
        if content == 1 {
            let nonempty: Vec<usize> = (0..nrec).filter(|i| !bodies[*i].is_empty()).collect();
            if !nonempty.is_empty() {
                let j = *r.choose(&nonempty);
                bodies[j][0] = MARK;
                variant = "marker_leading".into();
            }
        }
        let mut bytes = encode_ld(&bodies);
        let mut marks = Vec::new();
        {
            let mut off = 0;
            for b in &bodies {
                marks.push(off);
                marks.push(off + 2);
                off += 2 + b.len();
            }
            marks.push(off);
        }
        if content == 2 && bytes.len() > 1 {
            let cut = 1 + r.below(bytes.len() as u64 - 1) as usize;
            let site = ld_cut_site(&bytes, cut);
            cx.rec.seen("truncation_sites", site);
            variant = format!("cut:{site}");
            bytes.truncate(cut);
            marks.retain(|m| *m <= cut);
        }
        let n = bytes.len();
        let (lens, style) = seeded_lens(&mut r, n, k / 7, 2, &marks);
        let err_at = if (k / 7 / STYLES) % 3 == 2 { Some(r.below(lens.len() as u64 + 1) as usize) } else { None };
        let feed = Feed { lens, err_at, pending: r.bool() };
        cx.rec.seen("chunking_styles", style);
        cx.rec.seen("parsers", p.name.clone());
        cx.hit("seeded_stream_bytes", n as u64);
        let mut cache = HashMap::new();
        let v = format!("{variant}/{style}/{}", nrec.min(8));
        check_feed(&mut cx, p, case, &v, &bytes, &feed, &mut cache);
        if cx.rec.want_sample() && case % 89 == 7 {
            cx.rec.sample(json!({"case": case, "parser": p.name, "bytes": n, "record_lengths": bodies.iter().map(Vec::len).collect::<Vec<_>>(),
                                  "variant": variant, "chunks": feed.lens.len(), "style": style, "err_after_chunks": feed.err_at, "pending": feed.pending}));
        }
    }
    cx.finish();
}

// ---------------------------------------------------------------------------------------------
// BufferedBytesStream: re-chunking to a fixed buffer size
// ---------------------------------------------------------------------------------------------

/// Output chunks (as yielded) and how the stream ended.
fn run_buffered(bytes: &[u8], feed: &Feed, sz: usize) -> (Vec<Vec<u8>>, End) {
    let src = byte_src(bytes, feed);
    let budget = src.pending_budget();
    match catch(move || drive(BufferedBytesStream::new(src, NonZeroUsize::new(sz).unwrap()), budget, Result::is_err)) {
        Err(p) => (Vec::new(), End::Panic(p)),
        Ok((items, _pend, stuck)) => {
            let mut out = Vec::new();
            let mut end = End::Done;
            for it in items {
                match it {
                    Ok(b) => out.push(b.to_vec()),
                    Err(e) => {
                        let m = e.to_string();
                        end = End::Err { class: Class::Upstream, detail: String::new(), marker: m.contains(UPSTREAM_MARKER) };
                    }
                }
            }
            if stuck {
                end = End::Stuck;
            }
            (out, end)
        }
    }
}

/// Oracle for BufferedBytesStream. Ok(label) / Err((kind, what)).
fn judge_buffered(bytes: &[u8], feed: &Feed, sz: usize, out: &[Vec<u8>], end: &End) -> Result<&'static str, (&'static str, &'static str)> {
    let flat: Vec<u8> = out.iter().flatten().copied().collect();
    let sizes_ok = |allow_short_last: bool| {
        out.iter().enumerate().all(|(i, c)| {
            if i + 1 == out.len() && allow_short_last { !c.is_empty() && c.len() <= sz } else { c.len() == sz }
        })
    };
    match (end, feed.err_at) {
        (End::Panic(_), _) => Err(("panic", "BufferedBytesStream panicked")),
        (End::Stuck, _) => Err(("pending_while_upstream_ready", "BufferedBytesStream returned Pending more often than its upstream")),
        (End::Done, None) => {
            if flat != bytes {
                if flat.len() < bytes.len() && bytes.starts_with(&flat) {
                    Err(("bytes_lost", "output is shorter than the input (remainder dropped)"))
                } else {
                    Err(("bytes_differ", "output bytes differ from the input bytes"))
                }
            } else if !sizes_ok(true) {
                Err(("chunk_size", "an output chunk other than the last is not exactly the buffer size, or a chunk is empty / too long"))
            } else {
                Ok("held_rechunked")
            }
        }
        (End::Done, Some(_)) => Err(("upstream_error_swallowed", "BufferedBytesStream ended cleanly although the upstream yielded an error")),
        (End::Err { .. }, None) => Err(("unexpected_error", "BufferedBytesStream failed on an error-free upstream")),
        (End::Err { marker, .. }, Some(_)) => {
            let delivered = &bytes[..feed.delivered()];
            if !delivered.starts_with(&flat) {
                Err(("not_a_prefix_before_error", "bytes yielded before the error are not a prefix of the delivered bytes"))
            } else if !sizes_ok(true) {
                Err(("chunk_size", "an output chunk before the error has a wrong size"))
            } else if !*marker {
                Err(("upstream_error_not_propagated", "the upstream error was replaced"))
            } else {
                Ok("held_err_upstream")
            }
        }
    }
}

fn check_buffered(cx: &mut Cx, case: usize, bytes: &[u8], feed: &Feed, sz: usize) {
    let (out, end) = run_buffered(bytes, feed, sz);
    cx.rec.eval();
    cx.hit("rechunk_runs", 1);
    cx.hit("rechunk_output_chunks", out.len() as u64);
    match judge_buffered(bytes, feed, sz, &out, &end) {
        Ok(label) => {
            cx.hit(label, 1);
            if !bytes.is_empty() {
                let k = vlib::fxhash(&("buffered", bytes.len().min(64), sz.min(64), feed.lens.len().min(24), feed.empties().min(3),
                                       feed.err_at.is_some(), feed.pending, label));
                cx.distinct.insert(k);
            }
        }
        Err((kind, what)) => cx.rec.violation(
            what,
            json!({"kind": kind, "parser": "BufferedBytesStream", "end": match &end { End::Panic(m) => panic_class(m), e => format!("{e:?}").chars().take(30).collect() }}),
            json!({"case": case, "bytes": short_hex(bytes), "n": bytes.len(), "buffer_size": sz, "feed": feed.to_json(),
                   "output_chunk_lens": out.iter().map(Vec::len).collect::<Vec<_>>(), "observed_end": format!("{end:?}")}),
        ),
    }
}

#[test]
fn verif_c17_buffered_rechunk() {
    let mut cx = Cx::new("verif_c17_buffered_rechunk");
    cx.rec.seen("parsers", "BufferedBytesStream");
    let nmax = cx.env.pick(9, 12);
    let mut case = 0usize;
    // exhaustive: every chunking (+ empties, Pending, upstream errors) x every buffer size 1..=n+1
    for n in 0..=nmax {
        let bytes: Vec<u8> = (0..n).map(|i| (i as u8) * 11 + 3).collect();
        let nmasks: u32 = if n <= 1 { 1 } else { 1 << (n - 1) };
        let mut start = 0;
        while start < nmasks {
            let this = case;
            case += 1;
            let end = (start + 64).min(nmasks);
            if cx.mine(this) {
                for mask in start..end {
                    let base = lens_of_mask(n, mask);
                    for f in feeds_of(&base, true) {
                        for sz in 1..=n + 1 {
                            check_buffered(&mut cx, this, &bytes, &f, sz);
                        }
                    }
                    cx.hit("chunkings_enumerated", 1);
                }
            }
            start = end;
        }
    }
    // seeded: longer streams
    let seeded = cx.env.pick(20_000, 200_000);
    for i in 0..seeded {
        let this = case + i;
        if !cx.mine(this) {
            continue;
        }
        let mut r = VRng::new(cx.env.seed ^ 0xb0ff, i as u64);
        let n = r.below([40u64, 400, 5000][i % 3]) as usize;
        let bytes = r.bytes(n);
        let sz = match (i / 3) % 5 {
            0 => 1,
            1 => 1 + r.below(8) as usize,
            2 => 1 + r.below(128) as usize,
            3 => n.max(1),
            _ => 1 + r.below(6000) as usize,
        };
        let marks: Vec<usize> = (0..=n / sz).map(|k| k * sz).collect();
        let (lens, style) = seeded_lens(&mut r, n, i / 15, sz.min(64), &marks);
        let err_at = if (i / 15 / STYLES) % 3 == 2 { Some(r.below(lens.len() as u64 + 1) as usize) } else { None };
        let feed = Feed { lens, err_at, pending: r.bool() };
        cx.rec.seen("chunking_styles", style);
        check_buffered(&mut cx, this, &bytes, &feed, sz);
        if cx.rec.want_sample() && i % 83 == 3 {
            cx.rec.sample(json!({"case": this, "bytes": n, "buffer_size": sz, "chunks": feed.lens.len(), "style": style,
                                  "err_after_chunks": feed.err_at, "pending": feed.pending}));
        }
    }
    cx.finish();
}

// ---------------------------------------------------------------------------------------------
// fixed-width chunk processing: process_slice_by_chunks / process_stream_by_chunks / Chunk::unpack /
// TryFlattenIters
// ---------------------------------------------------------------------------------------------

fn chunk_violation(cx: &mut Cx, case: usize, func: &str, kind: &str, what: &str, wit: Value) {
    let mut w = wit;
    w["case"] = json!(case);
    cx.rec.violation(what, json!({"kind": kind, "parser": func}), w);
}

/// process_slice_by_chunks::<N> over 1..=len: chunk indices, zero padding, partial length, flattening.
fn slice_case<const N: usize>(cx: &mut Cx, case: usize, len: usize) {
    let data: Vec<u32> = (1..=len as u32).collect();
    let seen: RefCell<Vec<(usize, Vec<u32>, bool)>> = RefCell::new(Vec::new());
    let res = catch(|| {
        let st = process_slice_by_chunks::<_, _, _, _, N>(&data, |i, chunk: ChunkData<'_, u32, N>| {
            seen.borrow_mut().push((i, chunk.to_vec(), matches!(chunk, ChunkData::Owned(_))));
            std::future::ready(Ok::<Vec<u32>, Error>(chunk.iter().map(|x| x.wrapping_mul(3)).collect()))
        });
        vlib::poll_now(async move {
            let mut st = std::pin::pin!(st);
            let mut out = Vec::new();
            while let Some(f) = st.next().await {
                out.push(f.await);
            }
            out
        })
    });
    cx.rec.eval();
    cx.hit("chunk_fn_runs", 1);
    let func = "process_slice_by_chunks";
    let wit = json!({"N": N, "len": len});
    let chunks = match res {
        Err(p) => return chunk_violation(cx, case, func, "panic", "process_slice_by_chunks panicked", json!({"N": N, "len": len, "panic": p})),
        Ok(None) => return chunk_violation(cx, case, func, "pending_while_upstream_ready", "slice chunk stream pended", wit),
        Ok(Some(c)) => c,
    };
    let want_chunks = len.div_ceil(N);
    let seen = seen.into_inner();
    if chunks.len() != want_chunks || seen.len() != want_chunks {
        return chunk_violation(cx, case, func, "chunk_count", "wrong number of chunks", json!({"N": N, "len": len, "chunks": chunks.len(), "calls": seen.len()}));
    }
    for (k, (i, content, owned)) in seen.iter().enumerate() {
        let mut want: Vec<u32> = data[N * k..(N * (k + 1)).min(len)].to_vec();
        let partial = want.len() < N;
        want.resize(N, 0);
        if *i != k || *content != want {
            return chunk_violation(cx, case, func, "chunk_content", "chunk index / contents / zero padding wrong", json!({"N": N, "len": len, "chunk": k, "idx": i, "content": content, "want": want}));
        }
        if *owned != partial {
            cx.hit("chunk_ownership_unexpected", 1);
        }
    }
    let mut flat = Vec::new();
    for c in chunks {
        match c {
            Ok(c) => flat.extend(c),
            Err(_) => return chunk_violation(cx, case, func, "unexpected_error", "chunk future failed", wit),
        }
    }
    let want: Vec<u32> = data.iter().map(|x| x.wrapping_mul(3)).collect();
    if flat != want {
        let kind = if flat.len() > want.len() { "padding_leaked" } else if flat.len() < want.len() { "records_lost" } else { "records_corrupted" };
        return chunk_violation(cx, case, func, kind, "flattened chunk outputs differ from the input records", json!({"N": N, "len": len, "got_len": flat.len()}));
    }
    cx.hit("held_slice_chunks", 1);
    cx.distinct.insert(vlib::fxhash(&("slice", N, len)));
}

/// process_slice_by_chunks::<N> -> Chunk::unpack::<M> -> TryFlattenIters (twice), as protocol/hybrid/oprf.rs
fn unpack_case<const N: usize, const M: usize>(cx: &mut Cx, case: usize, len: usize, short: bool) {
    let data: Vec<u32> = (1..=len as u32).collect();
    let res = catch(|| {
        let st = process_slice_by_chunks::<_, _, _, _, N>(&data, |i, chunk: ChunkData<'_, u32, N>| {
            let valid = (len - i * N).min(N);
            let nsub = if short { valid.div_ceil(M) } else { N / M };
            let subs: Vec<[u32; M]> = (0..nsub).map(|j| <[u32; M]>::try_from(&chunk[j * M..(j + 1) * M]).unwrap()).collect();
            std::future::ready(Ok::<_, Error>(subs))
        });
        let flat = st
            .then(|f| f)
            .map_ok(Chunk::unpack::<M>)
            .try_flatten_iters()
            .map_ok(IntoIterator::into_iter)
            .try_flatten_iters();
        vlib::poll_now(flat.collect::<Vec<Result<u32, Error>>>())
    });
    cx.rec.eval();
    cx.hit("chunk_fn_runs", 1);
    let func = "Chunk::unpack";
    let wit = json!({"N": N, "M": M, "len": len, "short_partial": short});
    match res {
        Err(p) => chunk_violation(cx, case, func, "panic", "Chunk::unpack pipeline panicked on well-formed chunks", json!({"N": N, "M": M, "len": len, "short_partial": short, "panic": p})),
        Ok(None) => chunk_violation(cx, case, func, "pending_while_upstream_ready", "unpack pipeline pended", wit),
        Ok(Some(items)) => {
            let got: Option<Vec<u32>> = items.into_iter().map(Result::ok).collect();
            match got {
                Some(g) if g == data => {
                    cx.hit("held_unpack", 1);
                    cx.distinct.insert(vlib::fxhash(&("unpack", N, M, len, short)));
                }
                Some(g) => {
                    let kind = if g.len() > data.len() { "padding_leaked" } else if g.len() < data.len() { "records_lost" } else { "records_corrupted" };
                    chunk_violation(cx, case, func, kind, "unpacked + flattened records differ from the input", json!({"N": N, "M": M, "len": len, "short_partial": short, "got": g}));
                }
                None => chunk_violation(cx, case, func, "unexpected_error", "unpack pipeline failed", wit),
            }
        }
    }
}

/// process_stream_by_chunks::<N> fed by a stream (optionally failing at item `err_at`, optionally pending)
fn stream_chunks_case<const N: usize>(cx: &mut Cx, case: usize, len: usize, err_at: Option<usize>, pending: bool) {
    let mut items: Vec<Result<u32, Error>> = (1..=len as u32).map(Ok).collect();
    if let Some(j) = err_at {
        items.insert(j, Err(Error::Internal));
    }
    let src = Src::new(items, pending);
    let budget = src.pending_budget();
    let res = catch(move || {
        let st = process_stream_by_chunks::<_, _, _, _, _, _, N>(src, Vec::new(), |i, chunk: Box<[u32; N]>| {
            std::future::ready(Ok::<(usize, Vec<u32>), Error>((i, chunk.to_vec())))
        });
        drive(st.then(|f| f), budget, |_| false)
    });
    cx.rec.eval();
    cx.hit("chunk_fn_runs", 1);
    let func = "process_stream_by_chunks";
    let wit = json!({"N": N, "len": len, "err_at_item": err_at, "pending": pending});
    let (chunks, _p, stuck) = match res {
        Err(p) => return chunk_violation(cx, case, func, "panic", "process_stream_by_chunks panicked", json!({"N": N, "len": len, "err_at_item": err_at, "pending": pending, "panic": p})),
        Ok(x) => x,
    };
    if stuck {
        return chunk_violation(cx, case, func, "pending_while_upstream_ready", "returned Pending more often than its upstream", wit);
    }
    // reference: items before the error, in chunks of N, last one zero padded with its true length
    let avail = err_at.unwrap_or(len);
    let mut flat: Vec<u32> = Vec::new();
    let mut saw_err = false;
    for (k, c) in chunks.into_iter().enumerate() {
        match c {
            Ok(chunk) => {
                if saw_err {
                    return chunk_violation(cx, case, func, "items_after_error", "chunk yielded after the error", wit);
                }
                let mut idx = usize::MAX;
                let mut padded = Vec::new();
                let valid: Vec<u32> = chunk
                    .map(|(i, d)| {
                        idx = i;
                        padded = d.clone();
                        d
                    })
                    .into_iter()
                    .collect();
                let want_valid: Vec<u32> = (1..=len as u32).skip(k * N).take(N).collect();
                let mut want_padded = want_valid.clone();
                want_padded.resize(N, 0);
                let ok = idx == k && if err_at.is_some() { want_valid.starts_with(&valid) || valid == want_valid } else { valid == want_valid && padded == want_padded };
                if !ok {
                    return chunk_violation(cx, case, func, "chunk_content", "chunk index / contents / padding / length wrong", json!({"N": N, "len": len, "err_at_item": err_at, "chunk": k, "idx": idx, "valid": valid, "padded": padded}));
                }
                flat.extend(valid);
            }
            Err(_) => saw_err = true,
        }
    }
    let want: Vec<u32> = (1..=avail as u32).collect();
    let ok = match err_at {
        None => !saw_err && flat == want,
        Some(_) => saw_err && want.starts_with(&flat),
    };
    if !ok {
        let kind = if err_at.is_some() && !saw_err { "upstream_error_swallowed" } else if flat.len() > want.len() { "padding_leaked" } else { "records_lost" };
        return chunk_violation(cx, case, func, kind, "chunked stream output differs from the input items", json!({"N": N, "len": len, "err_at_item": err_at, "pending": pending, "got": flat, "saw_err": saw_err}));
    }
    cx.hit(if err_at.is_some() { "held_stream_chunks_err" } else { "held_stream_chunks" }, 1);
    cx.distinct.insert(vlib::fxhash(&("stream_chunks", N, len, err_at, pending)));
}

/// TryFlattenIters over batches of arbitrary sizes (empty batches included), error in the middle, Pending.
fn flatten_case(cx: &mut Cx, case: usize, sizes: &[usize], err_at: Option<usize>, pending: bool) {
    let mut next = 0u32;
    let mut items: Vec<Result<Vec<u32>, Error>> = sizes
        .iter()
        .map(|s| {
            Ok((0..*s)
                .map(|_| {
                    next += 1;
                    next
                })
                .collect())
        })
        .collect();
    let want: Vec<u32> = match err_at {
        None => (1..=next).collect(),
        Some(j) => (1..=sizes[..j].iter().sum::<usize>() as u32).collect(),
    };
    if let Some(j) = err_at {
        items.insert(j, Err(Error::Internal));
    }
    let src = Src::new(items, pending);
    let budget = src.pending_budget();
    let res = catch(move || drive(src.try_flatten_iters(), budget, |_| false));
    cx.rec.eval();
    cx.hit("chunk_fn_runs", 1);
    let func = "TryFlattenIters";
    let wit = json!({"batch_sizes": sizes, "err_at_batch": err_at, "pending": pending});
    let (out, _p, stuck) = match res {
        Err(p) => return chunk_violation(cx, case, func, "panic", "TryFlattenIters panicked", json!({"batch_sizes": sizes, "err_at_batch": err_at, "pending": pending, "panic": p})),
        Ok(x) => x,
    };
    if stuck {
        return chunk_violation(cx, case, func, "pending_while_upstream_ready", "returned Pending more often than its upstream", wit);
    }
    let n_err = out.iter().filter(|x| x.is_err()).count();
    let got: Vec<u32> = out.iter().take_while(|x| x.is_ok()).map(|x| *x.as_ref().ok().unwrap()).collect();
    let tail_ok = match err_at {
        None => n_err == 0 && out.len() == got.len(),
        // exactly: all items before the error, the error, then the end
        Some(_) => n_err == 1 && out.len() == got.len() + 1,
    };
    if got != want || !tail_ok {
        let kind = if !tail_ok && err_at.is_some() && out.len() > got.len() + 1 {
            "items_after_error"
        } else if got.len() < want.len() {
            "records_lost"
        } else {
            "records_differ"
        };
        return chunk_violation(cx, case, func, kind, "flattened stream differs from the concatenated batches", json!({"batch_sizes": sizes, "err_at_batch": err_at, "pending": pending, "got": got, "items": out.len(), "errors": n_err}));
    }
    cx.hit(if err_at.is_some() { "held_flatten_err" } else { "held_flatten" }, 1);
    cx.distinct.insert(vlib::fxhash(&("flatten", sizes, err_at, pending)));
}

fn chunk_group<const N: usize>(cx: &mut Cx, case: &mut usize, max_len: usize) {
    for len in 0..=max_len {
        let this = *case;
        *case += 1;
        if !cx.mine(this) {
            continue;
        }
        slice_case::<N>(cx, this, len);
        stream_chunks_case::<N>(cx, this, len, None, false);
        stream_chunks_case::<N>(cx, this, len, None, true);
        for j in [0, len / 2, len] {
            stream_chunks_case::<N>(cx, this, len, Some(j), len % 2 == 0);
        }
    }
}
fn unpack_group<const N: usize, const M: usize>(cx: &mut Cx, case: &mut usize, max_len: usize) {
    cx.rec.seen("unpack_shapes", format!("N={N},M={M}"));
    for len in 0..=max_len {
        let this = *case;
        *case += 1;
        if !cx.mine(this) {
            continue;
        }
        unpack_case::<N, M>(cx, this, len, false);
        unpack_case::<N, M>(cx, this, len, true);
    }
}

#[test]
fn verif_c17_chunk_processing() {
    let mut cx = Cx::new("verif_c17_chunk_processing");
    for f in ["process_slice_by_chunks", "process_stream_by_chunks", "Chunk::unpack", "TryFlattenIters"] {
        cx.rec.seen("parsers", f);
    }
    let mut case = 0usize;
    let k = cx.env.pick(3, 6);
    chunk_group::<1>(&mut cx, &mut case, 4 * k);
    chunk_group::<2>(&mut cx, &mut case, 2 * k + 3);
    chunk_group::<3>(&mut cx, &mut case, 3 * k + 2);
    chunk_group::<4>(&mut cx, &mut case, 4 * k + 3);
    chunk_group::<7>(&mut cx, &mut case, 7 * k + 6);
    chunk_group::<8>(&mut cx, &mut case, 8 * k + 7);
    chunk_group::<16>(&mut cx, &mut case, 16 * k + 15);
    chunk_group::<64>(&mut cx, &mut case, 64 * 2 + 63);
    chunk_group::<256>(&mut cx, &mut case, 256 + 255);
    unpack_group::<1, 1>(&mut cx, &mut case, 4);
    unpack_group::<2, 1>(&mut cx, &mut case, 2 * k + 1);
    unpack_group::<2, 2>(&mut cx, &mut case, 2 * k + 1);
    unpack_group::<4, 2>(&mut cx, &mut case, 4 * k + 3);
    unpack_group::<4, 1>(&mut cx, &mut case, 4 * k + 3);
    unpack_group::<6, 3>(&mut cx, &mut case, 6 * k + 5);
    unpack_group::<8, 2>(&mut cx, &mut case, 8 * k + 7);
    unpack_group::<8, 4>(&mut cx, &mut case, 8 * k + 7);
    unpack_group::<12, 4>(&mut cx, &mut case, 12 * k + 11);
    unpack_group::<16, 16>(&mut cx, &mut case, 16 * 2 + 15);
    unpack_group::<64, 16>(&mut cx, &mut case, 64 * 2 + 63);
    unpack_group::<256, 64>(&mut cx, &mut case, 256 + 255);
    // TryFlattenIters: all batch-size vectors over {0,1,2,3} of length <= L, error at every position
    let l = cx.env.pick(4, 6);
    let mut sizes: Vec<usize> = Vec::new();
    loop {
        let this = case;
        case += 1;
        if cx.mine(this) {
            flatten_case(&mut cx, this, &sizes, None, false);
            flatten_case(&mut cx, this, &sizes, None, true);
            for j in 0..=sizes.len() {
                flatten_case(&mut cx, this, &sizes, Some(j), j % 2 == 1);
            }
        }
        // next vector in length-lexicographic order
        let mut i = sizes.len();
        loop {
            if i == 0 {
                sizes = vec![0; sizes.len() + 1];
                break;
            }
            i -= 1;
            if sizes[i] < 3 {
                sizes[i] += 1;
                for s in &mut sizes[i + 1..] {
                    *s = 0;
                }
                break;
            }
        }
        if sizes.len() > l {
            break;
        }
    }
    cx.finish();
}

// ---------------------------------------------------------------------------------------------
// FixedLength
// ---------------------------------------------------------------------------------------------

/// FixedLength over a record stream: transparent for the items, `len()` counts down by one per item.
/// A declared length that differs from the real one is a documented debug-build assertion
/// ("FixedLength stream ended with …", see exact.rs tests `oversized`/`undersized`): counted, not a violation.
fn fixed_length_case(cx: &mut Cx, case: usize, n_records: usize, declared: usize, tail: usize, feed_style: usize, pending: bool) {
    let mut r = VRng::new(cx.env.seed ^ 0xf1_7ed, case as u64);
    let mut bytes = r.bytes(n_records * 2 + tail);
    for c in bytes.chunks_mut(2) {
        if c[0] == MARK {
            c[0] = 1;
        }
    }
    let (lens, _) = seeded_lens(&mut r, bytes.len(), feed_style, 2, &[]);
    let feed = Feed { lens, err_at: None, pending };
    let reference = ref_fixed(&bytes, 2, <Raw<U2> as RecTy>::valid, false);
    // items the inner stream yields (the trailing-data error is an item as well)
    let inner_items = reference.recs.len() + usize::from(reference.err.is_some());
    let src = byte_src(&bytes, &feed);
    let budget = src.pending_budget();
    let res = catch(move || {
        let inner: SingleRecordStream<Raw<U2>, _> = RecordsStream::new(src);
        let mut fl = Box::pin(FixedLength::new(inner, declared));
        let waker = futures::task::noop_waker();
        let mut tcx = Context::from_waker(&waker);
        let mut recs: Vec<Vec<u8>> = Vec::new();
        let mut errs = 0usize;
        let mut lens_seen = vec![fl.len()];
        let mut pend = 0;
        loop {
            match fl.as_mut().poll_next(&mut tcx) {
                Poll::Ready(None) => break,
                Poll::Ready(Some(Ok(t))) => recs.push(ser(&t)),
                Poll::Ready(Some(Err(_))) => {
                    // stop like try_collect does (RecordsStream keeps repeating the trailing-data error)
                    errs += 1;
                    lens_seen.push(fl.len());
                    break;
                }
                Poll::Pending => {
                    pend += 1;
                    if pend > budget {
                        return None;
                    }
                    continue;
                }
            }
            lens_seen.push(fl.len());
        }
        Some((recs, errs, lens_seen, fl.is_empty()))
    });
    cx.rec.eval();
    cx.hit("fixed_length_runs", 1);
    let wit = json!({"case": case, "bytes": short_hex(&bytes), "records": n_records, "tail_bytes": tail, "declared_len": declared, "feed": feed.to_json()});
    let sig = |kind: &str| json!({"kind": kind, "parser": "FixedLength"});
    match res {
        Err(p) if declared != inner_items && p.contains("FixedLength stream ended with") => {
            cx.hit("fixed_length_mismatch_debug_assert", 1);
            cx.distinct.insert(vlib::fxhash(&("fixed_mismatch", n_records, declared, tail)));
        }
        Err(p) => {
            let mut w = wit;
            w["panic"] = json!(p);
            cx.rec.violation("FixedLength panicked although the declared length was right", json!({"kind": "panic", "parser": "FixedLength", "panic": panic_class(&p)}), w);
        }
        Ok(None) => cx.rec.violation("FixedLength returned Pending more often than its upstream", sig("pending_while_upstream_ready"), wit),
        Ok(Some((recs, errs, lens_seen, empty))) => {
            let want_lens: Vec<usize> = (0..=inner_items).map(|i| declared.wrapping_sub(i)).collect();
            if recs != reference.recs || errs != usize::from(reference.err.is_some()) {
                cx.rec.violation("FixedLength changed the items of the wrapped stream", sig("records_differ"), wit);
            } else if lens_seen != want_lens {
                let mut w = wit;
                w["len_seen"] = json!(lens_seen);
                cx.rec.violation("FixedLength::len() does not count down by one per item", sig("len_accounting"), w);
            } else if declared == inner_items && !empty {
                cx.rec.violation("FixedLength not empty after the last item", sig("len_accounting"), wit);
            } else {
                cx.hit(if declared == inner_items { "held_fixed_length" } else { "fixed_length_mismatch_passed_through" }, 1);
                cx.distinct.insert(vlib::fxhash(&("fixed", n_records, declared, tail, feed_style % STYLES, pending)));
            }
        }
    }
}

#[test]
fn verif_c17_fixed_length() {
    let mut cx = Cx::new("verif_c17_fixed_length");
    cx.rec.seen("parsers", "FixedLength<RecordsStream<Raw2,Single>>");
    let max = cx.env.pick(24, 120);
    let mut case = 0usize;
    for n_records in 0..=max {
        for tail in 0..2usize {
            let items = n_records + tail;
            for (d, declared) in [items, items + 1, items.saturating_sub(1), 0, items + 7].into_iter().enumerate() {
                for style in 0..STYLES {
                    let this = case;
                    case += 1;
                    if cx.mine(this) {
                        fixed_length_case(&mut cx, this, n_records, declared, tail, style, (style + d) % 2 == 0);
                    }
                }
            }
        }
    }
    cx.finish();
}

// ---------------------------------------------------------------------------------------------
// reduced set sized for Miri (several hundred parses); `verif_c17_reduced_native_x1` runs the same natively in b1
// ---------------------------------------------------------------------------------------------

/// plain, Pending, empty chunks everywhere, an upstream error in the middle
fn feeds_light(base: &[usize]) -> Vec<Feed> {
    let mut all = vec![0];
    for l in base {
        all.push(*l);
        all.push(0);
    }
    vec![
        Feed { lens: base.to_vec(), err_at: None, pending: false },
        Feed { lens: base.to_vec(), err_at: None, pending: true },
        Feed { lens: all, err_at: None, pending: false },
        Feed { lens: base.to_vec(), err_at: Some(base.len() / 2), pending: base.len() % 2 == 0 },
    ]
}

fn exhaust_light(cx: &mut Cx, case: usize, p: &Parser<'_>, variant: &str, bytes: &[u8]) {
    let n = bytes.len();
    let mut cache = HashMap::new();
    for mask in 0..(1u32 << n.saturating_sub(1)) {
        for f in feeds_light(&lens_of_mask(n, mask)) {
            check_feed(cx, p, case, variant, bytes, &f, &mut cache);
        }
        cx.hit("chunkings_enumerated", 1);
    }
}

fn reduced_set(test: &'static str) {
    let mut cx = Cx::new(test);
    let mut case = 0usize;
    // fixed-size records: size 1 (n = 4), size 3 (n = 5: one record + a truncated one), BA20 (padding bits)
    for p in records_parsers::<Raw<U1>>().into_iter().skip(1) {
        cx.rec.seen("parsers", p.name.clone());
        exhaust_light(&mut cx, case, &p, "valid", &[1, 2, 3, 4]);
        exhaust_light(&mut cx, case, &p, "invalid_middle", &[1, MARK, 3, 4]);
        case += 1;
    }
    for p in records_parsers::<Raw<U3>>() {
        cx.rec.seen("parsers", p.name.clone());
        exhaust_light(&mut cx, case, &p, "valid", &[1, MARK, 3, 4, 5]);
        exhaust_light(&mut cx, case, &p, "valid", &[1, 2, 3, 4, 5, 6]);
        case += 1;
    }
    for p in records_parsers::<BA20>().into_iter().skip(1) {
        cx.rec.seen("parsers", p.name.clone());
        exhaust_light(&mut cx, case, &p, "invalid_encoding", &[0xFF, 0xFF, 0x0F, 0x01, 0x02, 0x13]);
        case += 1;
    }
    for p in records_parsers::<Raw<U8>>() {
        cx.rec.seen("parsers", p.name.clone());
        let bytes: Vec<u8> = (0..17).collect();
        let mut cache = HashMap::new();
        for lens in [vec![17], vec![4, 13], vec![1; 17], vec![8, 0, 9], vec![5, 5, 5, 2]] {
            check_feed(&mut cx, &p, case, "valid", &bytes, &Feed { lens, err_at: None, pending: true }, &mut cache);
        }
        case += 1;
    }
    // length-delimited: short streams, all chunkings
    let lds = ld_parsers();
    for p in [&lds[0], &lds[3]] {
        cx.rec.seen("parsers", p.name.clone());
        exhaust_light(&mut cx, case, p, "complete", &encode_ld(&[vec![7], vec![]]));
        exhaust_light(&mut cx, case, p, "marker_leading", &encode_ld(&[vec![], vec![MARK]]));
        exhaust_light(&mut cx, case, p, "cut:inside_body", &[0, 0, 2, 0, 5]);
        exhaust_light(&mut cx, case, p, "cut:inside_length_prefix", &[1, 0, 5, 2]);
        case += 1;
    }
    // one longer stream with the extreme record lengths
    {
        let mut r = VRng::new(cx.env.seed ^ 0x3141, 0);
        let bodies: Vec<Vec<u8>> = [0usize, 300, 1, 255, 256, 17].iter().map(|l| vec![0x5A; *l]).collect();
        let bytes = encode_ld(&bodies);
        let mut cache = HashMap::new();
        for style in [1usize, 4, 7] {
            let (lens, _) = seeded_lens(&mut r, bytes.len(), style, 2, &[]);
            check_feed(&mut cx, &lds[0], case, "complete", &bytes, &Feed { lens, err_at: None, pending: style == 4 }, &mut cache);
        }
        case += 1;
    }
    // re-chunking
    for n in [0usize, 1, 4] {
        let bytes: Vec<u8> = (0..n as u8).collect();
        for mask in 0..(1u32 << n.saturating_sub(1)) {
            for f in feeds_light(&lens_of_mask(n, mask)) {
                for sz in [1, 3, n + 1] {
                    check_buffered(&mut cx, case, &bytes, &f, sz);
                }
            }
        }
        case += 1;
    }
    // chunk processing + FixedLength
    for len in 0..=9 {
        slice_case::<4>(&mut cx, case, len);
        unpack_case::<4, 2>(&mut cx, case, len, len % 2 == 0);
        stream_chunks_case::<4>(&mut cx, case, len, if len % 3 == 0 { Some(len / 2) } else { None }, len % 2 == 1);
    }
    flatten_case(&mut cx, case, &[2, 0, 3, 1], Some(2), true);
    flatten_case(&mut cx, case, &[0, 0, 2], None, false);
    fixed_length_case(&mut cx, case, 5, 5, 0, 2, true);
    fixed_length_case(&mut cx, case, 3, 4, 1, 1, false);
    cx.finish();
}

#[test]
fn verif_c17_miri_reduced() {
    reduced_set("verif_c17_miri_reduced");
}

#[test]
fn verif_c17_reduced_native_x1() {
    reduced_set("verif_c17_reduced_native_x1");
}
