// C12 Privacy noise and dummy records follow the documented (epsilon, delta) law.
//
// This file is included as `crate::protocol::dp::verif_dp::c12` (hook H4), hence `super::super::X` reaches the
// private items of protocol/dp/mod.rs (the shifted noise sampler).
//
// Monitors
//  (1) verif_c12_truncation_point : OPRFPaddingDp::get_shift() vs an independent n* (closed-form geometric sums in
//      f64 here, re-computed with 60 digits by lib/dp_ref.py which this test runs as a sub-process); parameters
//      whose decision margin is below 1e-9 (or where the two references disagree) are boundary-ambiguous: counted,
//      skipped, never an alarm.
//  (2) verif_c12_scripted_sampler : a scripted RngCore decides every Bernoulli trial inside Geometric /
//      DoubleGeometric / TruncatedDoubleGeometric; every (attempts1, attempts2) path is enumerated, the output and
//      the accept/reject decision are observed exactly, the Bernoulli threshold is read back by bisection and
//      compared with 1-exp(-eps); the pmf on 0..2n follows arithmetically.
//      verif_c12_chi2_evidence : seeded real-RNG chi-square, evidence only (alarm at p < 1e-12).
//  (3) verif_c12_share_mapping : ShiftedTruncatedDiscreteLaplace::sample_shares driven to every support point at
//      widths 8/16/32: the two generated shares reconstruct to (x-n) mod 2^w, zero share on the excluded side.
//  (4) verif_c12_constructors, verif_c12_hist_eps_range : accept/reject grids vs the conditions the constructors
//      state in their doc comments / error texts.
//  (5) verif_c12_padding_rows, verif_c12_noise_passes : three in-memory helpers (TestWorld, paused clock).

use std::{
    collections::{BTreeMap, BTreeSet},
    io::Write as _,
    time::Duration,
};

use rand::distributions::Distribution;
use serde_json::{Value, json};

use super::super::{NoiseParams, ShiftedTruncatedDiscreteLaplace};
use crate::{
    ff::{
        U128Conversions,
        boolean_array::{BA8, BA16, BA32, BooleanArray},
    },
    helpers::Direction,
    protocol::ipa_prf::oprf_padding::{
        distributions::{DoubleGeometric, Geometric, TruncatedDoubleGeometric},
        insecure::OPRFPaddingDp,
    },
    secret_sharing::replicated::{ReplicatedSecretSharing, semi_honest::AdditiveShare as Replicated},
    verif::vlib::{self, Recorder, VRng, catch},
};

const P: &str = "C12";

// ---------------------------------------------------------------------------------------------
// the documented grid
// ---------------------------------------------------------------------------------------------

const EPS_GRID: [f64; 12] = [0.01, 0.02, 0.05, 0.1, 0.25, 0.5, 1.0, 2.0, 3.5, 5.0, 10.0, 20.0];
const DELTA_GRID: [f64; 8] = [1e-12, 1e-10, 1e-9, 1e-8, 1e-7, 1e-6, 1e-4, 1e-2];
const SENS_GRID: [u32; 6] = [1, 2, 3, 10, 100, 1000];
const AMBIGUITY: f64 = 1e-9;

fn replay_case() -> Option<usize> {
    let p = vlib::env().replay?;
    let w: Value = serde_json::from_str(&std::fs::read_to_string(p).ok()?).ok()?;
    w["witness"]["case"].as_u64().map(|v| v as usize)
}

// ---------------------------------------------------------------------------------------------
// (1) reference for the truncation point
// ---------------------------------------------------------------------------------------------

/// Total probability of the `sens` outermost support points on one side of the law
/// Pr(x) = A r^|n-x| on 0..2n (r = e^-eps, A = (1-r)/(1+r-2r^(n+1))):
/// A * sum_{k=n-sens+1}^{n} r^k = r^(n-sens+1) (1-r^sens) / ((1-r^(n+1)) + r (1-r^n)).
/// Closed form; every difference of the shape 1-r^k is evaluated with exp_m1 (no cancellation).
fn tail_f64(eps: f64, n: u32, sens: u32) -> f64 {
    let one_minus_r_pow = |k: f64| -(-eps * k).exp_m1();
    let num = (-eps * f64::from(n - sens + 1)).exp() * one_minus_r_pow(f64::from(sens));
    let den = one_minus_r_pow(f64::from(n + 1)) + (-eps).exp() * one_minus_r_pow(f64::from(n));
    num / den
}

/// Smallest n >= sens with tail(n) <= delta (tail is strictly decreasing in n), plus the two decision margins
/// (delta - tail(n*))/delta and (tail(n*-1) - delta)/delta (infinite when n* = sens).
fn smallest_n_f64(eps: f64, delta: f64, sens: u32) -> (u32, f64, f64) {
    let n = if tail_f64(eps, sens, sens) <= delta {
        sens
    } else {
        let mut lo = sens;
        let mut hi = (2 * sens).max(2);
        while tail_f64(eps, hi, sens) > delta {
            lo = hi;
            hi *= 2;
            assert!(hi < (1 << 30), "reference: no truncation point below 2^30");
        }
        while hi - lo > 1 {
            let mid = lo + (hi - lo) / 2;
            if tail_f64(eps, mid, sens) <= delta {
                hi = mid;
            } else {
                lo = mid;
            }
        }
        hi
    };
    let m_hi = (delta - tail_f64(eps, n, sens)) / delta;
    let m_lo = if n == sens { f64::INFINITY } else { (tail_f64(eps, n - 1, sens) - delta) / delta };
    (n, m_hi, m_lo)
}

struct PyRef {
    n: u32,
    m_hi: f64,
    m_lo: f64,
}

/// Run lib/dp_ref.py (python `decimal`, 60 digits) on the given points. Err = could not be run.
fn python_reference(points: &[(f64, f64, u32)]) -> Result<Vec<PyRef>, String> {
    use std::process::{Command, Stdio};
    let script = concat!(env!("IPA_VERIF_DIR"), "/lib/dp_ref.py");
    let mut child = Command::new("python3")
        .arg(script)
        .arg("--stdin")
        .stdin(Stdio::piped())
        .stdout(Stdio::piped())
        .stderr(Stdio::piped())
        .spawn()
        .map_err(|e| format!("cannot start python3 {script}: {e}"))?;
    {
        let mut stdin = child.stdin.take().unwrap();
        let mut text = String::new();
        for (e, d, s) in points {
            text.push_str(&format!("{:016x} {:016x} {}\n", e.to_bits(), d.to_bits(), s));
        }
        stdin.write_all(text.as_bytes()).map_err(|e| format!("write to dp_ref.py: {e}"))?;
    }
    let out = child.wait_with_output().map_err(|e| format!("dp_ref.py: {e}"))?;
    if !out.status.success() {
        return Err(format!(
            "dp_ref.py exit {:?}: {}",
            out.status.code(),
            String::from_utf8_lossy(&out.stderr).chars().take(300).collect::<String>()
        ));
    }
    let mut res = Vec::new();
    for ln in String::from_utf8_lossy(&out.stdout).lines() {
        let p: Vec<&str> = ln.split_whitespace().collect();
        if p.len() != 3 {
            continue;
        }
        let f = |s: &str| if s == "inf" { Ok(f64::INFINITY) } else { s.parse::<f64>().map_err(|e| e.to_string()) };
        res.push(PyRef { n: p[0].parse().map_err(|e| format!("{e}"))?, m_hi: f(p[1])?, m_lo: f(p[2])? });
    }
    if res.len() != points.len() {
        return Err(format!("dp_ref.py answered {} of {} points", res.len(), points.len()));
    }
    Ok(res)
}

const TIE_POINTS: usize = 72;

/// Grid point #idx: the documented 12 x 8 x 6 grid first, then 72 constructed points whose delta is (up to a factor
/// 1, 1+1e-6, 1-1e-6) the tail mass of some n0 itself (exact ties must be classified boundary-ambiguous, near ties must be
/// decided correctly), then seeded log-uniform points.
fn grid_point(idx: usize, seed: u64) -> (f64, f64, u32, &'static str) {
    let base = EPS_GRID.len() * DELTA_GRID.len() * SENS_GRID.len();
    if idx < base {
        let s = SENS_GRID[idx % SENS_GRID.len()];
        let d = DELTA_GRID[(idx / SENS_GRID.len()) % DELTA_GRID.len()];
        let e = EPS_GRID[idx / (SENS_GRID.len() * DELTA_GRID.len())];
        (e, d, s, "grid")
    } else if idx < base + TIE_POINTS {
        let j = idx - base;
        let e = EPS_GRID[j % 12];
        let s = [1u32, 7][(j / 12) % 2];
        let (n0, _, _) = smallest_n_f64(e, 1e-6, s);
        let t = tail_f64(e, n0 + 2, s);
        match j / 24 {
            0 => (e, t, s, "constructed_tie"),
            1 => (e, t * (1.0 + 1e-6), s, "near_tie_above"),
            _ => (e, t * (1.0 - 1e-6), s, "near_tie_below"),
        }
    } else {
        let mut r = VRng::new(seed ^ 0xC12_0001, idx as u64);
        let u = |r: &mut VRng| (r.next() >> 11) as f64 / (1u64 << 53) as f64;
        let e = 0.01 * (2000.0f64).powf(u(&mut r)); // [0.01, 20]
        let d = 1e-12 * (1e10f64).powf(u(&mut r)); // [1e-12, 1e-2]
        let s = match r.below(4) {
            0 => 1 + r.below(4) as u32,
            1 => 1 + r.below(30) as u32,
            _ => 1 + r.below(1000) as u32,
        };
        (e, d, s, "seeded")
    }
}

#[test]
fn verif_c12_truncation_point() {
    let env = vlib::env();
    let mut rec = Recorder::new(P, "verif_c12_truncation_point");
    let base = EPS_GRID.len() * DELTA_GRID.len() * SENS_GRID.len();
    let total = base + TIE_POINTS + env.pick(1200, 30_000);
    let only = replay_case();
    let mine: Vec<usize> = (0..total).filter(|i| env.mine(*i) && only.is_none_or(|c| c == *i)).collect();
    let pts: Vec<(f64, f64, u32)> = mine
        .iter()
        .map(|i| {
            let (e, d, s, _) = grid_point(*i, env.seed);
            (e, d, s)
        })
        .collect();
    let py = match python_reference(&pts) {
        Ok(v) => v,
        Err(e) => {
            rec.inconclusive(format!("60-digit reference unavailable: {e}"));
            rec.finish();
            return;
        }
    };
    let side = std::env::var("VERIF_WITNESS").ok().map(|w| format!("{w}/../c12_grid.{}.jsonl", env.shard));
    let mut side_text = String::new();
    for ((idx, (eps, delta, sens)), pyr) in mine.iter().zip(pts.iter().copied()).zip(&py) {
        let (_, _, _, origin) = grid_point(*idx, env.seed);
        rec.eval();
        let (n_ref, m_hi, m_lo) = smallest_n_f64(eps, delta, sens);
        let code = catch(|| OPRFPaddingDp::new(eps, delta, sens).map(|d| d.get_shift()));
        let margin = m_hi.min(m_lo).min(pyr.m_hi).min(pyr.m_lo);
        let class = if n_ref != pyr.n {
            "references_disagree"
        } else if !(margin >= AMBIGUITY) {
            "boundary_ambiguous"
        } else {
            "decided"
        };
        let n_code: Option<u32> = match &code {
            Ok(Ok(n)) => Some(*n),
            _ => None,
        };
        side_text.push_str(
            &json!({"case": idx, "eps": eps, "delta": delta, "sens": sens,
                    "eps_bits": format!("{:016x}", eps.to_bits()), "delta_bits": format!("{:016x}", delta.to_bits()),
                    "n_ref_f64": n_ref, "n_ref_py": pyr.n, "n_code": n_code, "margin": margin, "class": class})
            .to_string(),
        );
        side_text.push('\n');
        rec.seen("truncation_classes", class);
        if class != "decided" {
            rec.count(if class == "boundary_ambiguous" { "truncation_boundary_ambiguous_skipped" } else { "truncation_references_disagree_skipped" });
            continue;
        }
        let witness = json!({"case": idx, "epsilon": eps, "delta": delta, "sensitivity": sens, "n_reference": n_ref,
                             "n_reference_60_digits": pyr.n, "code": format!("{code:?}"),
                             "tail_at_reference": tail_f64(eps, n_ref, sens),
                             "tail_below_reference": if n_ref > sens { json!(tail_f64(eps, n_ref - 1, sens)) } else { Value::Null },
                             "decision_margin": margin});
        match code {
            Ok(Ok(n)) if n == n_ref => {
                rec.count("truncation_point_equal");
                rec.distinct(&(eps.to_bits(), delta.to_bits(), sens));
                if rec.want_sample() {
                    rec.sample(serde_json::json!({"truncation_point_case": {"epsilon": eps, "delta": delta, "sensitivity": sens}}));
                }
                rec.seen("truncation_origin", origin);
                if n == sens {
                    rec.count("truncation_point_at_sensitivity_floor");
                }
                if rec.want_sample() && idx % 97 == 5 {
                    rec.sample(json!({"case": idx, "epsilon": eps, "delta": delta, "sensitivity": sens, "n": n,
                                      "achieved_delta": tail_f64(eps, n, sens), "margin": margin}));
                }
            }
            Ok(Ok(n)) => rec.violation(
                "get_shift() is not the smallest truncation point whose tail mass is <= delta",
                json!({"kind": "truncation_point", "direction": if n < n_ref { "too_small" } else { "too_large" },
                       "off_by_one": n.abs_diff(n_ref) == 1}),
                witness,
            ),
            Ok(Err(e)) => rec.violation(
                "OPRFPaddingDp::new rejected parameters inside the documented range",
                json!({"kind": "constructor_range", "ctor": "OPRFPaddingDp::new", "param": "grid",
                       "error": format!("{e:?}").chars().take(40).collect::<String>()}),
                witness,
            ),
            Err(p) => rec.violation(
                "panic while constructing OPRFPaddingDp inside the documented range",
                json!({"kind": "panic", "ctor": "OPRFPaddingDp::new"}),
                json!({"case": idx, "epsilon": eps, "delta": delta, "sensitivity": sens, "panic": p}),
            ),
        }
    }
    if let Some(p) = side {
        let _ = std::fs::write(p, side_text);
    }
    rec.finish();
}

// ---------------------------------------------------------------------------------------------
// (2) scripted randomness
// ---------------------------------------------------------------------------------------------

const FAIL: u64 = u64::MAX; // v < p_int is false for every threshold
const SUCC: u64 = 0; // v < p_int is true for every positive threshold

/// Deterministic RngCore: hands out the scripted 64-bit words, then `SUCC` forever. rand's Bernoulli draws exactly
/// one u64 `v` per trial and succeeds iff v < floor(p * 2^64); any other use of the RNG is recorded in `other`.
struct Script {
    vals: Vec<u64>,
    pos: usize,
    draws: u64,
    other: u64,
}
impl Script {
    fn new(vals: Vec<u64>) -> Self {
        Script { vals, pos: 0, draws: 0, other: 0 }
    }
    /// a1 failures, success, a2 failures, success
    fn path(a1: u32, a2: u32) -> Self {
        let mut v = Vec::with_capacity((a1 + a2 + 2) as usize);
        v.extend(std::iter::repeat_n(FAIL, a1 as usize));
        v.push(SUCC);
        v.extend(std::iter::repeat_n(FAIL, a2 as usize));
        v.push(SUCC);
        Script::new(v)
    }
}
impl rand::RngCore for Script {
    fn next_u32(&mut self) -> u32 {
        self.other += 1;
        0
    }
    fn next_u64(&mut self) -> u64 {
        self.draws += 1;
        let v = self.vals.get(self.pos).copied().unwrap_or(SUCC);
        self.pos += 1;
        v
    }
    fn fill_bytes(&mut self, dest: &mut [u8]) {
        self.other += 1;
        dest.fill(0);
    }
    fn try_fill_bytes(&mut self, dest: &mut [u8]) -> Result<(), rand::Error> {
        self.fill_bytes(dest);
        Ok(())
    }
}
impl rand::CryptoRng for Script {}

/// Smallest v for which the trial at script position `prefix.len()` fails (= the integer threshold of the
/// Bernoulli), found by bisection on the observable (output, number of draws). None = no v fails.
fn read_threshold(prefix: &[u64], run: &dyn Fn(&mut Script) -> i64) -> Option<u64> {
    let obs = |v: u64| {
        let mut s = Script::new(prefix.iter().copied().chain(std::iter::once(v)).collect());
        let out = run(&mut s);
        (out, s.draws)
    };
    let success = obs(SUCC);
    if obs(FAIL) == success {
        return None;
    }
    // invariant: obs(lo) == success, obs(hi) != success
    let (mut lo, mut hi) = (0u64, u64::MAX);
    while hi - lo > 1 {
        let mid = lo + (hi - lo) / 2;
        if obs(mid) == success {
            lo = mid;
        } else {
            hi = mid;
        }
    }
    Some(hi)
}

fn two_pow_64() -> f64 {
    18_446_744_073_709_551_616.0
}

struct SamplerCfg {
    eps: f64,
    /// explicit truncation point (direct TruncatedDoubleGeometric) or (delta, sensitivity) through OPRFPaddingDp
    n: Option<u32>,
    dp: Option<(f64, u32)>,
}

fn sampler_cfgs(thorough: bool) -> Vec<SamplerCfg> {
    let mut v = Vec::new();
    let ns: &[u32] = if thorough { &[0, 1, 2, 3, 4, 5, 8, 13, 21, 34, 55, 89] } else { &[0, 1, 2, 3, 5, 8, 13, 25, 40] };
    let epss: &[f64] = if thorough { &EPS_GRID } else { &[0.01, 0.1, 0.5, 1.0, 2.0, 5.0, 10.0, 20.0] };
    for e in epss {
        for n in ns {
            v.push(SamplerCfg { eps: *e, n: Some(*n), dp: None });
        }
    }
    // through OPRFPaddingDp::new / sample (the production entry point), incl. the production defaults
    let dps: &[(f64, f64, u32)] = if thorough {
        &[(5.0, 1e-6, 2), (5.0, 1e-6, 10), (10.0, 1e-4, 3), (10.0, 1e-4, 2), (1.0, 1e-6, 8), (1.0, 1e-6, 10), (0.5, 1e-7, 1),
          (0.1, 1e-6, 1), (0.1, 1e-8, 100), (0.05, 1e-9, 10), (0.01, 1e-6, 8), (0.01, 1e-8, 1000), (20.0, 1e-12, 1),
          (2.0, 1e-9, 1000), (0.25, 1e-10, 3)]
    } else {
        &[(5.0, 1e-6, 2), (5.0, 1e-6, 10), (10.0, 1e-4, 3), (10.0, 1e-4, 2), (1.0, 1e-6, 8), (0.1, 1e-6, 1), (0.05, 1e-9, 10),
          (0.01, 1e-6, 8)]
    };
    for (e, d, s) in dps {
        v.push(SamplerCfg { eps: *e, n: None, dp: Some((*d, *s)) });
    }
    v
}

enum Sampler {
    Direct(TruncatedDoubleGeometric),
    Dp(OPRFPaddingDp),
}
impl Sampler {
    fn sample(&self, s: &mut Script) -> u32 {
        match self {
            Sampler::Direct(t) => t.sample(s),
            Sampler::Dp(d) => d.sample(s),
        }
    }
}

#[test]
fn verif_c12_scripted_sampler() {
    let env = vlib::env();
    let mut rec = Recorder::new(P, "verif_c12_scripted_sampler");
    let only = replay_case();
    let cfgs = sampler_cfgs(env.thorough);
    let mut protocol_ok = true;

    // ---- (a) Geometric and DoubleGeometric directly -------------------------------------------------
    let probs: &[f64] = &[0.5, 0.25, 0.009_950_166_250_831_893, 0.999_999_997_938_846_4, 1e-9, 0.632_120_558_828_557_7];
    for (ci, p) in probs.iter().enumerate() {
        let case = 10_000 + ci;
        if !env.mine(case) || only.is_some_and(|c| c != case) {
            continue;
        }
        let g = match Geometric::new(*p) {
            Ok(g) => g,
            Err(e) => {
                rec.violation("Geometric::new rejected a probability in (0,1)", json!({"kind": "constructor_range", "ctor": "Geometric::new"}),
                              json!({"case": case, "p": p, "error": format!("{e:?}")}));
                continue;
            }
        };
        // number of failures before the first success, for scripted failure counts
        for a in (0..60u32).chain([100, 1000, 20_000]) {
            rec.eval();
            let mut s = Script::path(a, 0);
            let out = catch(|| g.sample(&mut s));
            if s.other > 0 {
                protocol_ok = false;
            }
            if out == Ok(a) && s.draws == u64::from(a) + 1 {
                rec.count("geometric_paths_exact");
                rec.distinct(&("geo", ci, a));
            } else {
                rec.violation("Geometric::sample did not return the number of failed trials before the first success",
                              json!({"kind": "geometric_count"}), json!({"case": case, "p": p, "failures": a, "got": format!("{out:?}"), "draws": s.draws}));
            }
        }
        // threshold of the k-th trial
        for k in [0usize, 1, 5] {
            rec.eval();
            let prefix = vec![FAIL; k];
            let t = read_threshold(&prefix, &|s| i64::from(g.sample(s)));
            let p_obs = t.map_or(1.0, |t| t as f64 / two_pow_64());
            if (p_obs - p).abs() <= 1e-12 * p + 2.0 / two_pow_64() {
                rec.count("bernoulli_threshold_read");
                rec.distinct(&("geo-thr", ci, k));
            } else {
                rec.violation("Bernoulli threshold of Geometric differs from the requested success probability",
                              json!({"kind": "bernoulli_threshold", "where": "Geometric"}),
                              json!({"case": case, "p": p, "trial": k, "threshold": t, "p_observed": p_obs}));
            }
        }
    }
    for (ci, (eps, shift)) in [(1.0f64, 0u32), (0.5, 7), (5.0, 3), (0.01, 100), (20.0, 1), (2.0, 1_000_000)].iter().enumerate() {
        let case = 11_000 + ci;
        if !env.mine(case) || only.is_some_and(|c| c != case) {
            continue;
        }
        let dg = match DoubleGeometric::new(1.0 / eps, *shift) {
            Ok(d) => d,
            Err(e) => {
                rec.violation("DoubleGeometric::new rejected valid parameters", json!({"kind": "constructor_range", "ctor": "DoubleGeometric::new"}),
                              json!({"case": case, "eps": eps, "shift": shift, "error": format!("{e:?}")}));
                continue;
            }
        };
        let lim = 24u32;
        for a1 in 0..=lim {
            for a2 in 0..=lim {
                rec.eval();
                let mut s = Script::path(a1, a2);
                let out = catch(|| dg.sample(&mut s));
                if s.other > 0 {
                    protocol_ok = false;
                }
                let want = i64::from(*shift) + i64::from(a1) - i64::from(a2);
                if out.as_ref().map(|v| i64::from(*v)) == Ok(want) && s.draws == u64::from(a1 + a2) + 2 {
                    rec.count("double_geometric_paths_exact");
                    rec.distinct(&("dg", ci, a1, a2));
                } else {
                    rec.violation("DoubleGeometric::sample is not shift + attempts1 - attempts2",
                                  json!({"kind": "double_geometric_value"}),
                                  json!({"case": case, "eps": eps, "shift": shift, "a1": a1, "a2": a2, "got": format!("{out:?}"), "draws": s.draws}));
                }
            }
        }
        rec.eval();
        let p_ref = -(-eps).exp_m1();
        for (name, prefix) in [("first_trial_of_x1", vec![]), ("second_trial_of_x1", vec![FAIL]), ("first_trial_of_x2", vec![SUCC]),
                               ("third_trial_of_x2", vec![FAIL, SUCC, FAIL, FAIL])] {
            let t = read_threshold(&prefix, &|s| i64::from(dg.sample(s)));
            let p_obs = t.map_or(1.0, |t| t as f64 / two_pow_64());
            if (p_obs - p_ref).abs() <= 1e-11 * p_ref {
                rec.count("bernoulli_threshold_read");
                rec.distinct(&("dg-thr", ci, name));
            } else {
                rec.violation("Bernoulli threshold inside DoubleGeometric is not 1 - exp(-epsilon)",
                              json!({"kind": "bernoulli_threshold", "where": "DoubleGeometric", "trial": name}),
                              json!({"case": case, "eps": eps, "threshold": t, "p_observed": p_obs, "p_reference": p_ref}));
            }
        }
    }

    // ---- (b) the truncated sampler: every path --------------------------------------------------------
    for (ci, cfg) in cfgs.iter().enumerate() {
        if !env.mine(ci) || only.is_some_and(|c| c != ci) {
            continue;
        }
        let eps = cfg.eps;
        let desc = json!({"case": ci, "epsilon": eps, "n": cfg.n, "delta_sensitivity": cfg.dp.map(|(d, s)| json!([d, s]))});
        let built = catch(|| match (cfg.n, cfg.dp) {
            (Some(n), _) => TruncatedDoubleGeometric::new(1.0 / eps, n).map(|t| (Sampler::Direct(t), n)),
            (None, Some((d, s))) => OPRFPaddingDp::new(eps, d, s).map(|p| {
                let n = p.get_shift();
                (Sampler::Dp(p), n)
            }),
            _ => unreachable!(),
        });
        let (sampler, n) = match built {
            Ok(Ok(x)) => x,
            o => {
                rec.eval();
                rec.violation("sampler could not be constructed for parameters inside the documented range",
                              json!({"kind": "constructor_range", "ctor": if cfg.n.is_some() { "TruncatedDoubleGeometric::new" } else { "OPRFPaddingDp::new" }, "param": "grid"}),
                              json!({"desc": desc, "case": ci, "outcome": format!("{:?}", o.map(|r| r.map(|_| ())))}));
                continue;
            }
        };
        rec.seen("sampler_entry_points", if cfg.n.is_some() { "TruncatedDoubleGeometric" } else { "OPRFPaddingDp" });
        let ni = i64::from(n);
        let full = n <= 60;
        // enumeration bound: K = 2n+2 failures per geometric (full) or the diagonal band |d| <= n+3 with three depths
        let k_max = 2 * n + 2;
        let mut paths: Vec<(u32, u32)> = Vec::new();
        if full {
            for a1 in 0..=k_max {
                for a2 in 0..=k_max {
                    paths.push((a1, a2));
                }
            }
        } else {
            for d in -(ni + 3)..=(ni + 3) {
                for k in [0u32, 1, 7] {
                    paths.push((d.max(0) as u32 + k, (-d).max(0) as u32 + k));
                }
            }
        }
        let q = (-eps).exp();
        let mut mass: BTreeMap<i64, f64> = BTreeMap::new(); // observed output -> sum of q^(a1+a2) over accepted paths
        let mut reached: BTreeSet<i64> = BTreeSet::new();
        let mut bad = 0usize;
        for (a1, a2) in &paths {
            let (a1, a2) = (*a1, *a2);
            rec.eval();
            let mut s = Script::path(a1, a2);
            let out = catch(|| sampler.sample(&mut s));
            if s.other > 0 {
                protocol_ok = false;
            }
            let x = ni + i64::from(a1) - i64::from(a2);
            let inside = (0..=2 * ni).contains(&x);
            let base_draws = u64::from(a1 + a2) + 2;
            let got = out.as_ref().map(|v| i64::from(*v));
            let accepted_now = s.draws == base_draws;
            let retried = s.draws == base_draws + 2 && got == Ok(ni); // rejected, then the (0,0) path => n
            let verdict = if inside {
                if accepted_now && got == Ok(x) {
                    *mass.entry(x).or_insert(0.0) += q.powi((a1 + a2) as i32);
                    reached.insert(x);
                    rec.count("truncated_paths_accepted_exact");
                    if full {
                        rec.distinct(&("tdg", ci, a1, a2));
                    } else {
                        rec.distinct(&("tdg-band", ci, x));
                    }
                    None
                } else if retried && x != ni {
                    Some("rejected_inside_support")
                } else {
                    Some("wrong_value")
                }
            } else if retried {
                rec.count("truncated_paths_rejected_exact");
                rec.distinct(&("tdg-rej", ci, x.clamp(-ni - 8, 3 * ni + 8)));
                None
            } else if accepted_now {
                if let Ok(v) = got {
                    reached.insert(v);
                }
                Some("accepted_outside_support")
            } else {
                Some("wrong_value")
            };
            if let Some(class) = verdict {
                bad += 1;
                if bad <= 4 {
                    rec.violation(
                        "truncated double-geometric sampler: output / rejection decision of a scripted path is not the documented one",
                        json!({"kind": "sampler_path", "class": class,
                               "at": if x == 2 * ni + 1 { "2n+1" } else if x == -1 { "-1" } else if x == 0 { "0" } else if x == 2 * ni { "2n" } else { "other" }}),
                        json!({"desc": desc, "case": ci, "n": n, "attempts1": a1, "attempts2": a2, "expected_value": x, "inside_support": inside,
                               "got": format!("{out:?}"), "draws": s.draws, "draws_of_the_path": base_draws}),
                    );
                }
            }
        }
        // support: every point of 0..2n reached, nothing else
        rec.eval();
        let want: BTreeSet<i64> = (0..=2 * ni).collect();
        if reached == want {
            rec.count("support_exact");
            rec.add("support_points_reached", reached.len() as u64);
        } else if bad == 0 {
            let missing: Vec<i64> = want.difference(&reached).copied().take(5).collect();
            let extra: Vec<i64> = reached.difference(&want).copied().take(5).collect();
            rec.violation("support of the truncated sampler is not 0..2n",
                          json!({"kind": "support", "missing": !missing.is_empty(), "extra": !extra.is_empty()}),
                          json!({"desc": desc, "case": ci, "n": n, "missing": missing, "extra": extra}));
        }
        // thresholds: first trial, a later trial of X1, first trial of X2, and a trial after a rejection
        let p_ref = -(-eps).exp_m1();
        let mut prefixes = vec![("first_trial_of_x1", vec![]), ("second_trial_of_x1", vec![FAIL]), ("first_trial_of_x2", vec![SUCC])];
        {
            // a rejected path (n+1 failures of X2) and then the first trial of the retry
            let mut v = vec![SUCC];
            v.extend(std::iter::repeat_n(FAIL, n as usize + 1));
            v.push(SUCC);
            prefixes.push(("first_trial_after_rejection", v));
        }
        let mut p_int_seen: Option<u64> = None;
        for (name, prefix) in prefixes {
            rec.eval();
            let t = read_threshold(&prefix, &|s| i64::from(sampler.sample(s)));
            let p_obs = t.map_or(1.0, |t| t as f64 / two_pow_64());
            if (p_obs - p_ref).abs() <= 1e-11 * p_ref {
                rec.count("bernoulli_threshold_read");
                rec.distinct(&("tdg-thr", ci, name));
                p_int_seen = t;
            } else {
                rec.violation("Bernoulli threshold inside the truncated sampler is not 1 - exp(-epsilon)",
                              json!({"kind": "bernoulli_threshold", "where": "TruncatedDoubleGeometric", "trial": name}),
                              json!({"desc": desc, "case": ci, "threshold": t, "p_observed": p_obs, "p_reference": p_ref}));
            }
        }
        // pmf derived from the observed path -> value map: with independent trials of success probability 1-q the
        // path (a1,a2) has probability (1-q)^2 q^(a1+a2); summing over the accepted paths that produced x gives
        // q^|x-n| (1 - q^(2(K-|x-n|+1))) / (1-q^2) for the full enumeration up to K failures.
        if full && bad == 0 {
            rec.eval();
            let k = f64::from(k_max);
            let mut worst = 0.0f64;
            for x in 0..=2 * ni {
                let d = (x - ni).abs() as f64;
                let expect = q.powf(d) * (1.0 - q.powf(2.0 * (k - d + 1.0))) / (1.0 - q * q);
                let got = mass.get(&x).copied().unwrap_or(0.0);
                worst = worst.max(((got - expect) / expect).abs());
            }
            if worst <= 1e-9 {
                rec.count("pmf_derived_proportional_to_exp_minus_eps_dist");
            } else {
                rec.violation("pmf derived from the enumerated paths is not proportional to exp(-eps*|x-n|)",
                              json!({"kind": "pmf_shape"}), json!({"desc": desc, "case": ci, "n": n, "worst_relative_error": worst}));
            }
        }
        if rec.want_sample() {
            rec.sample(json!({"desc": desc, "n": n, "paths_enumerated": paths.len(), "full_enumeration": full,
                              "support_points_reached": reached.len(), "bernoulli_threshold_u64": p_int_seen,
                              "p_reference": p_ref}));
        }
    }
    if !protocol_ok {
        rec.inconclusive("the samplers drew randomness other than one u64 per Bernoulli trial: scripted RNG protocol not applicable");
    }
    rec.finish();
}

// ---- chi-square evidence -------------------------------------------------------------------------

fn ln_gamma(x: f64) -> f64 {
    // Lanczos (g = 7, 9 coefficients)
    const C: [f64; 9] = [0.999_999_999_999_809_9, 676.520_368_121_885_1, -1_259.139_216_722_402_8, 771.323_428_777_653_1,
                         -176.615_029_162_140_6, 12.507_343_278_686_905, -0.138_571_095_265_720_12, 9.984_369_578_019_572e-6,
                         1.505_632_735_149_311_6e-7];
    let x = x - 1.0;
    let mut a = C[0];
    let t = x + 7.5;
    for (i, c) in C.iter().enumerate().skip(1) {
        a += c / (x + i as f64);
    }
    0.5 * (2.0 * std::f64::consts::PI).ln() + (x + 0.5) * t.ln() - t + a.ln()
}

/// Regularised upper incomplete gamma Q(a, x) (series / continued fraction).
fn gamma_q(a: f64, x: f64) -> f64 {
    if x <= 0.0 {
        return 1.0;
    }
    if x < a + 1.0 {
        let mut ap = a;
        let mut sum = 1.0 / a;
        let mut del = sum;
        for _ in 0..10_000 {
            ap += 1.0;
            del *= x / ap;
            sum += del;
            if del.abs() < sum.abs() * 1e-16 {
                break;
            }
        }
        1.0 - sum * (-x + a * x.ln() - ln_gamma(a)).exp()
    } else {
        let tiny = 1e-300;
        let mut b = x + 1.0 - a;
        let mut c = 1.0 / tiny;
        let mut d = 1.0 / b;
        let mut h = d;
        for i in 1..10_000 {
            let an = -(i as f64) * (i as f64 - a);
            b += 2.0;
            d = an * d + b;
            if d.abs() < tiny {
                d = tiny;
            }
            c = b + an / c;
            if c.abs() < tiny {
                c = tiny;
            }
            d = 1.0 / d;
            let del = d * c;
            h *= del;
            if (del - 1.0).abs() < 1e-16 {
                break;
            }
        }
        (-x + a * x.ln() - ln_gamma(a)).exp() * h
    }
}

#[test]
fn verif_c12_chi2_evidence() {
    let env = vlib::env();
    let mut rec = Recorder::new(P, "verif_c12_chi2_evidence");
    let params: &[(f64, f64, u32)] = &[(1.0, 1e-6, 1), (0.5, 1e-6, 2), (5.0, 1e-6, 10), (0.1, 1e-6, 1), (2.0, 1e-8, 3), (0.25, 1e-4, 1),
                                       (10.0, 1e-4, 3), (0.05, 1e-6, 10)];
    let draws = env.pick(20_000usize, 400_000);
    let reps = env.pick(1usize, 3);
    for case in 0..params.len() * reps {
        if !env.mine(case) {
            continue;
        }
        let (eps, delta, sens) = params[case % params.len()];
        let Ok(Ok(dp)) = catch(|| OPRFPaddingDp::new(eps, delta, sens)) else {
            rec.inconclusive("chi2: sampler not constructible");
            continue;
        };
        let n = dp.get_shift();
        let mut rng = VRng::new(env.seed ^ 0xC12_C41, case as u64);
        let mut hist = vec![0u64; 2 * n as usize + 1];
        let mut outside = 0u64;
        for _ in 0..draws {
            let x = dp.sample(&mut rng) as usize;
            if x < hist.len() {
                hist[x] += 1;
            } else {
                outside += 1;
            }
        }
        rec.evals(draws as u64);
        rec.add("real_rng_samples", draws as u64);
        if outside > 0 {
            rec.violation("real-RNG sample outside 0..2n", json!({"kind": "support", "extra": true, "missing": false}),
                          json!({"case": case, "epsilon": eps, "delta": delta, "sensitivity": sens, "n": n, "outside": outside}));
            continue;
        }
        // reference pmf and pooling of cells with expectation < 8 (from both ends towards the centre)
        let q = (-eps).exp();
        let norm: f64 = (0..hist.len()).map(|x| q.powf((x as f64 - f64::from(n)).abs())).sum();
        let exp: Vec<f64> = (0..hist.len()).map(|x| draws as f64 * q.powf((x as f64 - f64::from(n)).abs()) / norm).collect();
        let mut cells: Vec<(f64, f64)> = Vec::new(); // (observed, expected)
        let (mut acc_o, mut acc_e) = (0.0, 0.0);
        for x in 0..hist.len() {
            acc_o += hist[x] as f64;
            acc_e += exp[x];
            if acc_e >= 8.0 {
                cells.push((acc_o, acc_e));
                acc_o = 0.0;
                acc_e = 0.0;
            }
        }
        if let Some(last) = cells.last_mut() {
            last.0 += acc_o;
            last.1 += acc_e;
        }
        if cells.len() < 3 {
            rec.count("chi2_too_few_cells");
            continue;
        }
        let chi2: f64 = cells.iter().map(|(o, e)| (o - e) * (o - e) / e).sum();
        let dof = (cells.len() - 1) as f64;
        let p = gamma_q(dof / 2.0, chi2 / 2.0);
        rec.count("chi2_runs");
        rec.distinct(&("chi2", case));
        if p < 1e-3 {
            rec.count("chi2_p_below_1e-3_(evidence_only)");
        }
        rec.sample(json!({"case": case, "epsilon": eps, "delta": delta, "sensitivity": sens, "n": n, "samples": draws, "cells": cells.len(),
                          "chi2": chi2, "p_value": p}));
        if p < 1e-12 {
            rec.violation("seeded real-RNG histogram is incompatible with pmf ~ exp(-eps*|x-n|) (p < 1e-12)",
                          json!({"kind": "chi2"}),
                          json!({"case": case, "epsilon": eps, "delta": delta, "sensitivity": sens, "n": n, "chi2": chi2, "dof": dof, "p": p}));
        }
    }
    rec.finish();
}

// ---------------------------------------------------------------------------------------------
// (3) sample -> share mapping of the private noise sampler
// ---------------------------------------------------------------------------------------------

fn noise_params(eps: f64, delta: f64, cap: u32) -> NoiseParams {
    // struct literal: NoiseParams::new is itself under test in (4)
    NoiseParams { epsilon: eps, delta, per_user_credit_cap: cap, ..Default::default() }
}

/// Drives sample_shares to support point x (attempts chosen by the script) in both directions and checks the shares.
fn share_mapping_width<OV>(rec: &mut Recorder, ci: usize, eps: f64, delta: f64, cap: u32)
where
    OV: BooleanArray + U128Conversions,
{
    let width = OV::BITS;
    let np = noise_params(eps, delta, cap);
    let desc = json!({"case": ci, "epsilon": eps, "delta": delta, "per_user_credit_cap": cap, "width": width});
    let st = match catch(|| ShiftedTruncatedDiscreteLaplace::new(&np, width)) {
        Ok(Ok(s)) => s,
        o => {
            rec.eval();
            rec.violation("ShiftedTruncatedDiscreteLaplace::new failed inside the documented range",
                          json!({"kind": "constructor_range", "ctor": "ShiftedTruncatedDiscreteLaplace::new", "param": "grid"}),
                          json!({"desc": desc, "case": ci, "outcome": format!("{:?}", o.map(|r| r.map(|_| ())))}));
            return;
        }
    };
    // centre of the sampler's support (whether it is the documented truncation point is monitor (1)'s business)
    let n = st.truncated_discrete_laplace.get_shift();
    let ni = i64::from(n);
    let modulus: i64 = 1i64 << width;
    let mut reported = 0usize;
    for x in 0..=2 * ni {
        let (a1, a2) = ((x - ni).max(0) as u32, (ni - x).max(0) as u32);
        let want = (x - ni).rem_euclid(modulus) as u128;
        let mut got: [Option<(u128, u128)>; 2] = [None, None];
        for (k, dir) in [Direction::Left, Direction::Right].into_iter().enumerate() {
            let mut s = Script::path(a1, a2);
            if let Ok(sh) = catch(|| st.sample_shares::<_, OV>(&mut s, dir)) {
                if s.draws == u64::from(a1 + a2) + 2 && s.other == 0 {
                    got[k] = Some((sh.left().as_u128(), sh.right().as_u128()));
                }
            }
        }
        rec.eval();
        // helper next to the excluded one on its right holds (x_{E+1}, x_{E+2}) = (0, v): excluded helper is to its Left;
        // the other generating helper holds (x_{E+2}, x_E) = (v, 0): excluded helper is to its Right.
        let ok = match (got[0], got[1]) {
            (Some((l_left, l_right)), Some((r_left, r_right))) => {
                let zero_side = l_left == 0 && r_right == 0;
                let same = l_right == r_left;
                let reconstructed = l_left ^ l_right ^ r_right; // x_E = r_right, x_{E+1} = l_left, x_{E+2} = l_right
                zero_side && same && reconstructed == want
            }
            _ => false,
        };
        if ok {
            rec.count("share_mapping_points_exact");
            rec.distinct(&("map", width, ci, x));
            if rec.want_sample() && x % 5 == 0 {
                rec.sample(serde_json::json!({"share_mapping_case": {"width": width, "config": ci, "support_point": x}}));
            }
            if x - ni == -1 {
                rec.count("share_mapping_minus_one_exact");
            }
        } else {
            reported += 1;
            if reported <= 3 {
                let value = x - ni;
                let zero_side = matches!((got[0], got[1]), (Some((0, _)), Some((_, 0))));
                rec.violation(
                    "noise shares of a scripted sample do not reconstruct to (x-n) mod 2^w with the zero share on the excluded helper's side",
                    json!({"kind": "share_mapping", "width": width, "value": value, "zero_on_excluded_side": zero_side}),
                    json!({"desc": desc, "case": ci, "n": n, "x": x, "attempts1": a1, "attempts2": a2, "expected_share_value": want,
                           "direction_left_share(left,right)": got[0], "direction_right_share(left,right)": got[1]}),
                );
            } else {
                rec.count("share_mapping_further_mismatches_not_listed");
            }
        }
    }
    rec.seen("share_mapping_widths", format!("{width}"));
}

#[test]
fn verif_c12_share_mapping() {
    let env = vlib::env();
    let mut rec = Recorder::new(P, "verif_c12_share_mapping");
    let only = replay_case();
    // (epsilon, delta, per_user_credit_cap): production default delta 1e-6 with caps 2^SS_BITS, plus wide supports
    // (2n+1 > 256 wraps several times at 8 bits)
    let mut cfgs: Vec<(f64, f64, u32)> = vec![(5.0, 1e-6, 8), (1.0, 1e-6, 8), (10.0, 1e-6, 1), (0.1, 1e-6, 1), (0.05, 1e-9, 10), (2.0, 1e-6, 32),
                                              (0.01, 1e-6, 8), (20.0, 1e-6, 8)];
    if env.thorough {
        cfgs.extend([(0.01, 1e-8, 1000), (0.5, 1e-7, 64), (3.5, 1e-12, 2), (0.02, 1e-6, 128), (0.25, 1e-6, 8), (1.0, 1e-2, 1)]);
    }
    for (ci, (e, d, c)) in cfgs.iter().enumerate() {
        for (wi, w) in [8u32, 16, 32].iter().enumerate() {
            let case = ci * 3 + wi;
            if !env.mine(case) || only.is_some_and(|c| c != case) {
                continue;
            }
            match w {
                8 => share_mapping_width::<BA8>(&mut rec, case, *e, *d, *c),
                16 => share_mapping_width::<BA16>(&mut rec, case, *e, *d, *c),
                _ => share_mapping_width::<BA32>(&mut rec, case, *e, *d, *c),
            }
        }
    }
    rec.finish();
}

// ---------------------------------------------------------------------------------------------
// (4) constructors: accept iff every condition stated in the doc comment / error text holds
// ---------------------------------------------------------------------------------------------

#[derive(Clone, Copy, PartialEq, Debug)]
enum Doc {
    Inside,
    Outside,
    /// exactly on a bound whose documentation is ambiguous or self-contradictory, or not a real number:
    /// observed and counted, never an alarm
    Ambiguous,
}

fn doc_gt0(x: f64) -> Doc {
    if !x.is_finite() {
        Doc::Ambiguous
    } else if x > 0.0 {
        Doc::Inside
    } else {
        Doc::Outside
    }
}

fn all(docs: &[Doc]) -> Doc {
    if docs.contains(&Doc::Outside) {
        Doc::Outside
    } else if docs.contains(&Doc::Ambiguous) {
        Doc::Ambiguous
    } else {
        Doc::Inside
    }
}

fn fbits(x: f64) -> String {
    format!("{x:e}")
}

#[test]
fn verif_c12_constructors() {
    let env = vlib::env();
    let mut rec = Recorder::new(P, "verif_c12_constructors");
    let only = replay_case();
    let mut case = 0usize;

    // ---- NoiseParams::new: "epsilon must be > 0.0", "delta must be > 0.0", "success_prob must be between 0 and 1"
    //      (doc comment: range [0,1]), "dimensions / quantization_scale / ell_* must be > 0.0"
    let eps_v = [0.01, 1.0, 5.0, 20.0, 1e-300, 0.0, -0.0, -1.0, f64::NAN, f64::INFINITY];
    let delta_v = [1e-6, 1e-10, 1e-12, 1e-2, 0.5, 0.0, -1e-6, f64::NAN];
    let prob_v = [0.5, 0.25, 0.999, 0.0, 1.0, -0.1, 1.000_001, 2.0];
    let pos_v = [1.0, 256.0, 1e-3, 0.0, -1.0];
    let doc_prob = |p: f64| {
        if p == 0.0 || p == 1.0 {
            Doc::Ambiguous // "[0,1]" in the doc comment, "between 0 and 1" in the error text
        } else if p > 0.0 && p < 1.0 {
            Doc::Inside
        } else {
            Doc::Outside
        }
    };
    let mut noise_cases: Vec<([f64; 8], &'static str)> = Vec::new();
    for e in eps_v {
        for d in delta_v {
            for p in prob_v {
                noise_cases.push(([e, d, p, 1.0, 1.0, 1.0, 1.0, 1.0], "epsilon-delta-success_prob"));
            }
        }
    }
    for (slot, name) in [(3usize, "dimensions"), (4, "quantization_scale"), (5, "ell_1_sensitivity"), (6, "ell_2_sensitivity"), (7, "ell_infty_sensitivity")] {
        for v in pos_v {
            let mut a = [5.0, 1e-6, 0.5, 1.0, 1.0, 1.0, 1.0, 1.0];
            a[slot] = v;
            noise_cases.push((a, name));
        }
    }
    for (a, group) in noise_cases {
        case += 1;
        if !env.mine(case) || only.is_some_and(|c| c != case) {
            continue;
        }
        rec.eval();
        let per_param = [("epsilon", doc_gt0(a[0])), ("delta", doc_gt0(a[1])), ("success_prob", doc_prob(a[2])), ("dimensions", doc_gt0(a[3])),
                         ("quantization_scale", doc_gt0(a[4])), ("ell_1_sensitivity", doc_gt0(a[5])), ("ell_2_sensitivity", doc_gt0(a[6])),
                         ("ell_infty_sensitivity", doc_gt0(a[7]))];
        let doc = all(&per_param.map(|(_, d)| d));
        let got = catch(|| NoiseParams::new(a[0], a[1], 8, a[2], a[3], a[4], a[5], a[6], a[7]).map(|_| ()));
        let witness = json!({"case": case, "ctor": "NoiseParams::new", "epsilon": fbits(a[0]), "delta": fbits(a[1]), "success_prob": fbits(a[2]),
                             "dimensions": a[3], "quantization_scale": a[4], "ell_1": a[5], "ell_2": a[6], "ell_infty": a[7],
                             "documented": format!("{doc:?}"), "got": format!("{got:?}")});
        match (doc, &got) {
            (_, Err(p)) => rec.violation("NoiseParams::new panicked", json!({"kind": "panic", "ctor": "NoiseParams::new"}),
                                         json!({"witness": witness, "case": case, "panic": p})),
            (Doc::Ambiguous, Ok(r)) => {
                rec.count("ctor_ambiguous_or_nonfinite_observed_only");
                // one entry per (ambiguous parameter value, outcome) while every other parameter is inside its range
                if per_param.iter().filter(|(_, d)| *d != Doc::Inside).count() == 1 {
                    let (name, _) = per_param.iter().find(|(_, d)| *d == Doc::Ambiguous).unwrap();
                    let val = match *name { "epsilon" => a[0], "delta" => a[1], _ => a[2] };
                    rec.seen("ctor_ambiguous_observations", format!("NoiseParams::new: {name}={} -> {}", fbits(val), if r.is_ok() { "accepted" } else { "rejected" }));
                }
            }
            (Doc::Inside, Ok(Ok(()))) | (Doc::Outside, Ok(Err(_))) => {
                rec.count(if doc == Doc::Inside { "ctor_accept_as_documented" } else { "ctor_reject_as_documented" });
                rec.distinct(&("NoiseParams::new", a.map(f64::to_bits)));
                rec.seen("ctor_groups", format!("NoiseParams::new/{group}"));
            }
            (Doc::Inside, Ok(Err(msg))) => {
                // which parameter does the error text blame?
                let blamed = per_param.iter().map(|(n, _)| *n).find(|n| msg.starts_with(n)).unwrap_or("?");
                rec.violation("NoiseParams::new rejects parameters that satisfy every documented condition",
                              json!({"kind": "constructor_range", "ctor": "NoiseParams::new", "param": blamed, "decision": "rejected_inside"}), witness);
            }
            (Doc::Outside, Ok(Ok(()))) => {
                let offending: Vec<&str> = per_param.iter().filter(|(_, d)| *d == Doc::Outside).map(|(n, _)| *n).collect();
                rec.violation("NoiseParams::new accepts parameters that violate a documented condition",
                              json!({"kind": "constructor_range", "ctor": "NoiseParams::new", "param": offending.first().copied().unwrap_or("?"), "decision": "accepted_outside"}),
                              witness);
            }
        }
    }

    // ---- OPRFPaddingDp::new: epsilon > 0 (BadEpsilon), delta in (0,1) (BadDelta), sensitivity <= 1e6 (BadSensitivity),
    //      resulting shift <= 1e6 (BadShiftValue)
    let eps_o = [0.01, 0.5, 5.0, 20.0, 0.0, -0.0, -1.0, -1e-300, f64::NEG_INFINITY, f64::MIN_POSITIVE];
    let delta_o = [1e-6, 1e-12, 1e-2, 0.5, 0.999, 0.0, -0.0, -1e-6, 1.5, 2.0, f64::INFINITY, f64::NAN, 1.0, f64::MIN_POSITIVE];
    let sens_o: &[u32] = &[1, 2, 10, 1000, 1_000_001, 2_000_000, u32::MAX, 0];
    for e in eps_o {
        for d in delta_o {
            for s in sens_o {
                case += 1;
                if !env.mine(case) || only.is_some_and(|c| c != case) {
                    continue;
                }
                let de = if e == f64::MIN_POSITIVE { Doc::Ambiguous } else { doc_gt0(e) };
                let dd = if d.is_nan() {
                    Doc::Ambiguous
                } else if d == 1.0 || d == f64::MIN_POSITIVE {
                    Doc::Ambiguous // the documented bound 1.0 - f64::MIN_POSITIVE is 1.0 in f64
                } else if d > 0.0 && d < 1.0 {
                    Doc::Inside
                } else {
                    Doc::Outside
                };
                let ds = if *s == 0 {
                    Doc::Ambiguous // README: sensitivity is a positive integer; the constructor is silent
                } else if *s <= 1_000_000 {
                    Doc::Inside
                } else {
                    Doc::Outside
                };
                let doc = all(&[de, dd, ds]);
                // never call the constructor where an accepted-but-degenerate input (tiny positive epsilon: r = 1, A = NaN) makes
                // find_smallest_n scan 2^32 values, nor where a faulty validator would let such an input through
                // (delta = f64::MIN_POSITIVE needs n ~ 708/eps steps of `sensitivity` terms each: only with small sensitivities)
                let callable = (doc == Doc::Outside && (e >= 0.01 || e <= 0.0)) || (e >= 0.01 && e.is_finite() && d > 0.0 && d <= 1.0 && *s <= 1000 && (d >= 1e-12 || *s <= 2));
                if !callable {
                    rec.count("ctor_not_called_degenerate_accepting_path");
                    continue;
                }
                rec.eval();
                let got = catch(|| OPRFPaddingDp::new(e, d, *s).map(|_| ()));
                let witness = json!({"case": case, "ctor": "OPRFPaddingDp::new", "epsilon": fbits(e), "delta": fbits(d), "sensitivity": s,
                                     "documented": format!("{doc:?}"), "got": format!("{got:?}")});
                match (doc, &got) {
                    (_, Err(p)) => rec.violation("OPRFPaddingDp::new panicked", json!({"kind": "panic", "ctor": "OPRFPaddingDp::new"}),
                                                 json!({"witness": witness, "case": case, "panic": p})),
                    (Doc::Ambiguous, Ok(r)) => {
                        rec.count("ctor_ambiguous_or_nonfinite_observed_only");
                        if [de, dd, ds].iter().filter(|x| **x != Doc::Inside).count() == 1 {
                            let which = if de == Doc::Ambiguous { format!("epsilon={}", fbits(e)) } else if dd == Doc::Ambiguous { format!("delta={}", fbits(d)) } else { format!("sensitivity={s}") };
                            rec.seen("ctor_ambiguous_observations", format!("OPRFPaddingDp::new: {which} -> {}", if r.is_ok() { "accepted" } else { "rejected" }));
                        }
                    }
                    (Doc::Inside, Ok(Ok(()))) | (Doc::Outside, Ok(Err(_))) => {
                        rec.count(if doc == Doc::Inside { "ctor_accept_as_documented" } else { "ctor_reject_as_documented" });
                        rec.distinct(&("OPRFPaddingDp::new", e.to_bits(), d.to_bits(), s));
                        rec.seen("ctor_groups", "OPRFPaddingDp::new");
                    }
                    (Doc::Inside, Ok(Err(err))) => rec.violation(
                        "OPRFPaddingDp::new rejects parameters that satisfy every documented condition",
                        json!({"kind": "constructor_range", "ctor": "OPRFPaddingDp::new", "param": format!("{err:?}").split('(').next().unwrap_or("?"),
                               "decision": "rejected_inside"}),
                        witness,
                    ),
                    (Doc::Outside, Ok(Ok(()))) => rec.violation(
                        "OPRFPaddingDp::new accepts parameters that violate a documented condition",
                        json!({"kind": "constructor_range", "ctor": "OPRFPaddingDp::new",
                               "param": if de == Doc::Outside { "epsilon" } else if dd == Doc::Outside { "delta" } else { "sensitivity" },
                               "decision": "accepted_outside"}),
                        witness,
                    ),
                }
            }
        }
    }
    // the sensitivity / shift bound of 1e6 (one expensive call each: find_smallest_n sums `sensitivity` terms per step)
    for (s, expect_ok) in [(999_000u32, true), (1_000_000, false)] {
        case += 1;
        if !env.thorough || !env.mine(case) || only.is_some_and(|c| c != case) {
            continue;
        }
        rec.eval();
        let got = catch(|| OPRFPaddingDp::new(5.0, 1e-6, s).map(|d| d.get_shift()));
        // sensitivity 1e6 is inside "sensitivity <= 1e6" but its truncation point n >= sensitivity + 1 exceeds the documented
        // shift bound (BadShiftValue), so a rejection is the documented outcome there
        match (&got, expect_ok) {
            (Ok(Ok(n)), true) if *n >= s => rec.count("ctor_accept_as_documented"),
            (Ok(Err(_)), false) => rec.count("ctor_reject_as_documented"),
            _ => rec.violation("OPRFPaddingDp::new at the 1e6 sensitivity/shift bound does not behave as documented",
                               json!({"kind": "constructor_range", "ctor": "OPRFPaddingDp::new", "param": "sensitivity_bound"}),
                               json!({"case": case, "sensitivity": s, "got": format!("{got:?}")})),
        }
    }
    rec.finish();
}

// ---------------------------------------------------------------------------------------------
// (5) three in-memory helpers
// ---------------------------------------------------------------------------------------------

#[cfg(not(feature = "shuttle"))]
mod worlds {
    use std::{convert::Infallible, time::Duration};

    use serde_json::{Value, json};

    use super::{
        super::super::{NoiseParams, apply_laplace_noise_pass, dp_for_histogram, step::DPStep},
        AMBIGUITY, P, Replicated, noise_params, replay_case, smallest_n_f64,
    };
    use crate::{
        error::{Error, LengthError},
        ff::{
            U128Conversions,
            boolean::Boolean,
            boolean_array::{BA3, BA8, BA16, BA32, BA64, BooleanArray},
        },
        helpers::{Role, query::DpMechanism},
        protocol::{
            BooleanProtocols,
            context::{Context, DZKPUpgraded, MaliciousProtocolSteps, UpgradableContext, dzkp_validator::DZKPValidator},
            hybrid::step::HybridStep,
            ipa_prf::oprf_padding::{AggregationPadding, OPRFPadding, PaddingParameters, apply_dp_padding, apply_dp_padding_pass},
        },
        report::hybrid::IndistinguishableHybridReport,
        secret_sharing::{BitDecomposed, FieldSimd, TransposeFrom, Vectorizable, replicated::ReplicatedSecretSharing},
        sharding::NotSharded,
        test_fixture::{TestWorld, TestWorldConfig},
        verif::vlib::{self, Paused, Recorder, VRng, catch_fut},
    };

    /// What one helper returned.
    #[derive(Debug, Clone)]
    pub enum Out<T> {
        Ok(T),
        Err(String),
        Panic(String),
    }
    impl<T> Out<T> {
        fn class(&self) -> String {
            match self {
                Out::Ok(_) => "ok".into(),
                Out::Err(e) => format!("err:{}", e.chars().take(40).collect::<String>()),
                Out::Panic(_) => "panic".into(),
            }
        }
        fn from<E: std::fmt::Debug>(r: Result<Result<T, E>, String>) -> Self {
            match r {
                Ok(Ok(v)) => Out::Ok(v),
                Ok(Err(e)) => Out::Err(format!("{e:?}")),
                Err(p) => Out::Panic(p),
            }
        }
    }

    /// Runs `$f(ctx, input_i)` on the three helpers of a fresh seeded TestWorld under the paused clock.
    /// Evaluates to Option<[Out<_>; 3]> (None = quiescent without completion).
    macro_rules! world3 {
        ($seed:expr, $malicious:expr, $inputs:expr, |$ctx:ident, $inp:ident| $body:expr) => {{
            let seed: u64 = $seed;
            let malicious: bool = $malicious;
            let [i0, i1, i2] = $inputs;
            let fut = async move {
                let mut cfg = TestWorldConfig::default();
                cfg.seed = seed;
                cfg.timeout = None;
                let world = TestWorld::<NotSharded>::with_config(&cfg);
                macro_rules! helper {
                    ($c:expr, $i:expr) => {{
                        let $ctx = $c;
                        let $inp = $i;
                        catch_fut(async move { $body.await })
                    }};
                }
                if malicious {
                    let [c0, c1, c2] = world.malicious_contexts();
                    let (a, b, c) = futures::join!(helper!(c0, i0), helper!(c1, i1), helper!(c2, i2));
                    [Out::from(a), Out::from(b), Out::from(c)]
                } else {
                    let [c0, c1, c2] = world.contexts();
                    let (a, b, c) = futures::join!(helper!(c0, i0), helper!(c1, i1), helper!(c2, i2));
                    [Out::from(a), Out::from(b), Out::from(c)]
                }
            };
            match vlib::run_paused(Duration::from_secs(60), fut) {
                Paused::Done(r) => Some(r),
                Paused::Quiescent => None,
            }
        }};
    }

    /// Own replicated (XOR) sharing of `v`: helper i holds (x_i, x_{i+1}).
    fn share3(v: u128, mask: u128, r: &mut VRng) -> [(u128, u128); 3] {
        let x1 = r.u128() & mask;
        let x2 = r.u128() & mask;
        let x3 = (v ^ x1 ^ x2) & mask;
        [(x1, x2), (x2, x3), (x3, x1)]
    }

    /// Consistency and value of one replicated sharing given as the three helpers' (left, right).
    fn reconstruct3(s: [(u128, u128); 3]) -> Result<u128, &'static str> {
        if s[0].1 != s[1].0 || s[1].1 != s[2].0 || s[2].1 != s[0].0 {
            return Err("inconsistent");
        }
        Ok(s[0].0 ^ s[1].0 ^ s[2].0)
    }

    fn pair<V: BooleanArray + U128Conversions>(s: &Replicated<V>) -> (u128, u128) {
        (s.left().as_u128(), s.right().as_u128())
    }

    // ---- noise passes ---------------------------------------------------------------------------

    const DP_STEPS: MaliciousProtocolSteps<'static, HybridStep> =
        MaliciousProtocolSteps { protocol: &HybridStep::DifferentialPrivacy, validate: &HybridStep::DifferentialPrivacyValidate };

    /// The three passes of dp_for_histogram's DiscreteLaplace branch, one by one, under the same steps, returning the
    /// sharing after every pass.
    async fn three_passes<C, OV, const B: usize>(ctx: C, input: Vec<Replicated<OV>>, np: (f64, f64, u32)) -> Result<[Vec<Replicated<OV>>; 3], Error>
    where
        C: UpgradableContext,
        Boolean: Vectorizable<B> + FieldSimd<B>,
        OV: BooleanArray + U128Conversions,
        Replicated<Boolean, B>: BooleanProtocols<DZKPUpgraded<C>, B>,
        Vec<Replicated<OV>>: for<'a> TransposeFrom<&'a BitDecomposed<Replicated<Boolean, B>>, Error = LengthError>,
        BitDecomposed<Replicated<Boolean, B>>: for<'a> TransposeFrom<&'a [Replicated<OV>; B], Error = Infallible>,
    {
        let np: NoiseParams = noise_params(np.0, np.1, np.2);
        let arr: [Replicated<OV>; B] = input.try_into().map_err(|_| Error::Internal).unwrap();
        let v = ctx.dzkp_validator(DP_STEPS, 1);
        let c = v.context();
        let h0: BitDecomposed<Replicated<Boolean, B>> = BitDecomposed::transposed_from(&arr).unwrap();
        let h1 = apply_laplace_noise_pass::<_, OV, B>(&c.narrow(&DPStep::LaplacePass1), h0, Role::H1, &np).await?;
        let s1 = Vec::transposed_from(&h1)?;
        let h2 = apply_laplace_noise_pass::<_, OV, B>(&c.narrow(&DPStep::LaplacePass2), h1, Role::H2, &np).await?;
        let s2 = Vec::transposed_from(&h2)?;
        let h3 = apply_laplace_noise_pass::<_, OV, B>(&c.narrow(&DPStep::LaplacePass3), h2, Role::H3, &np).await?;
        let s3 = Vec::transposed_from(&h3)?;
        v.validate().await?;
        Ok([s1, s2, s3])
    }

    async fn real_histogram<C, OV, const B: usize, const SS_BITS: usize>(ctx: C, input: Vec<Replicated<OV>>, mech: DpMechanism) -> Result<Vec<Replicated<OV>>, Error>
    where
        C: UpgradableContext,
        Boolean: Vectorizable<B> + FieldSimd<B>,
        BitDecomposed<Replicated<Boolean, B>>: crate::protocol::prss::FromPrss<usize>,
        OV: BooleanArray + U128Conversions,
        Replicated<Boolean, B>: BooleanProtocols<DZKPUpgraded<C>, B>,
        Vec<Replicated<OV>>: for<'a> TransposeFrom<&'a BitDecomposed<Replicated<Boolean, B>>, Error = LengthError>,
        BitDecomposed<Replicated<Boolean, B>>: for<'a> TransposeFrom<&'a [Replicated<OV>; B], Error = Infallible>,
    {
        let arr: [Replicated<OV>; B] = input.try_into().map_err(|_| Error::Internal).unwrap();
        let h0: BitDecomposed<Replicated<Boolean, B>> = BitDecomposed::transposed_from(&arr).unwrap();
        dp_for_histogram::<C, B, OV, SS_BITS>(ctx, h0, mech).await
    }

    #[derive(Clone, Copy, Debug)]
    struct NoiseCase {
        width: u32,
        buckets: usize,
        ss_bits: usize,
        eps: f64,
        malicious: bool,
    }

    fn shares_of<OV: BooleanArray + U128Conversions>(vals: &[u128], r: &mut VRng) -> [Vec<Replicated<OV>>; 3] {
        let mask = if OV::BITS >= 128 { u128::MAX } else { (1u128 << OV::BITS) - 1 };
        let mut out: [Vec<Replicated<OV>>; 3] = [Vec::new(), Vec::new(), Vec::new()];
        for v in vals {
            let s = share3(*v, mask, r);
            for h in 0..3 {
                out[h].push(Replicated::new(OV::truncate_from(s[h].0), OV::truncate_from(s[h].1)));
            }
        }
        out
    }

    /// Reconstructs bucket-wise; Err((bucket, "inconsistent")) when the three helpers do not hold one consistent sharing.
    fn reconstruct_vec<OV: BooleanArray + U128Conversions>(hs: [&Vec<Replicated<OV>>; 3], buckets: usize) -> Result<Vec<u128>, (usize, &'static str)> {
        if hs.iter().any(|h| h.len() != buckets) {
            return Err((0, "length"));
        }
        (0..buckets).map(|b| reconstruct3([pair(&hs[0][b]), pair(&hs[1][b]), pair(&hs[2][b])]).map_err(|e| (b, e))).collect()
    }

    fn noise_case_run<OV, const B: usize, const SS_BITS: usize>(rec: &mut Recorder, idx: usize, case: NoiseCase, seed: u64)
    where
        OV: BooleanArray + U128Conversions,
        Boolean: Vectorizable<B> + FieldSimd<B>,
        BitDecomposed<Replicated<Boolean, B>>: crate::protocol::prss::FromPrss<usize>,
        Vec<Replicated<OV>>: for<'a> TransposeFrom<&'a BitDecomposed<Replicated<Boolean, B>>, Error = LengthError>,
        BitDecomposed<Replicated<Boolean, B>>: for<'a> TransposeFrom<&'a [Replicated<OV>; B], Error = Infallible>,
        for<'x> Replicated<Boolean, B>: BooleanProtocols<DZKPUpgraded<crate::protocol::context::SemiHonestContext<'x>>, B>
            + BooleanProtocols<DZKPUpgraded<crate::protocol::context::MaliciousContext<'x>>, B>,
    {
        let w = OV::BITS;
        let modulus: u128 = 1u128 << w;
        let cap = 1u32 << SS_BITS;
        let delta = 1e-6; // NoiseParams::default().delta, the value dp_for_histogram uses
        let (n, m_hi, m_lo) = smallest_n_f64(case.eps, delta, cap);
        if m_hi.min(m_lo) < AMBIGUITY {
            rec.count("noise_case_boundary_ambiguous_skipped");
            return;
        }
        let n = u128::from(n);
        let mut r = VRng::new(seed ^ 0xC12_0005, idx as u64);
        // exact histogram: zeros, small values, values next to the wrap-around, random
        let exact: Vec<u128> = (0..B)
            .map(|b| match b % 5 {
                0 => 0,
                1 => (b as u128) % modulus,
                2 => modulus - 1 - (r.below(3) as u128),
                3 => modulus / 2 - 1 + (r.below(3) as u128),
                _ => r.u128() % modulus,
            })
            .collect();
        let world_seed = seed.wrapping_mul(0x9E37_79B9).wrapping_add(idx as u64);
        let desc = json!({"case": idx, "width": w, "buckets": B, "ss_bits": SS_BITS, "epsilon": case.eps, "delta": delta, "malicious": case.malicious,
                          "world_seed": world_seed, "n": n as u64});
        let np = (case.eps, delta, cap);

        // ---- replica: pass by pass ----
        let inputs = shares_of::<OV>(&exact, &mut r.clone());
        rec.eval();
        let Some(outs) = world3!(world_seed, case.malicious, inputs, |ctx, inp| three_passes::<_, OV, B>(ctx, inp, np)) else {
            rec.violation("noise passes did not complete", json!({"kind": "did_not_complete", "what": "laplace_passes", "malicious": case.malicious}), json!({"desc": desc, "case": idx}));
            return;
        };
        let stages = match &outs {
            [Out::Ok(a), Out::Ok(b), Out::Ok(c)] => [a, b, c],
            _ => {
                rec.violation("apply_laplace_noise_pass failed inside the documented parameter range",
                              json!({"kind": "noise_pass_failed", "malicious": case.malicious, "outcomes": outs.iter().map(Out::class).collect::<Vec<_>>()}),
                              json!({"desc": desc, "case": idx, "outcomes": format!("{:?}", outs.iter().map(Out::class).collect::<Vec<_>>())}));
                return;
            }
        };
        let mut prev = exact.clone();
        let mut per_pass: Vec<Vec<u128>> = Vec::new();
        let mut ok = true;
        for pass in 0..3 {
            rec.eval();
            let cur = match reconstruct_vec::<OV>([&stages[0][pass], &stages[1][pass], &stages[2][pass]], B) {
                Ok(v) => v,
                Err((b, why)) => {
                    rec.violation("histogram after a noise pass is not one consistent replicated sharing (the generating helpers did not add the same noise share)",
                                  json!({"kind": "noise_pass_sharing", "pass": pass + 1, "why": why, "width": w}),
                                  json!({"desc": desc, "case": idx, "bucket": b,
                                         "shares": (0..3).map(|h| stages[h][pass].get(b).map(pair)).collect::<Vec<_>>()}));
                    ok = false;
                    break;
                }
            };
            let diffs: Vec<u128> = (0..B).map(|b| (cur[b] + modulus - prev[b]) % modulus).collect();
            if 2 * n + 1 < modulus {
                if let Some(b) = (0..B).find(|b| (diffs[*b] + n) % modulus > 2 * n) {
                    rec.violation("noisy - exact of one pass is outside [-n, n] mod 2^w",
                                  json!({"kind": "noise_pass_range", "pass": pass + 1, "width": w}),
                                  json!({"desc": desc, "case": idx, "bucket": b, "before": prev[b] as u64, "after": cur[b] as u64, "difference_mod_2w": diffs[b] as u64}));
                    ok = false;
                    break;
                }
                rec.add("per_pass_differences_in_range", B as u64);
            } else {
                rec.count("per_pass_range_vacuous_support_wider_than_modulus");
            }
            for d in &diffs {
                let signed = if (*d + n) % modulus <= 2 * n { ((*d + n) % modulus) as i64 - n as i64 } else { i64::MIN };
                if signed == -1 {
                    rec.count("per_pass_noise_minus_one_seen");
                }
                if signed != i64::MIN && signed < 0 {
                    rec.count("per_pass_noise_negative_seen");
                }
            }
            per_pass.push(diffs);
            prev = cur;
        }
        if !ok {
            return;
        }
        let replica_final = prev;

        // ---- the real dp_for_histogram on the same world seed ----
        let mech = DpMechanism::DiscreteLaplace { epsilon: case.eps };
        let run_real = |r: &mut VRng| {
            let inputs = shares_of::<OV>(&exact, r);
            world3!(world_seed, case.malicious, inputs, |ctx, inp| real_histogram::<_, OV, B, SS_BITS>(ctx, inp, mech))
        };
        rec.eval();
        let Some(real) = run_real(&mut r.clone()) else {
            rec.violation("dp_for_histogram did not complete", json!({"kind": "did_not_complete", "what": "dp_for_histogram", "malicious": case.malicious}), json!({"desc": desc, "case": idx}));
            return;
        };
        let real_vals = match &real {
            [Out::Ok(a), Out::Ok(b), Out::Ok(c)] => match reconstruct_vec::<OV>([a, b, c], B) {
                Ok(v) => v,
                Err((b, why)) => {
                    rec.violation("output of dp_for_histogram is not one consistent replicated sharing",
                                  json!({"kind": "noise_pass_sharing", "pass": "total", "why": why, "width": w}), json!({"desc": desc, "case": idx, "bucket": b}));
                    return;
                }
            },
            _ => {
                rec.violation("dp_for_histogram failed inside the documented parameter range",
                              json!({"kind": "dp_for_histogram_failed", "malicious": case.malicious, "outcomes": real.iter().map(Out::class).collect::<Vec<_>>()}),
                              json!({"desc": desc, "case": idx}));
                return;
            }
        };
        // total = exact + sum of the three per-pass draws (mod 2^w); |total - exact| <= 3n
        let mut bad_bucket = None;
        for b in 0..B {
            let sum = (per_pass[0][b] + per_pass[1][b] + per_pass[2][b]) % modulus;
            let total = (real_vals[b] + modulus - exact[b]) % modulus;
            if total != sum || real_vals[b] != replica_final[b] {
                bad_bucket = Some((b, "total_differs_from_sum_of_passes"));
                break;
            }
            if 6 * n + 1 < modulus && (total + 3 * n) % modulus > 6 * n {
                bad_bucket = Some((b, "total_outside_3n"));
                break;
            }
        }
        match bad_bucket {
            None => {
                rec.add("buckets_total_equals_exact_plus_three_draws", B as u64);
                rec.distinct(&("noise", w, B, SS_BITS, case.eps.to_bits(), case.malicious, world_seed));
                rec.seen("noise_shapes", format!("w{w}/B{B}/ss{SS_BITS}/{}", if case.malicious { "malicious" } else { "semi-honest" }));
                if rec.want_sample() {
                    rec.sample(json!({"desc": desc, "first_buckets_exact": exact.iter().take(4).map(|v| *v as u64).collect::<Vec<_>>(),
                                      "first_buckets_noisy": real_vals.iter().take(4).map(|v| *v as u64).collect::<Vec<_>>(),
                                      "first_buckets_pass_differences_mod_2w": per_pass.iter().map(|p| p.iter().take(4).map(|v| *v as u64).collect::<Vec<_>>()).collect::<Vec<_>>()}));
                }
            }
            Some((b, why)) => {
                // is the world reproducible from its seed at all?  (otherwise the comparison says nothing)
                let again = run_real(&mut r.clone());
                let same = match (&again, &real) {
                    (Some([Out::Ok(a), Out::Ok(b2), Out::Ok(c)]), [Out::Ok(_), Out::Ok(_), Out::Ok(_)]) => reconstruct_vec::<OV>([a, b2, c], B).ok() == Some(real_vals.clone()),
                    _ => false,
                };
                if !same && why == "total_differs_from_sum_of_passes" {
                    rec.inconclusive("dp_for_histogram is not reproducible from the world seed: per-pass comparison not applicable");
                } else {
                    rec.violation("released histogram is not exact + the three per-pass noise draws (mod 2^w)",
                                  json!({"kind": "noise_total", "why": why, "width": w}),
                                  json!({"desc": desc, "case": idx, "bucket": b, "exact": exact[b] as u64, "released": real_vals[b] as u64,
                                         "pass_differences_mod_2w": [per_pass[0][b] as u64, per_pass[1][b] as u64, per_pass[2][b] as u64]}));
                }
            }
        }
    }

    #[test]
    fn verif_c12_noise_passes() {
        let env = vlib::env();
        let mut rec = Recorder::new(P, "verif_c12_noise_passes");
        let only = replay_case();
        let mut cases: Vec<NoiseCase> = Vec::new();
        let reps = env.pick(3, 24);
        for _rep in 0..reps {
            for malicious in [false, true] {
                for width in [8u32, 16, 32] {
                    for (ss_bits, eps) in [(3usize, 5.0f64), (3, 1.0), (0, 0.5), (0, 20.0)] {
                        cases.push(NoiseCase { width, buckets: 32, ss_bits, eps, malicious });
                    }
                }
            }
            for malicious in [false, true] {
                for width in [8u32, 32] {
                    cases.push(NoiseCase { width, buckets: 256, ss_bits: 3, eps: 5.0, malicious });
                }
            }
        }
        for (idx, c) in cases.iter().enumerate() {
            if !env.mine(idx) || only.is_some_and(|x| x != idx) {
                continue;
            }
            macro_rules! go {
                ($ov:ty, $b:literal, $ss:literal) => {
                    noise_case_run::<$ov, $b, $ss>(&mut rec, idx, *c, env.seed)
                };
            }
            match (c.width, c.buckets, c.ss_bits) {
                (8, 32, 3) => go!(BA8, 32, 3),
                (16, 32, 3) => go!(BA16, 32, 3),
                (32, 32, 3) => go!(BA32, 32, 3),
                (8, 32, 0) => go!(BA8, 32, 0),
                (16, 32, 0) => go!(BA16, 32, 0),
                (32, 32, 0) => go!(BA32, 32, 0),
                (8, 256, 3) => go!(BA8, 256, 3),
                (32, 256, 3) => go!(BA32, 256, 3),
                _ => unreachable!(),
            }
        }
        rec.finish();
    }

    // ---- epsilon range of dp_for_histogram ------------------------------------------------------------

    #[test]
    fn verif_c12_hist_eps_range() {
        let env = vlib::env();
        let mut rec = Recorder::new(P, "verif_c12_hist_eps_range");
        let only = replay_case();
        type OV = BA16;
        const B: usize = 32;
        // (mechanism, epsilon, documented): Binomial: "error if epsilon is not in the range (0, MAX_EPSILON)" with MAX_EPSILON = 20
        // (the bound itself is ambiguous: the code comment says open, the check is closed); DiscreteLaplace inherits epsilon > 0 from
        // OPRFPaddingDp::new; its upper bound is only implied by the function's doc comment => observed, not alarmed.
        let mut cases: Vec<(&str, f64, Option<bool>)> = vec![
            ("binomial", 0.0, Some(false)), ("binomial", -0.0, Some(false)), ("binomial", -1.0, Some(false)), ("binomial", -1e-300, Some(false)),
            ("binomial", f64::NEG_INFINITY, Some(false)), ("binomial", 20.000_001, Some(false)), ("binomial", 25.0, Some(false)),
            ("binomial", 1e9, Some(false)), ("binomial", f64::INFINITY, Some(false)),
            ("binomial", 19.5, Some(true)), ("binomial", 20.0, None),
            ("laplace", 0.0, Some(false)), ("laplace", -0.0, Some(false)), ("laplace", -2.0, Some(false)), ("laplace", f64::NEG_INFINITY, Some(false)),
            ("laplace", 0.5, Some(true)), ("laplace", 5.0, Some(true)), ("laplace", 19.5, Some(true)), ("laplace", 20.0, None), ("laplace", 25.0, None),
        ];
        if env.thorough {
            cases.extend([("binomial", 10.0, Some(true)), ("binomial", 15.0, Some(true)), ("laplace", 0.01, Some(true)), ("laplace", 1.0, Some(true))]);
        }
        for (idx, (mech_name, eps, documented)) in cases.iter().enumerate() {
            if !env.mine(idx) || only.is_some_and(|x| x != idx) {
                continue;
            }
            let mech = if *mech_name == "binomial" { DpMechanism::Binomial { epsilon: *eps } } else { DpMechanism::DiscreteLaplace { epsilon: *eps } };
            let mut r = VRng::new(env.seed ^ 0xC12_0004, idx as u64);
            let exact: Vec<u128> = (0..B).map(|b| (b as u128 * 37) % 1000).collect();
            let inputs = shares_of::<OV>(&exact, &mut r);
            let world_seed = env.seed.wrapping_mul(31).wrapping_add(idx as u64);
            let desc = json!({"case": idx, "mechanism": mech_name, "epsilon": format!("{eps:e}"), "world_seed": world_seed, "documented_accept": documented});
            rec.eval();
            let Some(outs) = world3!(world_seed, false, inputs, |ctx, inp| real_histogram::<_, OV, B, 0>(ctx, inp, mech)) else {
                rec.violation("dp_for_histogram did not complete", json!({"kind": "did_not_complete", "what": "dp_for_histogram", "mechanism": mech_name}), json!({"desc": desc, "case": idx}));
                continue;
            };
            let classes: Vec<String> = outs.iter().map(Out::class).collect();
            let all_ok = outs.iter().all(|o| matches!(o, Out::Ok(_)));
            let all_err = outs.iter().all(|o| matches!(o, Out::Err(_)));
            match documented {
                None => {
                    rec.count("ctor_ambiguous_or_nonfinite_observed_only");
                    rec.seen("ctor_ambiguous_observations", format!("dp_for_histogram({mech_name}, eps={eps:e}) -> {}", classes.join(",")));
                }
                Some(true) if all_ok => {
                    rec.count("hist_eps_accept_as_documented");
                    rec.distinct(&("hist", *mech_name, eps.to_bits()));
                }
                Some(false) if all_err => {
                    rec.count("hist_eps_reject_as_documented");
                    rec.distinct(&("hist", *mech_name, eps.to_bits()));
                    rec.seen("hist_rejection_errors", classes[0].clone());
                }
                Some(want) => rec.violation(
                    "dp_for_histogram accept/reject decision differs from the documented epsilon range",
                    json!({"kind": "constructor_range", "ctor": "dp_for_histogram", "param": "epsilon", "mechanism": mech_name,
                           "decision": if *want { "rejected_inside" } else { "accepted_outside" }, "panic": classes.iter().any(|c| c == "panic")}),
                    json!({"desc": desc, "case": idx, "outcomes": classes,
                           "detail": outs.iter().map(|o| match o { Out::Ok(_) => "ok".to_string(), Out::Err(e) => e.clone(), Out::Panic(p) => p.clone() }).collect::<Vec<_>>()}),
                ),
            }
        }
        rec.finish();
    }

    // ---- dummy rows ---------------------------------------------------------------------------------

    type Row = IndistinguishableHybridReport<BA8, BA3>;
    type AggRow = IndistinguishableHybridReport<BA8, BA3, ()>;

    /// (match_key?, breakdown_key, value) shares of one row as (left, right) pairs
    type RowShares = (Option<(u128, u128)>, (u128, u128), (u128, u128));

    fn row_shares(r: &Row) -> RowShares {
        (Some(pair(&r.match_key)), pair(&r.breakdown_key), pair(&r.value))
    }
    fn agg_row_shares(r: &AggRow) -> RowShares {
        (None, pair(&r.breakdown_key), pair(&r.value))
    }

    fn make_rows(count: usize, r: &mut VRng) -> ([Vec<Row>; 3], [Vec<AggRow>; 3], Vec<(u128, u128, u128)>) {
        let mut rows: [Vec<Row>; 3] = [Vec::new(), Vec::new(), Vec::new()];
        let mut agg: [Vec<AggRow>; 3] = [Vec::new(), Vec::new(), Vec::new()];
        let mut plain = Vec::new();
        for _ in 0..count {
            let mk = r.u128() & u128::from(u64::MAX);
            let bk = r.u128() & 0xff;
            let v = r.u128() & 0x7;
            plain.push((mk, bk, v));
            let smk = share3(mk, u128::from(u64::MAX), r);
            let sbk = share3(bk, 0xff, r);
            let sv = share3(v, 0x7, r);
            for h in 0..3 {
                let match_key = Replicated::new(BA64::truncate_from(smk[h].0), BA64::truncate_from(smk[h].1));
                let breakdown_key = Replicated::new(BA8::truncate_from(sbk[h].0), BA8::truncate_from(sbk[h].1));
                let value = Replicated::new(BA3::truncate_from(sv[h].0), BA3::truncate_from(sv[h].1));
                rows[h].push(Row { match_key: match_key.clone(), value: value.clone(), breakdown_key: breakdown_key.clone() });
                agg[h].push(AggRow { match_key: (), value, breakdown_key });
            }
        }
        (rows, agg, plain)
    }

    #[derive(Clone, Copy, Debug)]
    struct PadCase {
        kind: &'static str, // "oprf" | "agg"
        eps: f64,
        delta: f64,
        sens: u32,
        cap: u32,       // matchkey_cardinality_cap (oprf)
        buckets: usize, // B (agg)
        /// None = apply_dp_padding (three passes), Some(role) = one apply_dp_padding_pass excluding that helper
        excluded: Option<Role>,
        malicious: bool,
        real_rows: usize,
    }

    async fn pad_rows<C: Context, T: crate::protocol::ipa_prf::oprf_padding::Paddable, const B: usize>(
        ctx: C,
        input: Vec<T>,
        params: PaddingParameters,
        excluded: Option<Role>,
    ) -> Result<Vec<T>, Error> {
        match excluded {
            None => apply_dp_padding::<C, T, B>(ctx, input, &params).await,
            Some(role) => apply_dp_padding_pass::<C, T, B>(ctx, input, role, &params).await,
        }
    }

    fn check_padding(rec: &mut Recorder, idx: usize, case: PadCase, desc: &Value, n: u128, plain: &[(u128, u128, u128)], outs: [Vec<RowShares>; 3]) {
        let sig_base = |kind: &str, why: &str| json!({"kind": kind, "padding": case.kind, "why": why, "single_pass": case.excluded.is_some()});
        rec.eval();
        let len = outs[0].len();
        if outs[1].len() != len || outs[2].len() != len || len < plain.len() {
            rec.violation("helpers hold different numbers of rows after padding", sig_base("dummy_rows", "row_count_differs"),
                          json!({"desc": desc, "case": idx, "lengths": [outs[0].len(), outs[1].len(), outs[2].len()], "real_rows": plain.len()}));
            return;
        }
        let passes: u128 = if case.excluded.is_some() { 1 } else { 3 };
        let mut mk_mult: std::collections::HashMap<u128, u32> = std::collections::HashMap::new();
        let mut per_bk: Vec<u128> = vec![0; 256];
        let mut left_out = [0u64; 3];
        for i in 0..len {
            let field = |f: usize| -> [(u128, u128); 3] {
                std::array::from_fn(|h| match f {
                    0 => outs[h][i].0.unwrap_or((0, 0)),
                    1 => outs[h][i].1,
                    _ => outs[h][i].2,
                })
            };
            let rec3 = [reconstruct3(field(0)), reconstruct3(field(1)), reconstruct3(field(2))];
            let (mk, bk, v) = match rec3 {
                [Ok(a), Ok(b), Ok(c)] => (a, b, c),
                _ => {
                    rec.violation("a row after padding is not a consistent replicated sharing", sig_base("dummy_rows", if i < plain.len() { "real_row_inconsistent" } else { "dummy_inconsistent_sharing" }),
                                  json!({"desc": desc, "case": idx, "row": i, "shares": format!("{:x?}", [field(0), field(1), field(2)])}));
                    return;
                }
            };
            if i < plain.len() {
                if (mk, bk, v) != (if case.kind == "oprf" { plain[i].0 } else { 0 }, plain[i].1, plain[i].2) {
                    rec.violation("a real row was changed by padding", sig_base("dummy_rows", "real_row_changed"), json!({"desc": desc, "case": idx, "row": i}));
                    return;
                }
                continue;
            }
            // dummy rows contribute nothing: value 0; OPRF dummies also carry breakdown key 0
            if v != 0 || (case.kind == "oprf" && bk != 0) {
                rec.violation("a dummy row carries a non-zero contribution", sig_base("dummy_rows", if v != 0 { "dummy_value_nonzero" } else { "dummy_breakdown_nonzero" }),
                              json!({"desc": desc, "case": idx, "row": i, "match_key": format!("{mk:x}"), "breakdown_key": bk as u64, "value": v as u64}));
                return;
            }
            if let Some(ex) = case.excluded {
                let h = ex as usize;
                let z = outs[h][i];
                if z.0.unwrap_or((0, 0)) != (0, 0) || z.1 != (0, 0) || z.2 != (0, 0) {
                    rec.violation("the excluded helper holds non-zero shares of a dummy row", sig_base("dummy_rows", "excluded_helper_nonzero"),
                                  json!({"desc": desc, "case": idx, "row": i}));
                    return;
                }
            }
            // which helper was left out of the pass that produced this row (its shares are all zero)
            for h in 0..3 {
                let z = outs[h][i];
                if z.0.unwrap_or((0, 0)) == (0, 0) && z.1 == (0, 0) && z.2 == (0, 0) {
                    left_out[h] += 1;
                }
            }
            if case.kind == "oprf" {
                *mk_mult.entry(mk).or_insert(0) += 1;
            } else {
                if bk as usize >= case.buckets {
                    rec.violation("a dummy row names a breakdown key outside the bucket range", sig_base("dummy_rows", "dummy_breakdown_out_of_range"),
                                  json!({"desc": desc, "case": idx, "row": i, "breakdown_key": bk as u64}));
                    return;
                }
                per_bk[bk as usize] += 1;
            }
            rec.count("dummy_rows_consistent_and_value_free");
        }
        // counts: every draw lies in 0..2n
        if case.kind == "oprf" {
            let mut by_card: std::collections::BTreeMap<u32, u128> = std::collections::BTreeMap::new();
            for m in mk_mult.values() {
                *by_card.entry(*m).or_insert(0) += 1;
            }
            if let Some((c, k)) = by_card.iter().find(|(c, k)| **c == 0 || **c > case.cap || **k > passes * 2 * n) {
                rec.violation("number of dummy match keys of one cardinality is outside 0..2n per pass (or cardinality above the cap)", sig_base("dummy_rows", "dummy_count_out_of_range"),
                              json!({"desc": desc, "case": idx, "cardinality": c, "distinct_match_keys": *k as u64, "bound": (passes * 2 * n) as u64}));
                return;
            }
            rec.add("dummy_cardinality_groups_in_range", by_card.len() as u64);
        } else {
            if let Some(b) = (0..case.buckets).find(|b| per_bk[*b] > passes * 2 * n) {
                rec.violation("number of dummy rows of one breakdown key is outside 0..2n per pass", sig_base("dummy_rows", "dummy_count_out_of_range"),
                              json!({"desc": desc, "case": idx, "breakdown_key": b, "rows": per_bk[b] as u64, "bound": (passes * 2 * n) as u64}));
                return;
            }
            rec.add("dummy_breakdown_counts_in_range", case.buckets as u64);
        }
        // three passes, each generated by two helpers and unknown to the third: with the truncation points used here
        // (n >= 3, several draws per pass) an empty pass has probability below delta^2, so every helper must be the
        // left-out one of some dummy row; with a single pass only the excluded helper is
        if case.excluded.is_none() && len - plain.len() >= 30 {
            if let Some(h) = (0..3).find(|h| left_out[*h] == 0) {
                rec.violation("a helper knows every dummy row: no padding pass was generated without it", sig_base("dummy_rows", "helper_never_left_out"),
                              json!({"desc": desc, "case": idx, "helper": h, "dummy_rows_unknown_to_each_helper": left_out, "dummy_rows": len - plain.len()}));
                return;
            }
            rec.count("three_pass_cases_every_helper_left_out_once");
        }
        rec.add("dummy_rows_seen", (len - plain.len()) as u64);
        rec.distinct(&("pad", case.kind, case.eps.to_bits(), case.delta.to_bits(), case.sens, case.cap, case.buckets, case.excluded.map(|r| r as usize), case.malicious, case.real_rows));
        if rec.want_sample() {
            rec.sample(serde_json::json!({"padding_case": {"kind": format!("{:?}", case.kind), "epsilon": case.eps, "delta": case.delta, "sensitivity": case.sens, "buckets": case.buckets, "malicious": case.malicious, "real_rows": case.real_rows}}));
        }
        rec.seen("padding_shapes", format!("{}/{}/{}", case.kind, case.excluded.map_or("three-pass".to_string(), |r| format!("excl-{r:?}")), if case.malicious { "malicious" } else { "semi-honest" }));
        if rec.want_sample() {
            rec.sample(json!({"desc": desc, "rows_after_padding": len, "dummy_rows": len - plain.len()}));
        }
    }

    #[test]
    fn verif_c12_padding_rows() {
        let env = vlib::env();
        let mut rec = Recorder::new(P, "verif_c12_padding_rows");
        let only = replay_case();
        let mut cases: Vec<PadCase> = Vec::new();
        let oprf_params: &[(f64, f64, u32, u32)] = &[(5.0, 1e-6, 2, 10), (10.0, 1e-4, 2, 3), (1.0, 1e-6, 2, 4)];
        let agg_params: &[(f64, f64, u32, usize)] = &[(5.0, 1e-6, 10, 32), (10.0, 1e-4, 3, 256), (2.0, 1e-6, 2, 32)];
        let reps = env.pick(2, 12);
        for rep in 0..reps {
            for malicious in [false, true] {
                for excluded in [None, Some(Role::H1), Some(Role::H2), Some(Role::H3)] {
                    for (pi, (e, d, s, c)) in oprf_params.iter().enumerate() {
                        if malicious && excluded.is_some() && pi > 0 && !env.thorough {
                            continue;
                        }
                        cases.push(PadCase { kind: "oprf", eps: *e, delta: *d, sens: *s, cap: *c, buckets: 0, excluded, malicious, real_rows: [0, 1, 5][(pi + rep) % 3] });
                    }
                    for (pi, (e, d, s, b)) in agg_params.iter().enumerate() {
                        if malicious && excluded.is_some() && pi > 0 && !env.thorough {
                            continue;
                        }
                        cases.push(PadCase { kind: "agg", eps: *e, delta: *d, sens: *s, cap: 0, buckets: *b, excluded, malicious, real_rows: [5, 0, 1][(pi + rep) % 3] });
                    }
                }
            }
        }
        for (idx, c) in cases.iter().enumerate() {
            if !env.mine(idx) || only.is_some_and(|x| x != idx) {
                continue;
            }
            let c = *c;
            let (n, m_hi, m_lo) = smallest_n_f64(c.eps, c.delta, c.sens);
            if m_hi.min(m_lo) < AMBIGUITY {
                rec.count("padding_case_boundary_ambiguous_skipped");
                continue;
            }
            let mut r = VRng::new(env.seed ^ 0xC12_0006, idx as u64);
            let (rows, agg, plain) = make_rows(c.real_rows, &mut r);
            let world_seed = env.seed.wrapping_mul(0x2545_F491).wrapping_add(idx as u64);
            let desc = json!({"case": idx, "padding": c.kind, "epsilon": c.eps, "delta": c.delta, "sensitivity": c.sens, "cardinality_cap": c.cap, "buckets": c.buckets,
                              "excluded": c.excluded.map(|r| format!("{r:?}")), "malicious": c.malicious, "real_rows": c.real_rows, "world_seed": world_seed, "n": n});
            let params = if c.kind == "oprf" {
                PaddingParameters {
                    oprf_padding: OPRFPadding::Parameters { oprf_epsilon: c.eps, oprf_delta: c.delta, matchkey_cardinality_cap: c.cap, oprf_padding_sensitivity: c.sens },
                    aggregation_padding: AggregationPadding::NoAggPadding,
                }
            } else {
                PaddingParameters {
                    oprf_padding: OPRFPadding::NoOPRFPadding,
                    aggregation_padding: AggregationPadding::Parameters { aggregation_epsilon: c.eps, aggregation_delta: c.delta, aggregation_padding_sensitivity: c.sens },
                }
            };
            rec.eval();
            let shares: Option<Result<[Vec<RowShares>; 3], Vec<String>>> = if c.kind == "oprf" {
                world3!(world_seed, c.malicious, rows, |ctx, inp| pad_rows::<_, Row, 32>(ctx, inp, params, c.excluded)).map(|outs| match &outs {
                    [Out::Ok(a), Out::Ok(b), Out::Ok(cc)] => Ok([a, b, cc].map(|v| v.iter().map(row_shares).collect())),
                    _ => Err(outs.iter().map(Out::class).collect()),
                })
            } else if c.buckets == 32 {
                world3!(world_seed, c.malicious, agg, |ctx, inp| pad_rows::<_, AggRow, 32>(ctx, inp, params, c.excluded)).map(|outs| match &outs {
                    [Out::Ok(a), Out::Ok(b), Out::Ok(cc)] => Ok([a, b, cc].map(|v| v.iter().map(agg_row_shares).collect())),
                    _ => Err(outs.iter().map(Out::class).collect()),
                })
            } else {
                world3!(world_seed, c.malicious, agg, |ctx, inp| pad_rows::<_, AggRow, 256>(ctx, inp, params, c.excluded)).map(|outs| match &outs {
                    [Out::Ok(a), Out::Ok(b), Out::Ok(cc)] => Ok([a, b, cc].map(|v| v.iter().map(agg_row_shares).collect())),
                    _ => Err(outs.iter().map(Out::class).collect()),
                })
            };
            match shares {
                None => rec.violation("padding did not complete", json!({"kind": "did_not_complete", "what": "apply_dp_padding", "padding": c.kind}), json!({"desc": desc, "case": idx})),
                Some(Err(classes)) => rec.violation("padding failed inside the documented parameter range",
                                                    json!({"kind": "padding_failed", "padding": c.kind, "outcomes": classes}), json!({"desc": desc, "case": idx})),
                Some(Ok(outs)) => check_padding(&mut rec, idx, c, &desc, u128::from(n), &plain, outs),
            }
        }
        rec.finish();
    }
}

// ---------------------------------------------------------------------------------------------
// every shard pads: dummy records are added on each shard of a helper, also on one that received no rows
// ---------------------------------------------------------------------------------------------
//
// The number of dummy records is a property of the configuration, not of the data: a shard that happens to receive no
// input rows still has to run the three padding passes (otherwise the total number of rows entering the shuffle tells
// whether a shard was empty). Observed on the wire of complete hybrid runs: the `send_num_fake_records` messages of the
// report-padding passes, per shard.

#[cfg(not(feature = "shuttle"))]
mod every_shard_pads {
    use std::sync::{Arc, Mutex};

    use serde_json::json;

    use crate::verif::{
        vlib::{self, Recorder, VRng},
        wl::{self, Exec, HybridCase, Rep, TapState},
    };

    #[test]
    fn verif_c12_every_shard_pads() {
        let env = vlib::env();
        let mut rec = Recorder::new("C12", "verif_c12_every_shard_pads");
        let cases = env.pick(6, 36);
        for idx in 0..cases {
            if !env.mine(idx) {
                continue;
            }
            let mut r = VRng::new(env.seed ^ 0xc12e, idx as u64);
            let shards = [2usize, 3, 2, 5][idx % 4];
            // all reports on one shard / on all but one shard / spread over all shards (control)
            let layout = idx % 3;
            let keys = 2 + r.below(5);
            let mut reports = Vec::new();
            for k in 0..keys {
                reports.push(Rep::Imp { mk: 100 + k, bk: r.below(30) as u8 });
                reports.push(Rep::Conv { mk: 100 + k, v: 1 + r.below(6) as u8 });
            }
            let home = r.below(shards as u64) as usize;
            let assign: Vec<usize> = (0..reports.len())
                .map(|i| match layout {
                    0 => home,
                    1 => {
                        let s = i % (shards - 1);
                        if s >= home { s + 1 } else { s }
                    }
                    _ => i % shards,
                })
                .collect();
            let empty: Vec<usize> = (0..shards).filter(|s| !assign.contains(s)).collect();
            let case = HybridCase {
                reports,
                assign,
                shards,
                malicious: idx % 2 == 0,
                padding: true,
                hv_bits: 32,
                world_seed: env.seed.wrapping_mul(211) + idx as u64,
                exec: Exec::Paused,
            };
            let state = Arc::new(Mutex::new(TapState::default()));
            let run = wl::run_hybrid(&case, Some(wl::tap(Arc::clone(&state))));
            rec.eval();
            if !run.all_ok() {
                rec.inconclusive(format!("case {idx}: the padded hybrid run did not complete on every helper ({})", run.leader_classes()));
                continue;
            }
            let st = state.lock().unwrap();
            // per shard: passes of the report padding on which a fake-record count was announced
            let mut missing = Vec::new();
            for s in 0..shards {
                for pass in ["padding_dp_pass1", "padding_dp_pass2", "padding_dp_pass3"] {
                    let seen = st.chunks.iter().any(|c| c.key.shard as usize == s && c.key.gate.contains("report_padding_dp") && c.key.gate.contains(pass) && c.key.gate.contains("send_num_fake_records"));
                    if !seen {
                        missing.push((s, pass));
                    }
                }
            }
            if missing.is_empty() {
                rec.count("padded_runs_every_shard_announced_all_passes");
                if !empty.is_empty() {
                    rec.count("padded_runs_with_a_shard_without_rows");
                }
                rec.distinct(&("pads", shards, layout, case.malicious, idx));
            } else {
                rec.violation(
                    "a shard ran no dummy-record pass: the number of dummy records depends on whether the shard received rows",
                    json!({"kind": "shard_without_padding_pass", "shard_had_rows": !empty.contains(&missing[0].0)}),
                    json!({"case": idx, "hybrid_case": case.summary(), "shards_without_rows": empty, "missing": missing.iter().map(|(s, p)| format!("shard {s}: {p}")).collect::<Vec<_>>()}),
                );
            }
            if rec.want_sample() {
                rec.sample(json!({"case": idx, "hybrid_case": case.summary(), "shards_without_rows": empty}));
            }
        }
        rec.finish();
    }
}
