// placeholder: c12 monitors (not built yet)
