// C06 Shared randomness is pairwise identical, step-separated and never reused.
//
// (1) direct comparison on three endpoints (make_participants and the real negotiate /
//     gen_and_distribute paths): H_i.right(step, idx, off) == H_{i+1}.left(step, idx, off); values for
//     different (step, idx, off) differ; offset cap panics instead of wrapping; indexed / sequential
//     exclusivity; all shards of a helper derive identical cross-shard randomness matching neighbours.
// (2) independent no-reuse / collision monitor (pm.rs) over the H5 draw log of protocol executions
//     chosen for their index arithmetic.

use std::{collections::HashMap, sync::Arc, time::Duration};

use futures::future::join_all;
use generic_array::GenericArray;
use ipa_step::StepNarrow;
use rand::RngCore;
use serde_json::{Value, json};
use typenum::{U1, U8};

use super::{
    c05, pm,
    vlib::{self, Paused, Recorder, VRng, catch, catch_fut},
    wl::{self, Exec, HybridCase, Rep},
};
use crate::{
    ff::boolean_array::{BA3, BA8, BA64},
    helpers::{Direction, Role, negotiate_prss, setup_cross_shard_prss},
    protocol::{
        Gate, RecordId,
        context::{Context, ShardedContext},
        prss::{Endpoint, PrssIndex, SharedRandomness},
    },
    report::hybrid::IndistinguishableHybridReport,
    secret_sharing::replicated::semi_honest::AdditiveShare,
    sharding::ShardConfiguration,
    test_fixture::{TestWorld, TestWorldConfig, WithShards, make_participants},
};

const INDICES: &[u32] = &[0, 1, 2, 3, 255, 256, 65_535, 65_536, 1 << 31, u32::MAX - 1, u32::MAX];

fn gates() -> Vec<(String, Gate)> {
    let g = Gate::default();
    vec![
        ("/".into(), g.clone()),
        ("a".into(), g.narrow("a")),
        ("b".into(), g.narrow("b")),
        ("ab".into(), g.narrow("ab")),
        ("a/b".into(), g.narrow("a").narrow("b")),
        ("a/a".into(), g.narrow("a").narrow("a")),
        ("aa".into(), g.narrow("aa")),
        ("bit0".into(), g.narrow("bit0")),
        ("bit1".into(), g.narrow("bit1")),
        ("bit10".into(), g.narrow("bit10")),
    ]
    .into_iter()
    .chain(long_gates())
    .collect()
}

/// Step strings of 15 .. 1030 bytes that agree everywhere except in their final byte (siblings below a deep
/// path), plus a deep parent and its child: key derivation has to depend on the whole string.
fn long_gates() -> Vec<(String, Gate)> {
    let mut v = Vec::new();
    for len in [15usize, 16, 17, 31, 32, 33, 63, 64, 65, 120, 127, 128, 129, 255, 256, 257, 512, 1030] {
        // levels of 9 characters + '/' each, the rest in the last level
        let mut g = Gate::default();
        let mut used = 0;
        let mut level = 0;
        while used + 10 + 6 <= len {
            g = g.narrow(&format!("level{level:04}"));
            used += 10;
            level += 1;
        }
        // "/" + body + final byte
        let body = "x".repeat(len.saturating_sub(used + 2));
        for last in ["0", "1"] {
            let gg = g.narrow(&format!("{body}{last}"));
            v.push((format!("long{len}/{last}"), gg));
        }
        if len >= 128 {
            v.push((format!("long{len}/parent"), g.clone()));
            v.push((format!("long{len}/child"), g.narrow("c")));
        }
    }
    // one entry per distinct step string (several lengths share their parent path)
    let mut seen = std::collections::HashSet::new();
    v.retain(|(_, g)| seen.insert(g.as_ref().to_string()));
    v
}

struct Distinct {
    map: HashMap<u128, String>,
}
impl Distinct {
    fn note(&mut self, rec: &mut Recorder, v: u128, key: String, case: usize) {
        if let Some(prev) = self.map.get(&v) {
            if *prev != key {
                rec.violation(
                    "two different (pair, step, index, offset) inputs gave the same 128-bit value",
                    json!({"kind": "direct_collision"}),
                    json!({"case": case, "a": prev, "b": key}),
                );
            }
        } else {
            self.map.insert(v, key);
        }
    }
}

/// agreement + distinctness for one world of three endpoints
fn check_endpoints(rec: &mut Recorder, eps: &[Endpoint; 3], case: usize, origin: &str, idx_salt: u32, quick_blocks: bool) {
    let mut d = Distinct { map: HashMap::new() };
    for (gname, gate) in gates() {
        let prss: Vec<_> = eps.iter().map(|e| e.indexed(&gate)).collect();
        for (k, &i0) in INDICES.iter().enumerate() {
            let idx = PrssIndex::from(i0 ^ idx_salt);
            // single values
            let v: Vec<(u128, u128)> = prss.iter().map(|p| p.generate_values(idx)).collect();
            rec.eval();
            for h in 0..3 {
                let n = (h + 1) % 3;
                if v[h].1 != v[n].0 {
                    rec.violation(
                        "right-shared value differs from the right neighbour's left-shared value",
                        json!({"kind": "pair_disagreement", "origin": origin, "blocks": 1}),
                        json!({"case": case, "gate": gname, "index": i0 ^ idx_salt, "helper": h}),
                    );
                } else {
                    rec.count("pair_values_agree");
                }
                d.note(rec, v[h].1, format!("pair{h}/{gname}/{}/0", i0 ^ idx_salt), case);
            }
            rec.distinct(&(origin, gname.as_str(), i0, 1));
            // multi-block values on a fresh index (an index may be drawn only once)
            if k % 3 == 0 {
                let idx2 = PrssIndex::from((i0 ^ idx_salt).wrapping_add(7_000_003));
                let blocks = if quick_blocks { 3 } else { 40 };
                let chunks: Vec<Vec<(GenericArray<u128, U8>, GenericArray<u128, U8>)>> =
                    prss.iter().map(|p| p.generate_chunks_iter::<_, U8>(idx2).take(blocks).collect()).collect();
                rec.eval();
                for h in 0..3 {
                    let n = (h + 1) % 3;
                    for b in 0..blocks {
                        for j in 0..8 {
                            if chunks[h][b].1[j] != chunks[n][b].0[j] {
                                rec.violation(
                                    "multi-block right-shared value differs from the neighbour's left-shared value",
                                    json!({"kind": "pair_disagreement", "origin": origin, "blocks": blocks}),
                                    json!({"case": case, "gate": gname, "index": (i0 ^ idx_salt).wrapping_add(7_000_003), "offset": b * 8 + j, "helper": h}),
                                );
                            }
                            d.note(rec, chunks[h][b].1[j], format!("pair{h}/{gname}/{}/{}", (i0 ^ idx_salt).wrapping_add(7_000_003), b * 8 + j), case);
                        }
                    }
                }
                rec.add("multi_block_values_compared", (3 * blocks * 8) as u64);
                rec.distinct(&(origin, gname.as_str(), i0, blocks));
            }
        }
    }
    rec.add("distinct_values_seen", d.map.len() as u64);
}

#[test]
fn verif_c06_direct() {
    let env = vlib::env();
    let mut rec = Recorder::new("C06", "verif_c06_direct");
    let worlds = env.pick(16, 64);
    for case in 0..worlds {
        if !env.mine(case) {
            continue;
        }
        let mut r = VRng::new(env.seed ^ 0xc06, case as u64);
        let eps = make_participants(&mut r);
        check_endpoints(&mut rec, &eps, case, "make_participants", (case as u32).wrapping_mul(2_654_435_761) & 0x0fff_ffff, !env.thorough);

        // offset cap: offsets 0..=2048 are served, 2049 must panic (never wrap around)
        let gate = Gate::default().narrow("cap");
        let p = eps[0].indexed(&gate);
        let q = eps[1].indexed(&gate);
        rec.eval();
        let got = catch(|| {
            let a: Vec<u128> = p.generate_chunks_one_side::<_, U1>(PrssIndex::from(5u32), Direction::Right).take(2049).map(|g| g[0]).collect();
            let b: Vec<u128> = q.generate_chunks_one_side::<_, U1>(PrssIndex::from(5u32), Direction::Left).take(2049).map(|g| g[0]).collect();
            (a, b)
        });
        match got {
            Ok((a, b)) if a == b => {
                let mut s = std::collections::HashSet::new();
                if a.iter().all(|v| s.insert(*v)) {
                    rec.count("offsets_up_to_cap_distinct_and_agree");
                } else {
                    rec.violation("values repeat within one index below the offset cap", json!({"kind": "offset_repeat"}), json!({"case": case}));
                }
            }
            Ok(_) => rec.violation("multi-block values disagree between neighbours below the cap", json!({"kind": "pair_disagreement", "origin": "cap", "blocks": 2049}), json!({"case": case})),
            Err(p) => rec.violation("drawing offsets 0..=2048 panicked", json!({"kind": "offset_cap_too_low"}), json!({"case": case, "panic": p})),
        }
        rec.eval();
        let over = catch(|| {
            eps[2].indexed(&gate).generate_chunks_one_side::<_, U1>(PrssIndex::from(6u32), Direction::Right).take(2051).map(|g| g[0]).collect::<Vec<u128>>()
        });
        match over {
            Err(_) => rec.count("offset_beyond_cap_panics"),
            Ok(v) => rec.violation(
                "drawing beyond the 2^11 offset cap did not fail",
                json!({"kind": "offset_cap_not_enforced"}),
                json!({"case": case, "values": v.len()}),
            ),
        }

        // sequential generators: neighbours agree; exclusivity with indexed access per step
        let sg = Gate::default().narrow("seq");
        let (mut l0, mut r0) = eps[0].sequential(&sg);
        let (mut l1, mut r1) = eps[1].sequential(&sg);
        let (mut l2, mut r2) = eps[2].sequential(&sg);
        rec.eval();
        let mut ok = true;
        for _ in 0..40 {
            let (a, b, c) = (r0.next_u64(), r1.next_u64(), r2.next_u64());
            let (x, y, z) = (l1.next_u64(), l2.next_u64(), l0.next_u64());
            ok &= a == x && b == y && c == z;
        }
        if ok {
            rec.count("sequential_streams_agree");
        } else {
            rec.violation("sequential shared generators of neighbours disagree", json!({"kind": "sequential_disagreement"}), json!({"case": case}));
        }
        rec.eval();
        match catch(|| eps[0].indexed(&sg)) {
            Err(_) => rec.count("indexed_after_sequential_rejected"),
            Ok(_) => rec.violation("indexed access allowed after sequential access on one step", json!({"kind": "exclusivity", "order": "sequential_then_indexed"}), json!({"case": case})),
        }
        let ig = Gate::default().narrow("idx-first");
        // (a panic inside the endpoint poisons its lock: each endpoint gets one exclusivity probe, last)
        let _ = eps[2].indexed(&ig);
        rec.eval();
        match catch(|| eps[2].sequential(&ig)) {
            Err(_) => rec.count("sequential_after_indexed_rejected"),
            Ok(_) => rec.violation("sequential access allowed after indexed access on one step", json!({"kind": "exclusivity", "order": "indexed_then_sequential"}), json!({"case": case})),
        }
        rec.eval();
        let sg2 = Gate::default().narrow("seq2");
        let _ = eps[1].sequential(&sg2);
        match catch(|| eps[1].sequential(&sg2)) {
            Err(_) => rec.count("second_sequential_rejected"),
            Ok(_) => rec.violation("sequential access allowed twice on one step", json!({"kind": "exclusivity", "order": "sequential_twice"}), json!({"case": case})),
        }
        if rec.want_sample() {
            rec.sample(json!({"world": case, "gates": gates().len(), "indices": INDICES, "cap_checked": true}));
        }
    }
    rec.finish();
}

async fn negotiated<const S: usize>(seed: u64) -> Vec<Result<Vec<[(u128, u128); 3]>, String>> {
    // returns, per role, for every shard the cross-shard values at 3 indices (real gen_and_distribute path)
    let mut cfg = TestWorldConfig::default();
    cfg.seed = seed;
    cfg.timeout = None;
    let world = TestWorld::<WithShards<S>>::with_shards(&cfg);
    let ctxs = world.contexts();
    let mut futs = Vec::new();
    for hctx in ctxs {
        for ctx in hctx {
            let world = &world;
            futs.push(async move {
                let role = ctx.role();
                let shard = ctx.shard_id();
                let gateway = world.gateway(role, shard);
                let gate = Gate::default().narrow("xs-setup");
                let r = catch_fut(setup_cross_shard_prss(gateway, &gate, ctx.narrow("xs-prss").prss(), ctx.clone())).await;
                let out = match r {
                    Ok(Ok(ep)) => {
                        let p = ep.indexed(&Gate::default().narrow("xs-use"));
                        Ok([p.generate_values(0u32), p.generate_values(1u32), p.generate_values(77u32)])
                    }
                    Ok(Err(e)) => Err(format!("{e:?}")),
                    Err(p) => Err(format!("panic: {p}")),
                };
                // also the test-world provided cross-shard randomness
                let c = ctx.cross_shard_prss();
                let builtin = [c.generate_values(RecordId::from(0u32)), c.generate_values(RecordId::from(1u32)), c.generate_values(RecordId::from(5u32))];
                (role, usize::from(shard), out, builtin)
            });
        }
    }
    let res = join_all(futs).await;
    // arrange: per role -> per shard
    let mut per: Vec<Vec<Option<Result<[(u128, u128); 3], String>>>> = vec![vec![None; S]; 3];
    let mut per_b: Vec<Vec<Option<[(u128, u128); 3]>>> = vec![vec![None; S]; 3];
    for (role, shard, out, builtin) in res {
        per[role as usize][shard] = Some(out);
        per_b[role as usize][shard] = Some(builtin);
    }
    let mut ret = Vec::new();
    for role in 0..3 {
        let mut v = Vec::new();
        let mut err = None;
        for s in 0..S {
            match per[role][s].clone().unwrap() {
                Ok(x) => v.push(x),
                Err(e) => err = Some(e),
            }
        }
        ret.push(match err {
            Some(e) => Err(e),
            None => Ok(v),
        });
    }
    for role in 0..3 {
        ret.push(Ok(per_b[role].iter().map(|x| x.unwrap()).collect()));
    }
    ret
}

/// The leader shard of helper `fh` gives up right before distributing the seeds: it opens the seed channels to
/// its sibling shards and closes them without a record. Returns, for the shards 1.. of `fh`, Ok(values) / Err, and
/// the values every shard of the right neighbour (honest) derived.
async fn leader_fault<const S: usize>(seed: u64, fh: usize) -> (Vec<Result<[(u128, u128); 3], String>>, Vec<Result<[(u128, u128); 3], String>>) {
    use crate::{helpers::{ChannelId, TotalRecords}, protocol::prss::Seed};
    let mut cfg = TestWorldConfig::default();
    cfg.seed = seed;
    cfg.timeout = None;
    let world = TestWorld::<WithShards<S>>::with_shards(&cfg);
    let ctxs = world.contexts();
    let mut futs = Vec::new();
    for hctx in ctxs {
        for ctx in hctx {
            let world = &world;
            futs.push(async move {
                let role = ctx.role();
                let shard = usize::from(ctx.shard_id());
                let gateway = world.gateway(role, ctx.shard_id());
                let gate = Gate::default().narrow("xs-setup");
                if role as usize == fh && ctx.is_leader() {
                    for peer in ctx.peer_shards() {
                        gateway
                            .get_shard_sender::<(Seed, Seed)>(&ChannelId::new(peer, gate.clone()), TotalRecords::ONE)
                            .close(RecordId::FIRST)
                            .await;
                    }
                    return (role as usize, shard, Err("faulted leader".to_string()));
                }
                let r = catch_fut(setup_cross_shard_prss(gateway, &gate, ctx.narrow("xs-prss").prss(), ctx.clone())).await;
                let out = match r {
                    Ok(Ok(ep)) => {
                        let p = ep.indexed(&Gate::default().narrow("xs-use"));
                        Ok([p.generate_values(0u32), p.generate_values(1u32), p.generate_values(77u32)])
                    }
                    Ok(Err(e)) => Err(format!("{e:?}")),
                    Err(p) => Err(format!("panic: {p}")),
                };
                (role as usize, shard, out)
            });
        }
    }
    let res = join_all(futs).await;
    let mut faulted: Vec<Option<Result<[(u128, u128); 3], String>>> = vec![None; S];
    let mut right: Vec<Option<Result<[(u128, u128); 3], String>>> = vec![None; S];
    for (role, shard, out) in res {
        if role == fh {
            faulted[shard] = Some(out);
        } else if role == (fh + 1) % 3 {
            right[shard] = Some(out);
        }
    }
    (faulted.into_iter().skip(1).map(Option::unwrap).collect(), right.into_iter().map(Option::unwrap).collect())
}

fn check_cross(rec: &mut Recorder, vals: &[Result<Vec<[(u128, u128); 3]>, String>], which: &str, shards: usize, case: usize) {
    rec.eval();
    let mut ok: Vec<&Vec<[(u128, u128); 3]>> = Vec::new();
    for v in vals {
        match v {
            Ok(x) => ok.push(x),
            Err(e) => {
                rec.violation("cross-shard randomness setup failed on an honest run", json!({"kind": "cross_shard_setup_failed", "path": which}), json!({"case": case, "error": e}));
                return;
            }
        }
    }
    let mut good = true;
    for role in 0..3 {
        for s in 1..shards {
            if ok[role][s] != ok[role][0] {
                good = false;
                rec.violation(
                    "two shards of one helper derive different cross-shard randomness",
                    json!({"kind": "cross_shard_mismatch", "path": which}),
                    json!({"case": case, "role": role, "shard": s}),
                );
            }
        }
        let n = (role + 1) % 3;
        for k in 0..3 {
            if ok[role][0][k].1 != ok[n][0][k].0 {
                good = false;
                rec.violation(
                    "cross-shard randomness does not match the neighbouring helper's shards",
                    json!({"kind": "cross_shard_pair_disagreement", "path": which}),
                    json!({"case": case, "role": role, "k": k}),
                );
            }
        }
    }
    if good {
        rec.count("cross_shard_values_agree");
        rec.distinct(&(which, shards, case));
    }
}

#[test]
fn verif_c06_negotiated() {
    let env = vlib::env();
    let mut rec = Recorder::new("C06", "verif_c06_negotiated");
    let n = env.pick(8, 48);
    for case in 0..n {
        if !env.mine(case) {
            continue;
        }
        let seed = env.seed.wrapping_mul(6007) + case as u64;
        // (a) the real negotiate_prss path over in-memory gateways
        let r = vlib::run_paused(Duration::from_secs(60), async move {
            let mut cfg = TestWorldConfig::default();
            cfg.seed = seed;
            cfg.timeout = None;
            let world = TestWorld::new_with(&cfg);
            let gate = Gate::default().narrow("negotiate");
            let futs = Role::all().iter().map(|role| {
                let gw = world.gateway(*role);
                let gate = gate.clone();
                async move {
                    let mut r = VRng::new(seed, *role as u64 + 1);
                    catch_fut(negotiate_prss(gw, &gate, &mut r)).await
                }
            });
            let eps = join_all(futs).await;
            eps.into_iter().map(|e| match e {
                Ok(Ok(ep)) => Ok(ep),
                Ok(Err(e)) => Err(format!("{e:?}")),
                Err(p) => Err(format!("panic: {p}")),
            }).collect::<Vec<_>>()
        });
        rec.eval();
        match r {
            Paused::Quiescent => rec.violation("PRSS negotiation between three helpers did not complete", json!({"kind": "negotiate_no_completion"}), json!({"case": case})),
            Paused::Done(v) => {
                let mut it = v.into_iter();
                match (it.next().unwrap(), it.next().unwrap(), it.next().unwrap()) {
                    (Ok(a), Ok(b), Ok(c)) => {
                        rec.count("negotiated_worlds");
                        check_endpoints(&mut rec, &[a, b, c], case, "negotiate_prss", 0x0100_0000 + case as u32, true);
                    }
                    other => rec.violation("PRSS negotiation failed on an honest run", json!({"kind": "negotiate_failed"}), json!({"case": case, "detail": format!("{other:?}").chars().take(300).collect::<String>()})),
                }
            }
        }
        // (b) cross-shard randomness: real gen_and_distribute + the contexts' built-in one
        let shards = [2usize, 3, 5][case % 3];
        let r = vlib::run_paused(Duration::from_secs(60), async move {
            match shards {
                2 => negotiated::<2>(seed ^ 0x55).await,
                3 => negotiated::<3>(seed ^ 0x55).await,
                _ => negotiated::<5>(seed ^ 0x55).await,
            }
        });
        match r {
            Paused::Quiescent => rec.violation("cross-shard randomness setup did not complete", json!({"kind": "cross_shard_no_completion"}), json!({"case": case, "shards": shards})),
            Paused::Done(v) => {
                check_cross(&mut rec, &v[0..3], "gen_and_distribute", shards, case);
                check_cross(&mut rec, &v[3..6], "context_cross_shard_prss", shards, case);
            }
        }
        // (c) the same setup with a leader that closes its seed channels without sending: a sibling shard must
        //     fail, or hold the randomness its neighbours hold - never succeed with randomness of its own
        let fh = case % 3;
        let r = vlib::run_paused(Duration::from_secs(60), async move {
            match shards {
                2 => leader_fault::<2>(seed ^ 0x66, fh).await,
                3 => leader_fault::<3>(seed ^ 0x66, fh).await,
                _ => leader_fault::<5>(seed ^ 0x66, fh).await,
            }
        });
        rec.eval();
        match r {
            Paused::Quiescent => rec.count("leader_fault_siblings_wait_forever"),
            Paused::Done((siblings, right)) => {
                let neighbour: Vec<&[(u128, u128); 3]> = right.iter().filter_map(|r| r.as_ref().ok()).collect();
                let oks: Vec<&[(u128, u128); 3]> = siblings.iter().filter_map(|r| r.as_ref().ok()).collect();
                rec.add("leader_fault_siblings_failed", (siblings.len() - oks.len()) as u64);
                let mut bad = oks.windows(2).any(|w| w[0] != w[1]);
                for v in &oks {
                    if let Some(n) = neighbour.first() {
                        if (0..3).any(|k| v[k].1 != n[k].0) {
                            bad = true;
                        }
                    }
                }
                if bad {
                    rec.violation(
                        "a shard whose leader never sent the seeds reports success with cross-shard randomness that differs from its sibling / neighbour shards",
                        json!({"kind": "cross_shard_fallback_randomness", "path": "gen_and_distribute"}),
                        json!({"case": case, "shards": shards, "faulted_helper": fh,
                               "siblings": siblings.iter().map(|r| r.as_ref().map(|_| "ok").map_err(|e| e.chars().take(80).collect::<String>())).collect::<Vec<_>>()}),
                    );
                } else {
                    rec.count("leader_fault_cases_held");
                    rec.distinct(&("leader_fault", shards, fh, case));
                }
            }
        }
        if rec.want_sample() {
            rec.sample(json!({"case": case, "negotiate": "3 helpers", "cross_shard_shards": shards, "leader_fault_on_helper": fh}));
        }
    }
    rec.finish();
}

/// The production entry point of a hybrid query (`query::runner::execute_hybrid_protocol`, what `do_query` calls): it
/// builds the sharded context itself from the shard's own PRSS endpoint and the gateway, sets up the cross-shard
/// randomness, decrypts the input and runs the protocol. Every (helper, shard) gets an independently negotiated
/// endpoint, as in deployment. Returns one line per (helper, shard): "ok" / error text.
async fn production_runner_world<const S: usize>(seed: u64) -> Vec<String> {
    use std::iter::zip;

    use rand::{SeedableRng, rngs::StdRng};

    use crate::{
        ff::FieldType,
        helpers::{BodyStream, query::{HybridQueryParams, QueryConfig, QueryType}},
        hpke::{KeyPair, KeyRegistry},
        query::verif_execute_hybrid_protocol,
        report::hybrid::{DEFAULT_KEY_ID, HybridReport},
        secret_sharing::IntoShares,
        sharding::ShardIndex,
        test_fixture::hybrid::build_hybrid_records_and_expectation,
    };
    let (records, _expected) = build_hybrid_records_and_expectation();
    let mut rng = StdRng::seed_from_u64(seed);
    let key_registry = Arc::new(KeyRegistry::<KeyPair>::random(1, &mut rng));
    let mut buffers: [Vec<Vec<u8>>; 3] = std::array::from_fn(|_| vec![Vec::new(); S]);
    let shares: [Vec<HybridReport<BA8, BA3>>; 3] = records.iter().cloned().share_with(&mut rng);
    for (buf, shares) in zip(&mut buffers, shares) {
        for (i, share) in shares.into_iter().enumerate() {
            share.delimited_encrypt_to(DEFAULT_KEY_ID, key_registry.as_ref(), &mut rng, &mut buf[i % S]).unwrap();
        }
    }
    let sizes: Vec<usize> = (0..S).map(|s| records.len() / S + usize::from(s < records.len() % S)).collect();
    let mut cfg = TestWorldConfig::default();
    cfg.seed = seed;
    cfg.timeout = None;
    let world = TestWorld::<WithShards<S>>::with_shards(&cfg);
    let endpoints: Vec<[Endpoint; 3]> = (0..S).map(|_| make_participants(&mut rng)).collect();
    let mut futs = Vec::new();
    for (h, role) in Role::all().iter().enumerate() {
        for s in 0..S {
            let params = HybridQueryParams { with_dp: 0, ..Default::default() };
            let query_config = QueryConfig::new(QueryType::MaliciousHybrid(params), FieldType::Fp32BitPrime, sizes[s]).unwrap();
            let prss = &endpoints[s][h];
            let gateway = world.gateway(*role, ShardIndex::from(u32::try_from(s).unwrap()));
            let input = BodyStream::from(std::mem::take(&mut buffers[h][s]));
            let key_registry = Arc::clone(&key_registry);
            futs.push(Box::pin(async move {
                match catch_fut(verif_execute_hybrid_protocol(prss, gateway, input, params, &query_config, key_registry)).await {
                    Ok(Ok(_)) => "ok".to_string(),
                    Ok(Err(e)) => format!("err: {e:?}").chars().take(160).collect(),
                    Err(p) => format!("panic: {p}").chars().take(160).collect(),
                }
            }));
        }
    }
    join_all(futs).await
}

/// (2) the log-based monitor over protocol executions selected for their PRSS index arithmetic
#[test]
fn verif_c06_no_reuse_in_protocols() {
    let env = vlib::env();
    let mut rec = Recorder::new("C06", "verif_c06_no_reuse_in_protocols");
    wl::PRSS_LOG.store(true, std::sync::atomic::Ordering::SeqCst);
    let n = env.pick(20, 60);
    for case in 0..n {
        if !env.mine(case) {
            continue;
        }
        let mut r = VRng::new(env.seed ^ 0xc06b, case as u64);
        let kind = if case % 10 == 9 { 4 } else { case % 4 };
        pm::begin();
        let label;
        let mut panics: Vec<String> = Vec::new();
        if kind == 4 {
            // the production query entry point on 2 (thorough: also 3) shards with independently negotiated per-shard endpoints
            let shards = if env.thorough && case % 20 == 19 { 3 } else { 2 };
            label = format!("hybrid/S{shards}/production_runner");
            let seed = env.seed.wrapping_mul(13) + case as u64;
            let out = vlib::run_paused(Duration::from_secs(300), async move {
                if shards == 3 { production_runner_world::<3>(seed).await } else { production_runner_world::<2>(seed).await }
            });
            match out {
                Paused::Quiescent => rec.violation("a hybrid query through the production entry point did not complete", json!({"kind": "production_runner_no_completion"}), json!({"case": case, "shards": shards})),
                Paused::Done(res) => {
                    if res.iter().all(|r| r == "ok") {
                        rec.count("production_runner_queries_completed");
                    } else {
                        rec.violation("a hybrid query through the production entry point failed on an honest run", json!({"kind": "production_runner_failed"}),
                                      json!({"case": case, "shards": shards, "results": res}));
                    }
                    for p in res.iter().filter(|r| r.starts_with("panic")) {
                        panics.push(p.clone());
                    }
                }
            }
        } else if kind < 2 {
            // complete hybrid runs at several sizes: exercises DZKP batches (PRSS_RECORDS_PER_BATCH ranges), MAC
            // validator batches (3*offset+{0,1,2}), aggregation chunk carry-over, padding, shuffles
            let shards = if kind == 0 { 1 } else { 2 };
            let keys = if env.thorough { [3u64, 20, 60, 140][case / 4 % 4] } else { [3u64, 20, 45][case / 4 % 3] } * shards as u64 + if shards > 1 { 28 } else { 0 };
            let mut reports = Vec::new();
            for k in 0..keys {
                reports.push(Rep::Imp { mk: k, bk: (r.below(40)) as u8 });
                reports.push(Rep::Conv { mk: k, v: r.below(8) as u8 });
            }
            r.shuffle(&mut reports);
            let hc = HybridCase {
                assign: (0..reports.len()).map(|i| i % shards).collect(),
                reports,
                shards,
                malicious: true,
                padding: case % 8 < 4,
                hv_bits: 32,
                world_seed: env.seed.wrapping_mul(7) + case as u64,
                exec: Exec::Paused,
            };
            label = format!("hybrid/S{shards}/rows{}/pad{}", hc.reports.len(), hc.padding);
            let run = wl::run_hybrid(&hc, None);
            for o in run.outs.iter().flatten() {
                if let wl::HelperOut::Panic(p) = o {
                    panics.push(p.clone());
                }
            }
            rec.seen("hybrid_outcomes", run.leader_classes());
        } else {
            // sharded shuffles with n rows on S shards (PRSS index per row and per shard)
            let shards = [1usize, 2, 3, 5][case / 4 % 4];
            let rows = [0usize, 1, 33, 100, 257][case / 2 % 5];
            let sc = c05::ShufCase {
                values: (0..rows).map(|i| i as u128 + 1).collect(),
                assign: (0..rows).map(|i| i % shards).collect(),
                shards,
                malicious: kind == 3,
                world_seed: env.seed.wrapping_mul(11) + case as u64,
                held_row_fault: None,
                mt: false,
            };
            label = format!("shuffle/S{shards}/rows{rows}/{}", if kind == 3 { "mal" } else { "sh" });
            let run = c05::run::<IndistinguishableHybridReport<BA8, BA3>>(&sc, None);
            for o in run.outs.iter().flatten() {
                if let c05::Out::Panic(p) = o {
                    panics.push(p.clone());
                }
            }
        }
        rec.eval();
        let stats = pm::end(&mut rec, &label, json!({"case": case}));
        // A helper's shards negotiate their own PRSS; only the explicitly cross-shard randomness is replicated. In a run
        // on two or more shards most (step, index) keys must therefore show per-shard values. If every key that several
        // shards drew is replicated, the protocol ran on cross-shard randomness throughout: the same value masks different
        // data on different shards.
        if (label.starts_with("hybrid/S") && !label.starts_with("hybrid/S1")) || (label.starts_with("shuffle/S") && !label.starts_with("shuffle/S1")) {
            rec.add("multi_shard_keys_with_per_shard_values", stats.keys_with_per_shard_values as u64);
            rec.add("multi_shard_keys_replicated", stats.keys_replicated_over_shards as u64);
            if stats.keys_with_per_shard_values == 0 && stats.keys_replicated_over_shards >= 20 {
                rec.violation(
                    "every PRSS value that several shards of a helper drew for one (step, index) is identical on all of them: no per-shard randomness was used",
                    json!({"kind": "no_per_shard_randomness", "workload": label.split('/').next().unwrap_or("")}),
                    json!({"case": case, "workload": label, "keys_replicated_over_shards": stats.keys_replicated_over_shards}),
                );
            }
        }
        for p in &panics {
            if pm::is_reuse_panic(p) {
                rec.violation(
                    "the debug-build PRSS reuse detector fired during a protocol execution",
                    json!({"kind": "prss_reuse", "workload": label, "detector": "UsedSet"}),
                    json!({"case": case, "panic": p}),
                );
            }
        }
        if stats.draws == 0 {
            // e.g. a semi-honest shuffle of zero rows draws nothing; reach is guarded by must_see(prss_draws_checked)
            rec.count("workloads_without_prss_draws");
        } else {
            rec.distinct(&(label.clone(), stats.distinct_keys));
            rec.seen("workloads", label.clone());
        }
        if rec.want_sample() {
            rec.sample(json!({"workload": label, "generators": stats.generators, "draws": stats.draws, "distinct_(generator,index)": stats.distinct_keys, "max_offset": stats.max_offset}));
        }
    }
    wl::PRSS_LOG.store(false, std::sync::atomic::Ordering::SeqCst);
    rec.finish();
}

// ---------------------------------------------------------------------------------------------
// (3) consumption: how multi-block values are assembled from the blocks that were drawn
// ---------------------------------------------------------------------------------------------
//
// A vectorised or wide value consumes several 128-bit blocks of one (step, index). "Never reused" also has to hold
// there: every block drawn must feed exactly one lane (element) of the value and no two lanes may share a block. The
// draw log cannot see that (each block is drawn once either way), so `FromRandom::from_random` is probed directly:
// replace one source block, look at which lanes of the serialised value change.

fn probe_consumption<T>(rec: &mut Recorder, name: &str, lanes: usize, r: &mut VRng, case: usize)
where
    T: crate::protocol::prss::FromRandom + crate::ff::Serializable,
{
    use typenum::Unsigned;
    let blocks = <T as crate::protocol::prss::FromRandom>::SourceLength::USIZE;
    let size = <T as crate::ff::Serializable>::Size::USIZE;
    let ser = |v: &T| {
        let mut buf = GenericArray::<u8, <T as crate::ff::Serializable>::Size>::default();
        v.serialize(&mut buf);
        buf.to_vec()
    };
    let src: GenericArray<u128, <T as crate::protocol::prss::FromRandom>::SourceLength> = (0..blocks).map(|_| r.u128()).collect();
    let base = ser(&T::from_random(src.clone()));
    // lane l occupies bytes [l * size / lanes, (l + 1) * size / lanes); block j belongs to lane j * lanes / blocks for element
    // arrays, and to the lane(s) of its own 16 bytes for wide boolean arrays (lanes == blocks there)
    let wide_ba = name.starts_with("BA");
    let lane_of_byte = |b: usize| if wide_ba { b / 16 } else { b / (size / lanes) };
    let mut used_by: Vec<std::collections::BTreeSet<usize>> = vec![Default::default(); blocks];
    for j in 0..blocks {
        for _ in 0..3 {
            let mut s2 = src.clone();
            s2[j] ^= r.u128() | 1;
            let out = ser(&T::from_random(s2));
            for (b, (x, y)) in base.iter().zip(out.iter()).enumerate() {
                if x != y {
                    used_by[j].insert(lane_of_byte(b));
                }
            }
        }
    }
    rec.eval();
    let mut ok = true;
    for (j, lanes_hit) in used_by.iter().enumerate() {
        let own = j * lanes / blocks;
        let class = if lanes_hit.is_empty() {
            Some("block_drawn_but_unused")
        } else if lanes_hit.iter().any(|l| *l != own) {
            Some("block_feeds_another_lane")
        } else {
            None
        };
        if let Some(class) = class {
            ok = false;
            rec.violation(
                "a block of a multi-block PRSS value does not feed exactly its own lane",
                json!({"kind": "block_consumption", "type": name, "class": class}),
                json!({"case": case, "type": name, "block": j, "blocks": blocks, "lanes": lanes, "own_lane": own, "lanes_that_changed": lanes_hit}),
            );
            break;
        }
    }
    if ok {
        rec.count("multi_block_values_probed");
        rec.add("blocks_feeding_exactly_their_lane", blocks as u64);
        rec.distinct(&("consumption", name, case % 8));
        rec.seen("consumption_types", name);
    }
}

#[test]
fn verif_c06_block_consumption() {
    use crate::{
        ff::{Fp32BitPrime, Gf32Bit, boolean_array::{BA144, BA256}, ec_prime_field::Fp25519},
        secret_sharing::StdArray,
    };
    let env = vlib::env();
    let mut rec = Recorder::new("C06", "verif_c06_block_consumption");
    let n = env.pick(64, 1024);
    for case in 0..n {
        if !env.mine(case) {
            continue;
        }
        let mut r = VRng::new(env.seed ^ 0xc06c, case as u64);
        probe_consumption::<StdArray<Fp25519, 16>>(&mut rec, "StdArray<Fp25519,16>", 16, &mut r, case);
        probe_consumption::<StdArray<Fp32BitPrime, 32>>(&mut rec, "StdArray<Fp32BitPrime,32>", 32, &mut r, case);
        probe_consumption::<StdArray<Gf32Bit, 32>>(&mut rec, "StdArray<Gf32Bit,32>", 32, &mut r, case);
        probe_consumption::<Fp25519>(&mut rec, "Fp25519", 1, &mut r, case);
        probe_consumption::<BA256>(&mut rec, "BA256", 2, &mut r, case);
        probe_consumption::<BA144>(&mut rec, "BA144", 2, &mut r, case);
    }
    rec.sample(json!({"probe": "one source block replaced, lanes of the serialised value compared", "types": 6}));
    rec.finish();
}
