// C05 Shuffle outputs a re-shared permutation of its input; tampering is detected.
//
// Honest monitor: rows carry ids; the multiset of rows reconstructed from the three helpers' outputs
// over all shards must equal the input multiset and every output row must be a consistent replicated
// sharing. Fault monitor (malicious variant): one sender's chunk altered, or one held input share
// altered => an honest helper must fail / never finish; for table messages (TransferXY / TransferC)
// and held rows that is required strictly, for all other shuffle traffic the safe disjunct
// (abort, or unchanged multiset) is required.
// Row-permutation monitor (malicious variant): two whole rows (with tags) of one table message exchanged (`verif_c05_row_permutation`).
// Key-share-shift monitor: a rushing helper shifts the MAC key share it opens (`verif_c05_key_share_shift_attack`).
// Adaptive monitor (malicious variant): a rushing helper that forges the tag of an altered row with a MAC key it
// has already been given (see `verif_c05_adaptive_key_attack`). Large-table monitor: one table of more than 2^20 rows.

use std::{
    collections::BTreeMap,
    sync::{Arc, Mutex},
    time::Duration,
};

use futures::future::join_all;
use serde_json::{Value, json};

use super::{
    vlib::{self, Paused, Recorder, VRng, catch_fut},
    wl::{self, ChunkInfo, Fault, Pattern, TapState},
};
use crate::{
    ff::{
        Gf32Bit, U128Conversions,
        boolean_array::{BA3, BA8, BA32, BA64, BA112},
    },
    helpers::{
        HelperIdentity,
        in_memory_config::{DynStreamInterceptor, InspectContext},
    },
    protocol::ipa_prf::shuffle::{MaliciousShuffleable, ShardedShuffle, Shuffleable},
    report::hybrid::{AggregateableHybridReport, IndistinguishableHybridReport},
    secret_sharing::replicated::semi_honest::AdditiveShare,
    test_fixture::{TestWorld, TestWorldConfig, WithShards},
};

pub trait Row: MaliciousShuffleable + Send + Sync + 'static {
    const NAME: &'static str;
    const ID_BITS: u32;
    fn make(l: u128, r: u128) -> Self;
    fn lr(&self) -> (u128, u128);
}
fn mask(bits: u32) -> u128 {
    if bits >= 128 { u128::MAX } else { (1u128 << bits) - 1 }
}
macro_rules! row_impl {
    ($t:ty, $share:ty, $name:expr, $bits:expr) => {
        impl Row for $t {
            const NAME: &'static str = $name;
            const ID_BITS: u32 = $bits;
            fn make(l: u128, r: u128) -> Self {
                <$t as Shuffleable>::new(<$share>::truncate_from(l & mask($bits)), <$share>::truncate_from(r & mask($bits)))
            }
            fn lr(&self) -> (u128, u128) {
                (Shuffleable::left(self).as_u128(), Shuffleable::right(self).as_u128())
            }
        }
    };
}
row_impl!(AdditiveShare<BA32>, BA32, "ba32", 32);
row_impl!(AdditiveShare<BA64>, BA64, "ba64", 64);
row_impl!(IndistinguishableHybridReport<BA8, BA3>, BA112, "hybrid_report_ba112", 75);
row_impl!(AggregateableHybridReport<BA8, BA3>, BA32, "aggregateable_report_ba32", 11);

#[derive(Clone, Debug)]
pub enum Out {
    Ok(Vec<(u128, u128)>),
    Err(String),
    Panic(String),
    NoOutput,
}
impl Out {
    fn brief(&self) -> String {
        match self {
            Out::Ok(v) => format!("ok[{}]", v.len()),
            Out::Err(e) => format!("err:{}", e.chars().take(70).collect::<String>()),
            Out::Panic(e) => format!("panic:{}", e.chars().take(70).collect::<String>()),
            Out::NoOutput => "no_output".into(),
        }
    }
    fn is_ok(&self) -> bool {
        matches!(self, Out::Ok(_))
    }
}

#[derive(Clone, Debug)]
pub struct ShufCase {
    pub values: Vec<u128>,  // plaintext row values (ids)
    pub assign: Vec<usize>, // shard per row
    pub shards: usize,
    pub malicious: bool,
    pub world_seed: u64,
    /// (helper, row index, flip left(0)/right(1) share, bit)
    pub held_row_fault: Option<(usize, usize, u8, u32)>,
    pub mt: bool,
}
impl ShufCase {
    fn to_json(&self, ty: &str) -> Value {
        json!({"type": ty, "values": self.values.iter().map(|v| format!("{v:x}")).collect::<Vec<_>>(), "assign": self.assign,
               "shards": self.shards, "malicious": self.malicious, "world_seed": self.world_seed,
               "held_row_fault": self.held_row_fault.map(|(h, i, s, b)| json!([h, i, s, b])), "mt": self.mt})
    }
}

type Slots = Arc<Mutex<Vec<Option<Out>>>>;

async fn body<const S: usize, R: Row>(case: ShufCase, interceptor: Option<DynStreamInterceptor>, slots: Slots) {
    let mut cfg = TestWorldConfig::default();
    cfg.seed = case.world_seed;
    cfg.timeout = None;
    if let Some(i) = interceptor {
        cfg.stream_interceptor = i;
    }
    let world = TestWorld::<WithShards<S>>::with_shards(&cfg);
    let mut r = VRng::new(case.world_seed ^ 0xc05, 1);
    let mut per: [Vec<Vec<R>>; 3] = std::array::from_fn(|_| (0..S).map(|_| Vec::new()).collect());
    for (i, (v, shard)) in case.values.iter().zip(&case.assign).enumerate() {
        let m = mask(R::ID_BITS);
        let s0 = r.u128() & m;
        let s1 = r.u128() & m;
        let s2 = (v & m) ^ s0 ^ s1;
        let mut sh = [(s0, s1), (s1, s2), (s2, s0)];
        if let Some((h, row, side, bit)) = case.held_row_fault {
            if row == i {
                let b = 1u128 << (bit % R::ID_BITS);
                if side == 0 { sh[h].0 ^= b } else { sh[h].1 ^= b }
            }
        }
        for h in 0..3 {
            per[h][*shard].push(R::make(sh[h].0, sh[h].1));
        }
    }
    let mut futs: Vec<std::pin::Pin<Box<dyn std::future::Future<Output = ()> + Send + '_>>> = Vec::new();
    macro_rules! push {
        ($ctxs:expr) => {
            for (role, (hctxs, hrows)) in $ctxs.into_iter().zip(per).enumerate() {
                for (shard, (ctx, rows)) in hctxs.into_iter().zip(hrows).enumerate() {
                    let slots = Arc::clone(&slots);
                    futs.push(Box::pin(async move {
                        let out = match catch_fut(ctx.sharded_shuffle(rows)).await {
                            Ok(Ok(v)) => Out::Ok(v.iter().map(Row::lr).collect()),
                            Ok(Err(e)) => Out::Err(format!("{e:?}")),
                            Err(p) => Out::Panic(p),
                        };
                        slots.lock().unwrap()[shard * 3 + role] = Some(out);
                    }));
                }
            }
        };
    }
    if case.malicious {
        push!(world.malicious_contexts());
    } else {
        push!(world.contexts());
    }
    join_all(futs).await;
}

pub struct ShufRun {
    pub outs: Vec<[Out; 3]>,
    pub quiescent: bool,
    pub wall_timeout: bool,
}

fn run_s<const S: usize, R: Row>(case: &ShufCase, interceptor: Option<DynStreamInterceptor>) -> ShufRun {
    let slots: Slots = Arc::new(Mutex::new(vec![None; S * 3]));
    let b = body::<S, R>(case.clone(), interceptor, Arc::clone(&slots));
    let (quiescent, wall_timeout) = if case.mt {
        // wall-clock guard only (=> inconclusive); scaled for the very large single-table case
        (false, vlib::run_mt(4, Duration::from_secs(600.max(case.values.len() as u64 / 300)), b).is_none())
    } else {
        (matches!(vlib::run_paused(Duration::from_secs(60), b), Paused::Quiescent), false)
    };
    let got = slots.lock().unwrap().clone();
    let outs = (0..S).map(|s| std::array::from_fn(|r| got[s * 3 + r].clone().unwrap_or(Out::NoOutput))).collect();
    ShufRun { outs, quiescent, wall_timeout }
}

pub fn run<R: Row>(case: &ShufCase, interceptor: Option<DynStreamInterceptor>) -> ShufRun {
    match case.shards {
        1 => run_s::<1, R>(case, interceptor),
        2 => run_s::<2, R>(case, interceptor),
        3 => run_s::<3, R>(case, interceptor),
        5 => run_s::<5, R>(case, interceptor),
        n => panic!("unsupported shard count {n}"),
    }
}

/// Reconstruct all rows over all shards. Uses all three helpers when `corrupt` is None, otherwise
/// only the two honest ones. Err on inconsistent shares / length disagreement.
fn reconstruct(run: &ShufRun, corrupt: Option<usize>) -> Result<Vec<u128>, String> {
    let mut all = Vec::new();
    for (s, o) in run.outs.iter().enumerate() {
        match corrupt {
            None => {
                let (Out::Ok(a), Out::Ok(b), Out::Ok(c)) = (&o[0], &o[1], &o[2]) else { return Err("missing output".into()) };
                if a.len() != b.len() || b.len() != c.len() {
                    return Err(format!("shard {s}: helpers returned different row counts {} {} {}", a.len(), b.len(), c.len()));
                }
                for i in 0..a.len() {
                    if a[i].1 != b[i].0 || b[i].1 != c[i].0 || c[i].1 != a[i].0 {
                        return Err(format!("shard {s} row {i}: inconsistent replicated sharing"));
                    }
                    all.push(a[i].0 ^ b[i].0 ^ c[i].0);
                }
            }
            Some(c) => {
                let (Out::Ok(a), Out::Ok(b)) = (&o[(c + 1) % 3], &o[(c + 2) % 3]) else { return Err("missing output".into()) };
                if a.len() != b.len() {
                    return Err(format!("shard {s}: honest helpers returned different row counts"));
                }
                for i in 0..a.len() {
                    if a[i].1 != b[i].0 {
                        return Err(format!("shard {s} row {i}: honest helpers disagree on the shared share"));
                    }
                    all.push(a[i].0 ^ b[i].0 ^ b[i].1);
                }
            }
        }
    }
    Ok(all)
}

fn sorted(mut v: Vec<u128>) -> Vec<u128> {
    v.sort_unstable();
    v
}

fn outs_json(run: &ShufRun) -> Value {
    json!(run.outs.iter().map(|o| o.iter().map(Out::brief).collect::<Vec<_>>()).collect::<Vec<_>>())
}

fn gen_values<R: Row>(n: usize, r: &mut VRng, dup: bool) -> Vec<u128> {
    let m = mask(R::ID_BITS);
    let mut v: Vec<u128> = (0..n).map(|i| (((i as u128 + 1) << 40) ^ r.u128()) & m).collect();
    if dup && n >= 2 {
        v[n - 1] = v[0];
    }
    v
}

fn assign(dist: usize, n: usize, shards: usize, r: &mut VRng) -> (Vec<usize>, &'static str) {
    match dist % 4 {
        0 => ((0..n).map(|i| i % shards).collect(), "round_robin"),
        1 => ((0..n).map(|_| r.below(shards as u64) as usize).collect(), "random"),
        2 => (vec![shards - 1; n], "all_to_last_shard"),
        _ => (vec![0; n], "all_to_first_shard"),
    }
}

fn honest_case<R: Row>(rec: &mut Recorder, env: &vlib::Env, idx: usize, n: usize, shards: usize, malicious: bool, dist: usize) {
    let mut r = VRng::new(env.seed ^ 0xc05a, idx as u64);
    let values = gen_values::<R>(n, &mut r, idx % 3 == 0);
    let (assign, dname) = assign(dist, n, shards, &mut r);
    let case = ShufCase {
        values: values.clone(),
        assign,
        shards,
        malicious,
        world_seed: env.seed.wrapping_mul(131) + idx as u64,
        held_row_fault: None,
        mt: idx % 7 == 6,
    };
    let run = run::<R>(&case, None);
    rec.eval();
    rec.seen("honest_classes", format!("{}/S{shards}/{}/{dname}", R::NAME, if malicious { "mal" } else { "sh" }));
    if run.wall_timeout {
        rec.inconclusive(format!("honest shuffle case {idx} hit the wall-clock guard on the multi-thread runtime"));
        return;
    }
    let sig_base = json!({"type": R::NAME, "malicious": malicious, "multi_shard": shards > 1});
    let witness = || json!({"case": idx, "shuffle_case": case.to_json(R::NAME), "outs": outs_json(&run), "quiescent": run.quiescent});
    if !run.outs.iter().all(|o| o.iter().all(Out::is_ok)) {
        rec.violation(
            "honest shuffle did not return rows on every helper and shard",
            json!({"kind": "honest_no_result", "base": sig_base, "rows_lt_shards": n < shards, "empty": n == 0}),
            witness(),
        );
        return;
    }
    match reconstruct(&run, None) {
        Ok(rows) if sorted(rows.clone()) == sorted(values.clone()) => {
            rec.count("multiset_equal");
            rec.add("rows_checked", n as u64);
            rec.distinct(&(R::NAME, shards, malicious, dname, n));
            if n >= 8 && rows == values && shards == 1 {
                rec.count("identity_permutation_seen");
            }
        }
        Ok(rows) => rec.violation(
            "shuffle output is not a permutation of its input",
            json!({"kind": "multiset_differs", "base": sig_base, "len_in": n, "len_out_equal": rows.len() == n}),
            json!({"w": witness(), "got": sorted(rows).iter().map(|v| format!("{v:x}")).collect::<Vec<_>>()}),
        ),
        Err(e) => rec.violation(
            "shuffle output rows are not consistent replicated sharings",
            json!({"kind": "inconsistent_output", "base": sig_base}),
            json!({"w": witness(), "detail": e}),
        ),
    }
    if rec.want_sample() && idx % 5 == 1 {
        rec.sample(json!({"type": R::NAME, "rows": n, "shards": shards, "malicious": malicious, "dist": dname,
                          "out_rows_per_shard": run.outs.iter().map(|o| match &o[0] { Out::Ok(v) => v.len(), _ => 0 }).collect::<Vec<_>>()}));
    }
}

const SIZES: &[usize] = &[0, 1, 2, 3, 4, 5, 6, 31, 32, 33, 100];

#[test]
fn verif_c05_honest() {
    let env = vlib::env();
    let mut rec = Recorder::new("C05", "verif_c05_honest");
    if env.replay.is_some() {
        rec.finish();
        return;
    }
    let shard_set: &[usize] = if env.thorough { &[1, 2, 3, 5] } else { &[1, 2, 3] };
    let mut idx = 0usize;
    for (ti, _) in (0..4).enumerate() {
        for &shards in shard_set {
            for (si, &n) in SIZES.iter().enumerate() {
                for malicious in [false, true] {
                    let reps = env.pick(1, 10);
                    for rep in 0..reps {
                        idx += 1;
                        // quick: thin out the grid deterministically
                        if !env.thorough && vlib::fxhash(&(idx, ti, si, env.seed)) % 3 == 0 {
                            continue;
                        }
                        if !env.mine(idx) {
                            continue;
                        }
                        let dist = idx + rep;
                        match ti {
                            0 => honest_case::<AdditiveShare<BA32>>(&mut rec, &env, idx, n, shards, malicious, dist),
                            1 => honest_case::<AdditiveShare<BA64>>(&mut rec, &env, idx, n, shards, malicious, dist),
                            2 => honest_case::<IndistinguishableHybridReport<BA8, BA3>>(&mut rec, &env, idx, n, shards, malicious, dist),
                            _ => honest_case::<AggregateableHybridReport<BA8, BA3>>(&mut rec, &env, idx, n, shards, malicious, dist),
                        }
                    }
                }
            }
        }
    }
    rec.finish();
}

fn run_tapped<R: Row>(case: &ShufCase, fault: Option<Fault>) -> (ShufRun, TapState) {
    let st = Arc::new(Mutex::new(TapState { fault, ..Default::default() }));
    let run = run::<R>(case, Some(wl::tap(Arc::clone(&st))));
    let st = std::mem::take(&mut *st.lock().unwrap());
    (run, st)
}

fn is_table_step(fam: &str) -> bool {
    fam.contains("transfer_x_y") || fam.contains("transfer_c")
}

fn fault_sweep<R: Row>(rec: &mut Recorder, env: &vlib::Env, cfg_no: usize, n: usize, shards: usize, idx: &mut usize) {
    let mut r = VRng::new(env.seed ^ 0xc05f, cfg_no as u64);
    let values = gen_values::<R>(n, &mut r, false);
    let (assign, _) = assign(0, n, shards, &mut r);
    let case = ShufCase { values: values.clone(), assign, shards, malicious: true,
        world_seed: env.seed.wrapping_mul(977) + cfg_no as u64, held_row_fault: None, mt: false };
    let (honest, st) = run_tapped::<R>(&case, None);
    let ok = honest.outs.iter().all(|o| o.iter().all(Out::is_ok))
        && reconstruct(&honest, None).map(sorted).as_ref() == Ok(&sorted(values.clone()));
    if !ok {
        rec.inconclusive(format!("honest pass of fault config {cfg_no} ({}) failed; decided by verif_c05_honest", R::NAME));
        return;
    }
    rec.add("honest_chunks_inventoried", st.chunks.len() as u64);
    let mut by_family: BTreeMap<(String, u8), Vec<&ChunkInfo>> = BTreeMap::new();
    for c in &st.chunks {
        let fam = wl::step_family(&c.key.gate);
        rec.seen("shuffle_step_families_seen", fam.clone());
        by_family.entry((fam, c.key.src)).or_default().push(c);
    }
    // message faults
    // sparse worlds (fewer rows than shards) have few, tiny chunks: fault every one of them several times
    let per_family = if n < shards { env.pick(8, 40) } else { env.pick(3, 24) };
    for ((fam, src), chunks) in &by_family {
        for k in 0..per_family.min(chunks.len() * 3) {
            *idx += 1;
            if !env.mine(*idx) {
                continue;
            }
            let c = if n < shards { chunks[k % chunks.len()] } else { chunks[(r.below(chunks.len() as u64)) as usize] };
            let pattern = match (k + *idx) % 4 {
                0 => Pattern::FlipBit { byte: r.below(c.len.max(1) as u64) as usize, bit: r.below(8) as u8 },
                1 => Pattern::FlipLastBit,
                2 => Pattern::XorFf { byte: r.below(c.len.max(1) as u64) as usize },
                _ => Pattern::FlipBit { byte: 0, bit: 0 },
            };
            // A tampered row-count word makes the receiving helper allocate that many rows: a large value aborts the
            // process on allocation failure (which cannot be caught in-process), so only small changes are injected there.
            let pattern = if fam.contains("cardinality") { Pattern::FlipBit { byte: 0, bit: (k % 3) as u8 } } else { pattern };
            let fault = Fault { key: c.key.clone(), chunk_no: c.chunk_no, pattern };
            let (run, st2) = run_tapped::<R>(&case, Some(fault.clone()));
            if !matches!(st2.fault_applied, Some((_, true))) {
                rec.count("fault_not_applied");
                continue;
            }
            rec.eval();
            rec.seen("shuffle_step_families_faulted", fam.clone());
            let corrupt = *src as usize;
            let honest_ok = run.outs.iter().all(|o| (0..3).filter(|h| *h != corrupt).all(|h| o[h].is_ok()));
            let witness = || json!({"case": *idx, "shuffle_case": case.to_json(R::NAME), "fault": fault.to_json(), "outs": outs_json(&run)});
            if !honest_ok {
                rec.count("fault_abort");
                rec.distinct(&(R::NAME, fam.as_str(), *src, shards));
                continue;
            }
            let table = is_table_step(fam);
            match reconstruct(&run, Some(corrupt)) {
                Ok(rows) if sorted(rows.clone()) == sorted(values.clone()) && !table => {
                    rec.count("fault_accepted_multiset_unchanged");
                    rec.seen("accepted_unchanged_families", fam.clone());
                    rec.distinct(&(R::NAME, fam.as_str(), *src, shards));
                }
                Ok(rows) => rec.violation(
                    if table { "an altered shuffle table message was accepted (rows returned on the honest helpers)" }
                    else { "altered shuffle traffic was accepted and changed the output multiset" },
                    json!({"kind": if table { "table_fault_accepted" } else { "fault_accepted_wrong" }, "type": R::NAME, "step_family": fam,
                           "src": src, "multi_shard": shards > 1,
                           "multiset_unchanged": sorted(rows) == sorted(values.clone())}),
                    witness(),
                ),
                Err(e) => rec.violation(
                    "altered shuffle traffic was accepted and left honest helpers with inconsistent rows",
                    json!({"kind": "fault_accepted_inconsistent", "type": R::NAME, "step_family": fam, "src": src, "multi_shard": shards > 1}),
                    json!({"w": witness(), "detail": e}),
                ),
            }
        }
    }
    // held-row faults: the corrupt helper's own copy of one input share is altered
    for k in 0..env.pick(6, 120) {
        *idx += 1;
        if !env.mine(*idx) || n == 0 {
            continue;
        }
        let h = k % 3;
        let f = (h, r.below(n as u64) as usize, (k / 3 % 2) as u8, r.below(u64::from(R::ID_BITS)) as u32);
        let mut c2 = case.clone();
        c2.held_row_fault = Some(f);
        let run = run::<R>(&c2, None);
        rec.eval();
        let honest_ok = run.outs.iter().all(|o| (0..3).filter(|x| *x != h).all(|x| o[x].is_ok()));
        if !honest_ok {
            rec.count("held_row_fault_abort");
            rec.distinct(&(R::NAME, "held_row", h, f.2, shards));
        } else {
            rec.violation(
                "a helper altered a row share it holds and the malicious shuffle still returned rows on the honest helpers",
                json!({"kind": "held_row_fault_accepted", "type": R::NAME, "helper": h, "side": f.2, "multi_shard": shards > 1}),
                json!({"case": *idx, "shuffle_case": c2.to_json(R::NAME), "outs": outs_json(&run)}),
            );
        }
    }
}

#[test]
fn verif_c05_faults() {
    let env = vlib::env();
    let mut rec = Recorder::new("C05", "verif_c05_faults");
    if env.replay.is_some() {
        rec.finish();
        return;
    }
    let mut idx = 0usize;
    fault_sweep::<AdditiveShare<BA64>>(&mut rec, &env, 0, 9, 1, &mut idx);
    fault_sweep::<IndistinguishableHybridReport<BA8, BA3>>(&mut rec, &env, 1, 12, 2, &mut idx);
    // fewer rows than shards: some shards forward rows but end up with none (or receive none at all)
    fault_sweep::<AdditiveShare<BA32>>(&mut rec, &env, 5, 3, 5, &mut idx);
    fault_sweep::<AdditiveShare<BA32>>(&mut rec, &env, 6, 2, 3, &mut idx);
    if env.thorough {
        fault_sweep::<AdditiveShare<BA32>>(&mut rec, &env, 2, 33, 3, &mut idx);
        fault_sweep::<AggregateableHybridReport<BA8, BA3>>(&mut rec, &env, 3, 20, 1, &mut idx);
        fault_sweep::<IndistinguishableHybridReport<BA8, BA3>>(&mut rec, &env, 4, 40, 1, &mut idx);
    }
    rec.finish();
}

// ---------------------------------------------------------------------------------------------
// adaptive (rushing) adversary on the malicious shuffle
// ---------------------------------------------------------------------------------------------
//
// The per-row MAC (tag = sum_j k_j * w_j over GF(2^32), w_j = 32-bit words of the row) only protects a table if
// the keys k_j are still secret when the table is sent: a helper that knows k_j can add `delta` to word j of a row
// and `k_j * delta` to its tag, and no verification hash changes. The adversary below is one helper role (all of its
// shards) that follows the protocol but may rewrite the messages it sends. It works on the wire only:
//   * its own two additive shares of every key are the bytes it sends on the RevealMACKey step. They are taken from
//     an honest reference run with the same world seed (PRSS, hence the shares, are identical in both runs; this is
//     re-checked on the attack run's own traffic),
//   * the third share is only ever taken from RevealMACKey messages that were delivered *to the attacker in the
//     attack run itself*, on any of its shards, before the table chunk it wants to alter is handed to the receiver.
// "Key known at that time" therefore means: at the moment a chunk of the attacker's table is pulled by its receiver
// (the in-memory transport runs the interceptor when the receiver asks for the chunk; a real sender could have held
// the chunk back until that moment, the honest receiver only waits), the attacker's own protocol code has already
// received a RevealMACKey message from a peer. Everything the adversary does is hence possible for a real helper
// (sound); it does not model a helper that asks for the reveal messages *earlier* than its honest code would.
//
// On the unmodified tree the key is never complete when X2 (H1) or Y1 (H2) leave, but it often is while C1 (H2) / C2 (H3)
// are still in flight: H1 opens its shares as soon as it has the Cardinality word (sent before the C exchange), and a
// shard without rows or one that is done with its C exchange opens while other shards still send (open known findings
// C05-mac-key-open-before-c1-* / -c2-*; the `path` fact of the signature tells these ways apart).

/// (attacker role, table, gate pattern of the step that carries the table, receiving role)
const ADV_TABLES: [(u8, &str, &str, u8); 4] =
    [(0, "x2", "transfer_x_y", 1), (1, "y1", "transfer_x_y", 2), (1, "c1", "transfer_c", 2), (2, "c2", "transfer_c", 1)];

#[derive(Clone, Debug)]
struct AdvPlan {
    attacker: u8,
    table: &'static str,
    gate_pat: &'static str,
    dst: u8,
    /// bytes of one row-with-tag on the wire, offset of the 4-byte tag in it
    msg: usize,
    tag_off: usize,
    /// index of the altered 32-bit word of the row, value added to it
    word: usize,
    delta: u32,
    pick: u64,
    /// the attacker's own key shares: what it sends to its right peer (its left shares) / to its left peer
    own_left: Vec<u8>,
    own_right: Vec<u8>,
    /// reference-run value of the share the attacker is sent (used only to check that the two runs agree)
    ref_missing: Vec<u8>,
}

#[derive(Clone, Debug)]
struct AdvApplied {
    seq: u64,
    shard: u32,
    row_in_channel: usize,
    share_from: u8,
    share_shard: u32,
    share_seq: u64,
}

#[derive(Default)]
struct AdvState {
    plan: Option<AdvPlan>,
    /// running number of MPC chunks that passed the interceptor
    seq: u64,
    /// RevealMACKey bytes per (src, dst, shard): (seq of the first chunk, bytes so far)
    reveal: BTreeMap<(u8, u8, u32), (u64, Vec<u8>)>,
    /// number of TransferC chunks (either direction) seen on the shard when the first RevealMACKey chunk of that channel passed
    c_chunks_before_reveal: BTreeMap<(u8, u8, u32), u32>,
    c_chunks: BTreeMap<u32, u32>,
    /// Cardinality word H2 -> H1 per shard: (seq, |C| on that shard)
    cardinality: BTreeMap<u32, (u64, u64)>,
    table_off: BTreeMap<u32, usize>,
    /// (seq, shard, len, key known when the chunk passed)
    table_chunks: Vec<(u64, u32, usize, bool)>,
    applied: Option<AdvApplied>,
    known_but_no_full_row: u32,
    share_mismatch: bool,
}

fn role_no(h: HelperIdentity) -> u8 {
    if h == HelperIdentity::ONE {
        0
    } else if h == HelperIdentity::TWO {
        1
    } else {
        2
    }
}

fn gf32_mul(a: u32, b: u32) -> u32 {
    (Gf32Bit::truncate_from(u128::from(a)) * Gf32Bit::truncate_from(u128::from(b))).as_u128() as u32
}

fn le32(b: &[u8]) -> u32 {
    u32::from_le_bytes([b[0], b[1], b[2], b[3]])
}

fn adv_tap(state: Arc<Mutex<AdvState>>) -> DynStreamInterceptor {
    Arc::new(move |ctx: &InspectContext, data: &mut Vec<u8>| {
        let InspectContext::MpcMessage { shard, source, dest, gate } = ctx else { return };
        let mut guard = state.lock().unwrap_or_else(|e| e.into_inner());
        let st = &mut *guard;
        st.seq += 1;
        let seq = st.seq;
        let (src, dst) = (role_no(*source), role_no(*dest));
        let shard = shard.map(u32::from).unwrap_or(0);
        let gate = gate.as_ref();
        if gate.contains("reveal_m_a_c_key") {
            let c = st.c_chunks.get(&shard).copied().unwrap_or(0);
            st.c_chunks_before_reveal.entry((src, dst, shard)).or_insert(c);
            st.reveal.entry((src, dst, shard)).or_insert_with(|| (seq, Vec::new())).1.extend_from_slice(data);
            return;
        }
        if gate.contains("cardinality") && data.len() == 8 {
            st.cardinality.entry(shard).or_insert((seq, u64::from_le_bytes(data[..8].try_into().unwrap())));
        }
        if gate.contains("transfer_c") {
            *st.c_chunks.entry(shard).or_insert(0) += 1;
        }
        let Some(plan) = st.plan.as_ref() else { return };
        if src != plan.attacker || dst != plan.dst || !gate.contains(plan.gate_pat) {
            return;
        }
        // a chunk of the attacker's table is being handed to its receiver
        let need = 4 * (plan.word + 1);
        let share = st
            .reveal
            .iter()
            .filter(|((s, d, _), (_, v))| *d == plan.attacker && *s != plan.attacker && v.len() >= need)
            .min_by_key(|(_, (sq, _))| *sq)
            .map(|((s, _, sh), (sq, v))| (*s, *sh, *sq, v[need - 4..need].to_vec()));
        st.table_chunks.push((seq, shard, data.len(), share.is_some()));
        let off = st.table_off.entry(shard).or_insert(0);
        let start = *off;
        *off += data.len();
        let Some((share_from, share_shard, share_seq, missing)) = share else { return };
        if st.applied.is_some() || st.share_mismatch {
            return;
        }
        if missing[..] != plan.ref_missing[need - 4..need] {
            st.share_mismatch = true;
            return;
        }
        let pad = (plan.msg - start % plan.msg) % plan.msg;
        let rows = data.len().saturating_sub(pad) / plan.msg;
        if rows == 0 {
            st.known_but_no_full_row += 1;
            return;
        }
        let row = pad + (plan.pick % rows as u64) as usize * plan.msg;
        let key = le32(&plan.own_left[need - 4..need]) ^ le32(&plan.own_right[need - 4..need]) ^ le32(&missing);
        let fix = gf32_mul(key, plan.delta).to_le_bytes();
        let d = plan.delta.to_le_bytes();
        for b in 0..4 {
            if 4 * plan.word + b < plan.tag_off {
                data[row + 4 * plan.word + b] ^= d[b];
            }
            data[row + plan.tag_off + b] ^= fix[b];
        }
        st.applied = Some(AdvApplied { seq, shard, row_in_channel: (start + row) / plan.msg, share_from, share_shard, share_seq });
    })
}

fn run_adv<R: Row>(case: &ShufCase, plan: Option<AdvPlan>) -> (ShufRun, AdvState) {
    let st = Arc::new(Mutex::new(AdvState { plan, ..Default::default() }));
    let run = run::<R>(case, Some(adv_tap(Arc::clone(&st))));
    let st = std::mem::take(&mut *st.lock().unwrap_or_else(|e| e.into_inner()));
    (run, st)
}

/// The attacker's view of the key shares in the reference run: (own left shares, own right shares, share it is sent).
fn ref_key_view(st: &AdvState, attacker: u8, shards: usize, nkeys: usize) -> Result<(Vec<u8>, Vec<u8>, Vec<u8>), String> {
    let (right, left) = ((attacker + 1) % 3, (attacker + 2) % 3);
    let get = |s: u8, d: u8, sh: u32| {
        st.reveal.get(&(s, d, sh)).map(|x| x.1.clone()).ok_or_else(|| format!("no RevealMACKey traffic H{}->H{} on shard {sh}", s + 1, d + 1))
    };
    let mut out: Option<(Vec<u8>, Vec<u8>, Vec<u8>)> = None;
    for sh in 0..shards as u32 {
        let (own_left, own_right) = (get(attacker, right, sh)?, get(attacker, left, sh)?);
        let (from_right, from_left) = (get(right, attacker, sh)?, get(left, attacker, sh)?);
        if [&own_left, &own_right, &from_right, &from_left].iter().any(|v| v.len() != 4 * nkeys) {
            return Err(format!("RevealMACKey traffic on shard {sh} is not {nkeys} keys of 4 bytes"));
        }
        if from_right != from_left {
            return Err(format!("the two peers of H{} opened different shares on shard {sh}", attacker + 1));
        }
        let t = (own_left, own_right, from_right);
        match &out {
            None => out = Some(t),
            Some(o) if *o != t => return Err(format!("key shares of H{} differ between shards", attacker + 1)),
            _ => {}
        }
    }
    out.ok_or_else(|| "no shard".to_string())
}

fn xor3(a: &[u8], b: &[u8], c: &[u8]) -> Vec<u8> {
    a.iter().zip(b).zip(c).map(|((x, y), z)| x ^ y ^ z).collect()
}

fn adaptive_config<R: Row>(rec: &mut Recorder, env: &vlib::Env, idx: usize, n: usize, shards: usize) {
    let mut r = VRng::new(env.seed ^ 0xc05ad, idx as u64);
    let values = gen_values::<R>(n, &mut r, false);
    let (assign, dname) = assign(idx / 3, n, shards, &mut r);
    let case = ShufCase { values: values.clone(), assign, shards, malicious: true,
        world_seed: env.seed.wrapping_mul(7919) + idx as u64, held_row_fault: None, mt: false };
    let tag_off = <R as MaliciousShuffleable>::TAG_OFFSET;
    let (msg, nkeys) = (tag_off + 4, tag_off.div_ceil(4));
    rec.seen("adaptive_classes", format!("{}/S{shards}/n{n}/{dname}", R::NAME));

    // honest reference run: what every helper sends on the RevealMACKey step
    let (honest, href) = run_adv::<R>(&case, None);
    rec.count("adaptive_reference_runs");
    let ok = honest.outs.iter().all(|o| o.iter().all(Out::is_ok))
        && reconstruct(&honest, None).map(sorted).as_ref() == Ok(&sorted(values.clone()));
    if !ok {
        rec.inconclusive(format!("honest pass of adaptive config {idx} ({}) failed; decided by verif_c05_honest", R::NAME));
        return;
    }
    let views: Vec<_> = (0..3u8).map(|a| ref_key_view(&href, a, shards, nkeys)).collect();
    if let Some(Err(e)) = views.iter().find(|v| v.is_err()) {
        rec.inconclusive(format!("adaptive config {idx}: key-reveal traffic of the reference run not understood: {e}"));
        return;
    }
    let views: Vec<_> = views.into_iter().map(Result::unwrap).collect();
    let keys: Vec<Vec<u8>> = views.iter().map(|(a, b, c)| xor3(a, b, c)).collect();
    if keys[0] != keys[1] || keys[1] != keys[2] {
        rec.inconclusive(format!("adaptive config {idx}: the three helpers' views of the reference run give different MAC keys"));
        return;
    }

    for (k, &(attacker, table, gate_pat, dst)) in ADV_TABLES.iter().enumerate() {
        let words = R::ID_BITS.div_ceil(32) as u64; // only words that carry row content
        let word = r.below(words) as usize;
        let vb = (R::ID_BITS - 32 * word as u32).min(32);
        let m = if vb == 32 { u32::MAX } else { (1u32 << vb) - 1 };
        let delta = match (r.next() as u32) & m {
            0 => 1,
            d => d,
        };
        let (own_left, own_right, ref_missing) = views[attacker as usize].clone();
        let plan = AdvPlan { attacker, table, gate_pat, dst, msg, tag_off, word, delta, pick: r.next(), own_left, own_right, ref_missing };
        let (run, st) = run_adv::<R>(&case, Some(plan.clone()));
        rec.eval();
        rec.count("adaptive_attack_runs");
        let who = format!("H{}/{table}", attacker + 1);
        // the simulation is only sound if the attacker's own shares are those of the reference run
        let (right, left) = ((attacker + 1) % 3, (attacker + 2) % 3);
        let own_differs = st.reveal.iter().any(|((s, d, _), (_, v))| {
            *s == attacker && ((*d == right && !plan.own_left.starts_with(v)) || (*d == left && !plan.own_right.starts_with(v)))
        });
        if own_differs || st.share_mismatch {
            rec.inconclusive(format!("adaptive config {idx} {who}: key shares differ between the reference run and the attack run (same world seed)"));
            continue;
        }
        if st.table_chunks.is_empty() {
            rec.count("adaptive_no_table_chunk_observed");
            continue;
        }
        rec.add("adaptive_table_chunks_observed", st.table_chunks.len() as u64);
        let yn = |b: bool| if b { "yes" } else { "no" };
        let (first, last) = (st.table_chunks[0].3, st.table_chunks[st.table_chunks.len() - 1].3);
        rec.count(&format!("adaptive_key_known_at_first_table_chunk/{who}/{}", yn(first)));
        rec.count(&format!("adaptive_key_known_at_last_table_chunk/{who}/{}", yn(last)));
        let first_reveal_to_attacker = st.reveal.iter().filter(|((s, d, _), _)| *d == attacker && *s != attacker).map(|(_, (sq, _))| *sq).min();
        let order = json!({"first_reveal_chunk_delivered_to_attacker_seq": first_reveal_to_attacker,
                           "table_chunks_seq_shard_len_known": st.table_chunks.iter().take(12).collect::<Vec<_>>(), "chunks_total": st.seq});
        if rec.want_sample() && (idx + k) % 7 == 0 {
            rec.sample(json!({"type": R::NAME, "rows": n, "shards": shards, "attacker": who, "order": order, "applied": st.applied.is_some()}));
        }
        let Some(ap) = st.applied.clone() else {
            if st.known_but_no_full_row > 0 {
                rec.count("adaptive_key_known_but_no_whole_row_in_chunk");
            } else {
                rec.count("adaptive_attack_key_not_yet_known");
            }
            rec.distinct(&(R::NAME, shards, n, who.as_str(), "not_known"));
            continue;
        };
        // How the attacker came to hold the complete key (observable facts of this run):
        //  * the share came from H1, which takes no part in the C exchange, after / before H2's Cardinality word reached it,
        //  * the share came from the other C-exchange party on a shard whose |C| is 0 / that had / had not seen C traffic.
        let path = if ap.share_from == 0 {
            match st.cardinality.get(&ap.share_shard) {
                Some((sq, _)) if *sq < ap.share_seq => "h1_opened_after_cardinality",
                _ => "h1_opened_before_cardinality",
            }
        } else if matches!(st.cardinality.get(&ap.share_shard), Some((_, 0))) {
            "peer_shard_without_rows_opened"
        } else if st.c_chunks_before_reveal.get(&(ap.share_from, attacker, ap.share_shard)).copied().unwrap_or(0) > 0 {
            "peer_shard_opened_after_c_traffic"
        } else {
            "peer_shard_opened_before_c_traffic"
        };
        rec.count("adaptive_attack_applied");
        rec.count(&format!("adaptive_attack_applied/{who}"));
        rec.count(&format!("adaptive_key_complete_by/{who}/{path}"));
        let corrupt = attacker as usize;
        let honest_ok = run.outs.iter().all(|o| (0..3).filter(|h| *h != corrupt).all(|h| o[h].is_ok()));
        let witness = || json!({"case": idx, "shuffle_case": case.to_json(R::NAME), "attacker": who, "word": word, "delta": format!("{delta:x}"),
                                "applied": {"seq": ap.seq, "shard": ap.shard, "row_in_channel": ap.row_in_channel,
                                            "third_share_from": format!("H{} shard {} (chunk seq {})", ap.share_from + 1, ap.share_shard, ap.share_seq)},
                                "key_known_at_first_table_chunk": first, "order": order, "path": path,
                                "cardinality_seq_and_value_per_shard": st.cardinality, "outs": outs_json(&run)});
        if !honest_ok {
            rec.count("adaptive_attack_detected");
            rec.distinct(&(R::NAME, shards, n, who.as_str(), "detected"));
            continue;
        }
        // share_from: the helper whose RevealMACKey message completed the attacker's key before the table chunk left
        let sig = |kind: &str, unchanged: Option<bool>| json!({"kind": kind, "table": table, "attacker": format!("H{}", attacker + 1), "type": R::NAME,
                                                                "share_from": format!("H{}", ap.share_from + 1), "path": path,
                                                                "multi_shard": shards > 1, "multiset_unchanged": unchanged});
        match reconstruct(&run, Some(corrupt)) {
            Ok(rows) => {
                let unchanged = sorted(rows.clone()) == sorted(values.clone());
                // exactly one row moved by delta in the chosen word?
                let (mut gone, mut new): (Vec<u128>, Vec<u128>) = (sorted(values.clone()), sorted(rows));
                let (g2, n2) = (gone.clone(), new.clone());
                gone.retain(|v| n2.binary_search(v).is_err());
                new.retain(|v| g2.binary_search(v).is_err());
                rec.violation(
                    "a helper that had already been given the MAC key altered a row of a table it sent, repaired the tag, and the honest helpers returned rows",
                    sig("adaptive_tamper_accepted", Some(unchanged)),
                    json!({"w": witness(), "rows_gone": gone.iter().take(4).map(|v| format!("{v:x}")).collect::<Vec<_>>(),
                           "rows_new": new.iter().take(4).map(|v| format!("{v:x}")).collect::<Vec<_>>()}),
                );
            }
            Err(e) => rec.violation(
                "a helper that had already been given the MAC key altered a row of a table it sent; the honest helpers returned inconsistent rows",
                sig("adaptive_tamper_accepted_inconsistent", None),
                json!({"w": witness(), "detail": e}),
            ),
        }
    }
}

fn c05_replay_case() -> Option<usize> {
    let p = vlib::env().replay?;
    let w: Value = serde_json::from_str(&std::fs::read_to_string(p).ok()?).ok()?;
    w["witness"]["case"].as_u64().or_else(|| w["witness"]["w"]["case"].as_u64()).map(|v| v as usize)
}

#[test]
fn verif_c05_adaptive_key_attack() {
    let env = vlib::env();
    let mut rec = Recorder::new("C05", "verif_c05_adaptive_key_attack");
    let only = c05_replay_case();
    if env.replay.is_some() && only.is_none() {
        rec.finish();
        return;
    }
    // sizes of the existing tests (2, 10, 100) plus sparse worlds (fewer rows than shards: some shard skips the C
    // exchange and reaches the key opening early) and tables of more than one transport chunk
    let sizes: &[usize] = if env.thorough { &[1, 2, 3, 5, 10, 33, 100, 300, 700, 2000] } else { &[1, 2, 3, 5, 10, 33, 100, 300] };
    let mut idx = 0usize;
    for ti in 0..4 {
        for shards in 1..=3usize {
            for &n in sizes {
                for _rep in 0..env.pick(2, 4) {
                    idx += 1;
                    if !env.mine(idx) || only.is_some_and(|c| c != idx) {
                        continue;
                    }
                    match ti {
                        0 => adaptive_config::<AdditiveShare<BA32>>(&mut rec, &env, idx, n, shards),
                        1 => adaptive_config::<AdditiveShare<BA64>>(&mut rec, &env, idx, n, shards),
                        2 => adaptive_config::<IndistinguishableHybridReport<BA8, BA3>>(&mut rec, &env, idx, n, shards),
                        _ => adaptive_config::<AggregateableHybridReport<BA8, BA3>>(&mut rec, &env, idx, n, shards),
                    }
                }
            }
        }
    }
    rec.finish();
}

// ---------------------------------------------------------------------------------------------
// row permutation inside one table message
// ---------------------------------------------------------------------------------------------
//
// A corrupt helper sends one of its tables (X2, Y1, C1, C2) with two whole rows (row content AND tag) exchanged. Every
// single row still carries a valid tag, only the POSITION of the rows is wrong; the receiver combines row i of the table
// with row i of a table it holds, so both rows reconstruct to garbage. A sender knows its whole table before the first
// row leaves (mask_and_shuffle / the PRSS tables are complete before send_all / the C exchange start), so the rewrite is
// done on the wire with the table bytes of an honest reference run with the same world seed (identical PRSS, hence
// identical tables; re-checked byte by byte on the attack run's own traffic): wherever a byte of row a passes, the byte
// of row b at the same offset is handed to the receiver, and vice versa. Rows may lie in different transport chunks.

#[derive(Clone, Debug)]
struct PermPlan {
    src: u8,
    dst: u8,
    gate_pat: &'static str,
    shard: u32,
    /// bytes of one row-with-tag on the wire
    msg: usize,
    row_a: usize,
    row_b: usize,
    /// the table as sent in the reference run
    reference: Vec<u8>,
}

type TableKey = (u8, u8, u32, &'static str);

#[derive(Default)]
struct PermState {
    plan: Option<PermPlan>,
    /// original bytes and chunk lengths of every table channel (src, dst, shard, transfer_x_y | transfer_c)
    tables: BTreeMap<TableKey, (Vec<u8>, Vec<usize>)>,
    bytes_rewritten: usize,
    bytes_changed: usize,
    mismatch: bool,
}

fn table_gate(gate: &str) -> Option<&'static str> {
    if gate.contains("transfer_x_y") {
        Some("transfer_x_y")
    } else if gate.contains("transfer_c") {
        Some("transfer_c")
    } else {
        None
    }
}

fn perm_tap(state: Arc<Mutex<PermState>>) -> DynStreamInterceptor {
    Arc::new(move |ctx: &InspectContext, data: &mut Vec<u8>| {
        let InspectContext::MpcMessage { shard, source, dest, gate } = ctx else { return };
        let Some(fam) = table_gate(gate.as_ref()) else { return };
        let mut guard = state.lock().unwrap_or_else(|e| e.into_inner());
        let st = &mut *guard;
        let (src, dst) = (role_no(*source), role_no(*dest));
        let shard = shard.map(u32::from).unwrap_or(0);
        let entry = st.tables.entry((src, dst, shard, fam)).or_default();
        let start = entry.0.len();
        entry.0.extend_from_slice(data);
        entry.1.push(data.len());
        let Some(plan) = st.plan.as_ref() else { return };
        if (src, dst, shard, fam) != (plan.src, plan.dst, plan.shard, plan.gate_pat) {
            return;
        }
        for (i, byte) in data.iter_mut().enumerate() {
            let p = start + i;
            let (row, off) = (p / plan.msg, p % plan.msg);
            let other = if row == plan.row_a {
                plan.row_b
            } else if row == plan.row_b {
                plan.row_a
            } else {
                continue;
            };
            let q = other * plan.msg + off;
            if plan.reference.get(p) != Some(&*byte) || q >= plan.reference.len() {
                st.mismatch = true;
                continue;
            }
            st.bytes_rewritten += 1;
            if *byte != plan.reference[q] {
                st.bytes_changed += 1;
            }
            *byte = plan.reference[q];
        }
    })
}

fn run_perm<R: Row>(case: &ShufCase, plan: Option<PermPlan>) -> (ShufRun, PermState) {
    let st = Arc::new(Mutex::new(PermState { plan, ..Default::default() }));
    let run = run::<R>(case, Some(perm_tap(Arc::clone(&st))));
    let st = std::mem::take(&mut *st.lock().unwrap_or_else(|e| e.into_inner()));
    (run, st)
}

fn permutation_config<R: Row>(rec: &mut Recorder, env: &vlib::Env, idx: usize, n: usize, shards: usize) {
    let mut r = VRng::new(env.seed ^ 0xc05b, idx as u64);
    let values = gen_values::<R>(n, &mut r, idx % 4 == 0);
    let (assign, dname) = assign(idx / 2, n, shards, &mut r);
    let case = ShufCase { values: values.clone(), assign, shards, malicious: true,
        world_seed: env.seed.wrapping_mul(104_729) + idx as u64, held_row_fault: None, mt: false };
    let msg = <R as MaliciousShuffleable>::TAG_OFFSET + 4;
    rec.seen("row_permutation_classes", format!("{}/S{shards}/n{n}/{dname}", R::NAME));
    let (honest, href) = run_perm::<R>(&case, None);
    rec.count("row_permutation_reference_runs");
    let ok = honest.outs.iter().all(|o| o.iter().all(Out::is_ok))
        && reconstruct(&honest, None).map(sorted).as_ref() == Ok(&sorted(values.clone()));
    if !ok {
        rec.inconclusive(format!("honest pass of row-permutation config {idx} ({}) failed; decided by verif_c05_honest", R::NAME));
        return;
    }
    for &(attacker, table, gate_pat, dst) in &ADV_TABLES {
        // channels of this table (one per shard) that carry at least two whole rows
        let chans: Vec<(u32, &(Vec<u8>, Vec<usize>))> = href.tables.iter()
            .filter(|((s, d, _, g), (bytes, _))| (*s, *d, *g) == (attacker, dst, gate_pat) && bytes.len() >= 2 * msg)
            .map(|((_, _, sh, _), t)| (*sh, t))
            .collect();
        let who = format!("H{}/{table}", attacker + 1);
        if chans.is_empty() {
            rec.count("row_permutation_no_table_with_two_rows");
            continue;
        }
        if chans.iter().any(|(_, (bytes, _))| bytes.len() % msg != 0) {
            rec.inconclusive(format!("row-permutation config {idx} {who}: table bytes are not a multiple of the row width {msg}"));
            continue;
        }
        // (a) two rows of one transport chunk, (b) if the table spans several chunks: two rows of different chunks
        for variant in 0..2 {
            let (shard, (bytes, chunk_lens)) = chans[r.below(chans.len() as u64) as usize];
            let rows = bytes.len() / msg;
            let chunk_of = |row: usize| {
                let (mut acc, byte) = (0usize, row * msg);
                chunk_lens.iter().position(|l| { acc += l; byte < acc }).unwrap_or(0)
            };
            let row_a = r.below(rows as u64) as usize;
            let cands: Vec<usize> = (0..rows).filter(|b| *b != row_a && (chunk_of(*b) == chunk_of(row_a)) == (variant == 0)).collect();
            if cands.is_empty() {
                if variant == 0 { rec.count("row_permutation_row_alone_in_its_chunk") }
                continue;
            }
            let row_b = cands[r.below(cands.len() as u64) as usize];
            let placement = if variant == 0 { "same_chunk" } else { "different_chunks" };
            let plan = PermPlan { src: attacker, dst, gate_pat, shard, msg, row_a, row_b, reference: bytes.clone() };
            let (run, st) = run_perm::<R>(&case, Some(plan));
            rec.eval();
            rec.count("row_permutation_runs");
            if st.mismatch || st.bytes_rewritten != 2 * msg {
                rec.inconclusive(format!("row-permutation config {idx} {who}: the table of the attack run differs from the reference run (same world seed) or was not rewritten completely ({} of {} bytes)", st.bytes_rewritten, 2 * msg));
                continue;
            }
            if st.bytes_changed == 0 {
                rec.count("row_permutation_of_identical_rows");
                continue;
            }
            rec.count("row_permutation_applied");
            rec.count(&format!("row_permutation_applied/{who}"));
            rec.count(&format!("row_permutation_applied/{placement}"));
            rec.seen("row_permutation_tables", format!("{who}/{}/{placement}/{}", R::NAME, if shards > 1 { "multi_shard" } else { "one_shard" }));
            let corrupt = attacker as usize;
            let honest_ok = run.outs.iter().all(|o| (0..3).filter(|h| *h != corrupt).all(|h| o[h].is_ok()));
            if !honest_ok {
                rec.count("row_permutation_detected");
                rec.distinct(&(R::NAME, shards, n, who.as_str(), placement, "detected"));
                continue;
            }
            let witness = || json!({"case": idx, "shuffle_case": case.to_json(R::NAME), "attacker": who, "shard": shard, "rows_in_table": rows,
                                    "swapped_rows": [row_a, row_b], "placement": placement, "chunk_lens": chunk_lens.iter().take(16).collect::<Vec<_>>(),
                                    "outs": outs_json(&run)});
            let sig = |outcome: &str| json!({"kind": "row_permutation_accepted", "table": table, "attacker": format!("H{}", attacker + 1),
                                             "type": R::NAME, "multi_shard": shards > 1, "outcome": outcome});
            match reconstruct(&run, Some(corrupt)) {
                Ok(rows_out) if sorted(rows_out.clone()) == sorted(values.clone()) => {
                    // nobody noticed, but no row was lost or altered: not claimed
                    rec.count("row_permutation_without_effect");
                    if rec.want_sample() {
                        rec.sample(json!({"row_permutation_without_effect": witness()}));
                    }
                    rec.distinct(&(R::NAME, shards, n, who.as_str(), placement, "without_effect"));
                }
                Ok(rows_out) => {
                    let (mut gone, mut new): (Vec<u128>, Vec<u128>) = (sorted(values.clone()), sorted(rows_out));
                    let (g2, n2) = (gone.clone(), new.clone());
                    gone.retain(|v| n2.binary_search(v).is_err());
                    new.retain(|v| g2.binary_search(v).is_err());
                    rec.violation(
                        "a helper exchanged two rows (with their tags) of a table it sent, every honest helper returned rows, and input rows were lost",
                        sig("multiset_changed"),
                        json!({"w": witness(), "rows_gone": gone.iter().take(4).map(|v| format!("{v:x}")).collect::<Vec<_>>(),
                               "rows_new": new.iter().take(4).map(|v| format!("{v:x}")).collect::<Vec<_>>()}),
                    );
                }
                Err(e) => rec.violation(
                    "a helper exchanged two rows (with their tags) of a table it sent; every honest helper returned rows, but inconsistent ones",
                    sig("inconsistent_output"),
                    json!({"w": witness(), "detail": e}),
                ),
            }
        }
    }
}

#[test]
fn verif_c05_row_permutation() {
    let env = vlib::env();
    let mut rec = Recorder::new("C05", "verif_c05_row_permutation");
    let only = c05_replay_case();
    if env.replay.is_some() && only.is_none() {
        rec.finish();
        return;
    }
    // 2..10 rows: tables of one chunk, some shards with a single row or none; 100 / 300 rows: tables of several chunks
    let sizes: &[usize] = if env.thorough { &[2, 3, 5, 10, 33, 100, 300, 700] } else { &[2, 3, 10, 100, 300] };
    let mut idx = 0usize;
    for ti in 0..4 {
        for shards in 1..=3usize {
            for &n in sizes {
                for _rep in 0..env.pick(1, 3) {
                    idx += 1;
                    if !env.mine(idx) || only.is_some_and(|c| c != idx) {
                        continue;
                    }
                    match ti {
                        0 => permutation_config::<AdditiveShare<BA32>>(&mut rec, &env, idx, n, shards),
                        1 => permutation_config::<AdditiveShare<BA64>>(&mut rec, &env, idx, n, shards),
                        2 => permutation_config::<IndistinguishableHybridReport<BA8, BA3>>(&mut rec, &env, idx, n, shards),
                        _ => permutation_config::<AggregateableHybridReport<BA8, BA3>>(&mut rec, &env, idx, n, shards),
                    }
                }
            }
        }
    }
    rec.finish();
}

// ---------------------------------------------------------------------------------------------
// adaptive (rushing) adversary that shifts the MAC key one honest helper opens
// ---------------------------------------------------------------------------------------------
//
// The keys are opened with a reveal in which every helper is sent the share it is missing by BOTH peers and compares the
// two copies. Without that comparison the helper on the left of an honest helper V decides which key V opens: it sends
// V its share shifted by `delta`, and V checks its tables with k + delta while the third helper uses k. The check value
// of a row-with-tag (w_1..w_n, t) is sum_j k_j w_j + t; V's digests are compared with digests made with k. An attacker
// that altered word j0 of row r0 of a table by d therefore needs, for every row r of every table T whose digest V
// makes and an honest helper compares,   sum_j delta_j * T'[r][j] = k_j0 * d * [r = r0]   (T' = the rows as V holds them)
// - one linear equation per row, one unknown per 32-bit word: solvable for tiny tables (one row of 32 bits: delta =
// k*d/(x+d)). The attacker needs k for this, i.e. it must be rushing: it shifts its own RevealMACKey message only if
// the share it is missing has been delivered to it (any shard) when that message is handed to V ("known at that time"
// as in the monitor above; the table itself is altered when it is sent, no key is needed for that).
//   * H1 -> V = H2: H2 makes digests of X2 (compared with H3's digest of Y2) and of C (sent to H1, the attacker).
//     Attacked table X2; constraints: the rows of X2 on that shard.
//   * H2 -> V = H3: H3 makes digests of Y1 and C = C1 + C2 (both compared by H1) and of Y2 (sent to H2, the attacker).
//     Attacked table C1; constraints: the rows of Y1 and of C1' + C2 on that shard (H2 sent Y1 and C1 and was sent C2).
//   * H3 -> V = H1: H1's digests are over X1 and A + B, which H3 does not know: not possible on the wire.

fn gf32_inv(a: u32) -> u32 {
    // a^(2^32 - 2)
    let (mut acc, mut sq) = (1u32, a);
    for _ in 1..32 {
        sq = gf32_mul(sq, sq);
        acc = gf32_mul(acc, sq);
    }
    acc
}

/// Solves `m * x = rhs` over GF(2^32) (free unknowns are set to 0); None when there is no solution.
fn gf32_solve(mut m: Vec<Vec<u32>>, mut rhs: Vec<u32>, nvars: usize) -> Option<Vec<u32>> {
    let mut pivots: Vec<(usize, usize)> = Vec::new();
    let mut row = 0usize;
    for col in 0..nvars {
        let Some(p) = (row..m.len()).find(|r| m[*r][col] != 0) else { continue };
        m.swap(row, p);
        rhs.swap(row, p);
        let inv = gf32_inv(m[row][col]);
        for c in 0..nvars {
            m[row][c] = gf32_mul(m[row][c], inv);
        }
        rhs[row] = gf32_mul(rhs[row], inv);
        for r in 0..m.len() {
            if r != row && m[r][col] != 0 {
                let f = m[r][col];
                for c in 0..nvars {
                    let t = gf32_mul(f, m[row][c]);
                    m[r][c] ^= t;
                }
                rhs[r] ^= gf32_mul(f, rhs[row]);
            }
        }
        pivots.push((row, col));
        row += 1;
        if row == m.len() {
            break;
        }
    }
    if (row..m.len()).any(|r| rhs[r] != 0) {
        return None;
    }
    let mut x = vec![0u32; nvars];
    for (r, c) in pivots {
        x[c] = rhs[r];
    }
    Some(x)
}

/// the 32-bit words of the rows (without tags) of a table given as wire bytes
fn table_words(bytes: &[u8], msg: usize, tag_off: usize) -> Vec<Vec<u32>> {
    bytes
        .chunks_exact(msg)
        .map(|row| {
            row[..tag_off]
                .chunks(4)
                .map(|w| {
                    let mut b = [0u8; 4];
                    b[..w.len()].copy_from_slice(w);
                    u32::from_le_bytes(b)
                })
                .collect()
        })
        .collect()
}

#[derive(Clone, Debug)]
struct ShiftPlan {
    attacker: u8,
    victim: u8,
    table: &'static str,
    gate_pat: &'static str,
    shard: u32,
    msg: usize,
    tag_off: usize,
    nkeys: usize,
    row: usize,
    word: usize,
    d: u32,
    /// reference-run values of the three key shares: the attacker's own two and the one it is sent
    own_left: Vec<u8>,
    own_right: Vec<u8>,
    ref_missing: Vec<u8>,
}

#[derive(Clone, Debug)]
struct ShiftApplied {
    seq: u64,
    share_from: u8,
    share_shard: u32,
    share_seq: u64,
    constraint_rows: usize,
    deltas: Vec<u32>,
}

#[derive(Default)]
struct ShiftState {
    plan: Option<ShiftPlan>,
    seq: u64,
    /// RevealMACKey bytes per (src, dst, shard) as sent: (seq of the first chunk, bytes)
    reveal: BTreeMap<(u8, u8, u32), (u64, Vec<u8>)>,
    /// table bytes per channel as handed to the receiver
    tables: BTreeMap<TableKey, Vec<u8>>,
    table_bytes_altered: usize,
    /// Ok = key share shifted, Err = why not
    decision: Option<Result<ShiftApplied, &'static str>>,
    mismatch: bool,
}

fn shift_decide(st: &ShiftState, plan: &ShiftPlan, seq: u64) -> Result<ShiftApplied, &'static str> {
    if st.table_bytes_altered == 0 {
        return Err("table_not_altered");
    }
    let need = 4 * plan.nkeys;
    let Some((share_from, share_shard, share_seq, missing)) = st
        .reveal
        .iter()
        .filter(|((s, d, _), (_, v))| *d == plan.attacker && *s != plan.attacker && v.len() >= need)
        .min_by_key(|(_, (sq, _))| *sq)
        .map(|((s, _, sh), (sq, v))| (*s, *sh, *sq, v[..need].to_vec()))
    else {
        return Err("key_not_yet_known");
    };
    if missing != plan.ref_missing {
        return Err("share_mismatch");
    }
    let key: Vec<u32> = xor3(&plan.own_left, &plan.own_right, &missing).chunks_exact(4).map(le32).collect();
    let get = |s: u8, d: u8, g: &'static str| st.tables.get(&(s, d, plan.shard, g)).cloned().unwrap_or_default();
    // the rows whose check values the victim computes with the key it opens and an honest helper compares
    let (rows, r0): (Vec<Vec<u32>>, usize) = if plan.attacker == 0 {
        let x2 = get(0, 1, "transfer_x_y");
        if x2.len() % plan.msg != 0 {
            return Err("table_incomplete");
        }
        (table_words(&x2, plan.msg, plan.tag_off), plan.row)
    } else {
        let (y1, c1, c2) = (get(1, 2, "transfer_x_y"), get(1, 2, "transfer_c"), get(2, 1, "transfer_c"));
        if y1.len() % plan.msg != 0 || c1.len() % plan.msg != 0 || c1.len() != c2.len() {
            return Err("table_incomplete");
        }
        let c: Vec<u8> = c1.iter().zip(&c2).map(|(a, b)| a ^ b).collect();
        let mut rows = table_words(&y1, plan.msg, plan.tag_off);
        let r0 = rows.len() + plan.row;
        rows.extend(table_words(&c, plan.msg, plan.tag_off));
        (rows, r0)
    };
    if r0 >= rows.len() {
        return Err("table_incomplete");
    }
    let mut rhs = vec![0u32; rows.len()];
    rhs[r0] = gf32_mul(key[plan.word], plan.d);
    let n = rows.len();
    match gf32_solve(rows, rhs, plan.nkeys) {
        Some(deltas) => Ok(ShiftApplied { seq, share_from, share_shard, share_seq, constraint_rows: n, deltas }),
        None => Err("no_solution"),
    }
}

fn shift_tap(state: Arc<Mutex<ShiftState>>) -> DynStreamInterceptor {
    Arc::new(move |ctx: &InspectContext, data: &mut Vec<u8>| {
        let InspectContext::MpcMessage { shard, source, dest, gate } = ctx else { return };
        let mut guard = state.lock().unwrap_or_else(|e| e.into_inner());
        let st = &mut *guard;
        st.seq += 1;
        let seq = st.seq;
        let (src, dst) = (role_no(*source), role_no(*dest));
        let shard = shard.map(u32::from).unwrap_or(0);
        let gate = gate.as_ref();
        if gate.contains("reveal_m_a_c_key") {
            let e = st.reveal.entry((src, dst, shard)).or_insert_with(|| (seq, Vec::new()));
            let start = e.1.len();
            e.1.extend_from_slice(data);
            let Some(plan) = st.plan.clone() else { return };
            if (src, dst, shard) != (plan.attacker, plan.victim, plan.shard) {
                return;
            }
            // the attacker's own key share is handed to the victim
            if data.iter().enumerate().any(|(i, b)| plan.own_left.get(start + i) != Some(b)) {
                st.mismatch = true;
                return;
            }
            if st.decision.is_none() {
                let dec = shift_decide(st, &plan, seq);
                st.decision = Some(dec);
            }
            if let Some(Ok(ap)) = &st.decision {
                for (i, b) in data.iter_mut().enumerate() {
                    let p = start + i;
                    *b ^= ap.deltas[p / 4].to_le_bytes()[p % 4];
                }
            }
            return;
        }
        let Some(fam) = table_gate(gate) else { return };
        let start = st.tables.get(&(src, dst, shard, fam)).map_or(0, Vec::len);
        if let Some(plan) = st.plan.as_ref() {
            if (src, dst, shard, fam) == (plan.attacker, plan.victim, plan.shard, plan.gate_pat) {
                let at = plan.row * plan.msg + 4 * plan.word;
                let d = plan.d.to_le_bytes();
                for b in 0..4 {
                    let p = at + b;
                    if 4 * plan.word + b < plan.tag_off && p >= start && p < start + data.len() {
                        data[p - start] ^= d[b];
                        if d[b] != 0 {
                            st.table_bytes_altered += 1;
                        }
                    }
                }
            }
        }
        st.tables.entry((src, dst, shard, fam)).or_default().extend_from_slice(data);
    })
}

fn run_shift<R: Row>(case: &ShufCase, plan: Option<ShiftPlan>) -> (ShufRun, ShiftState) {
    let st = Arc::new(Mutex::new(ShiftState { plan, ..Default::default() }));
    let run = run::<R>(case, Some(shift_tap(Arc::clone(&st))));
    let st = std::mem::take(&mut *st.lock().unwrap_or_else(|e| e.into_inner()));
    (run, st)
}

fn err_class(o: &Out) -> &'static str {
    match o {
        Out::Ok(_) => "ok",
        Out::Err(e) if e.contains("MaliciousRevealFailed") => "reveal_error",
        Out::Err(e) if e.contains("ShuffleValidationFailed") => "shuffle_validation_error",
        Out::Err(_) => "other_error",
        Out::Panic(_) => "panic",
        Out::NoOutput => "no_output",
    }
}

fn key_shift_config<R: Row>(rec: &mut Recorder, env: &vlib::Env, idx: usize, n: usize, shards: usize) {
    let mut r = VRng::new(env.seed ^ 0xc05c, idx as u64);
    let values = gen_values::<R>(n, &mut r, false);
    let (assign, dname) = assign(idx, n, shards, &mut r);
    let case = ShufCase { values: values.clone(), assign, shards, malicious: true,
        world_seed: env.seed.wrapping_mul(15_485_863) + idx as u64, held_row_fault: None, mt: false };
    let tag_off = <R as MaliciousShuffleable>::TAG_OFFSET;
    let (msg, nkeys) = (tag_off + 4, tag_off.div_ceil(4));
    rec.seen("key_share_shift_classes", format!("{}/S{shards}/n{n}/{dname}", R::NAME));
    let (honest, href) = run_shift::<R>(&case, None);
    rec.count("key_share_shift_reference_runs");
    let ok = honest.outs.iter().all(|o| o.iter().all(Out::is_ok))
        && reconstruct(&honest, None).map(sorted).as_ref() == Ok(&sorted(values.clone()));
    if !ok {
        rec.inconclusive(format!("honest pass of key-share-shift config {idx} ({}) failed; decided by verif_c05_honest", R::NAME));
        return;
    }
    // share s_i of the key vector is what H_i sends to its right peer; it must be the same on every shard
    let mut s: Vec<Vec<u8>> = Vec::new();
    for i in 0..3u8 {
        let per_shard: Vec<Option<&Vec<u8>>> = (0..shards as u32).map(|sh| href.reveal.get(&(i, (i + 1) % 3, sh)).map(|x| &x.1)).collect();
        match per_shard[0] {
            Some(v) if v.len() == 4 * nkeys && per_shard.iter().all(|x| *x == Some(v)) => s.push(v.clone()),
            _ => {
                rec.inconclusive(format!("key-share-shift config {idx}: key-reveal traffic H{} -> H{} of the reference run not understood", i + 1, (i + 1) % 3 + 1));
                return;
            }
        }
    }
    // every other copy that is sent must be the copy of the same share
    for ((src, dst, _), (_, v)) in &href.reveal {
        let which = if *dst == (*src + 1) % 3 { *src } else { (*src + 1) % 3 };
        if *v != s[which as usize] {
            rec.inconclusive(format!("key-share-shift config {idx}: reference run: H{} sent H{} a share that differs from the one its peer holds", src + 1, dst + 1));
            return;
        }
    }
    let rows_on = |src: u8, dst: u8, sh: u32, g: &'static str| href.tables.get(&(src, dst, sh, g)).map_or(0, |b| b.len() / msg);
    for &(attacker, table, gate_pat, victim) in &[(0u8, "x2", "transfer_x_y", 1u8), (1, "c1", "transfer_c", 2)] {
        let who = format!("H{}/{table}", attacker + 1);
        // shards on which the attacked table is not empty and the victim's compared tables have at most one row per key
        let cands: Vec<(u32, usize)> = (0..shards as u32)
            .filter_map(|sh| {
                let own = rows_on(attacker, victim, sh, gate_pat);
                let all = if attacker == 0 { own } else { own + rows_on(1, 2, sh, "transfer_x_y") };
                (own >= 1 && all <= nkeys).then_some((sh, own))
            })
            .collect();
        if cands.is_empty() {
            rec.count("key_share_shift_no_tiny_table");
            continue;
        }
        let (shard, rows) = cands[r.below(cands.len() as u64) as usize];
        let words = R::ID_BITS.div_ceil(32) as u64; // only words that carry row content
        let word = r.below(words) as usize;
        let vb = (R::ID_BITS - 32 * word as u32).min(32);
        let m = if vb == 32 { u32::MAX } else { (1u32 << vb) - 1 };
        let d = match (r.next() as u32) & m {
            0 => 1,
            d => d,
        };
        let a = attacker as usize;
        let plan = ShiftPlan { attacker, victim, table, gate_pat, shard, msg, tag_off, nkeys, row: r.below(rows as u64) as usize, word, d,
            own_left: s[a].clone(), own_right: s[(a + 1) % 3].clone(), ref_missing: s[(a + 2) % 3].clone() };
        let (run, st) = run_shift::<R>(&case, Some(plan.clone()));
        rec.eval();
        rec.count("key_share_shift_runs");
        if st.mismatch || matches!(st.decision, Some(Err("share_mismatch"))) {
            rec.inconclusive(format!("key-share-shift config {idx} {who}: key shares differ between the reference run and the attack run (same world seed)"));
            continue;
        }
        let ap = match st.decision.clone() {
            Some(Ok(ap)) => ap,
            Some(Err(why)) => {
                rec.count(&format!("key_share_shift_not_applied/{why}"));
                rec.distinct(&(R::NAME, shards, n, who.as_str(), why));
                continue;
            }
            None => {
                rec.count("key_share_shift_not_applied/own_reveal_message_never_pulled");
                continue;
            }
        };
        rec.count("key_share_shift_applied");
        rec.count(&format!("key_share_shift_applied/{who}"));
        rec.seen("key_share_shift_shapes", format!("{who}/{}/S{shards}/rows{}", R::NAME, ap.constraint_rows));
        let corrupt = attacker as usize;
        let honest_ok = run.outs.iter().all(|o| (0..3).filter(|h| *h != corrupt).all(|h| o[h].is_ok()));
        let witness = || json!({"case": idx, "shuffle_case": case.to_json(R::NAME), "attacker": who, "shard": shard, "row": plan.row, "word": word,
                                "d": format!("{d:x}"), "key_share_deltas": ap.deltas.iter().map(|x| format!("{x:x}")).collect::<Vec<_>>(),
                                "rows_the_victim_checks_on_that_shard": ap.constraint_rows,
                                "third_share_from": format!("H{} shard {} (chunk seq {})", ap.share_from + 1, ap.share_shard, ap.share_seq),
                                "own_reveal_message_seq": ap.seq, "outs": outs_json(&run)});
        if !honest_ok {
            rec.count("key_share_shift_detected");
            for o in &run.outs {
                rec.seen("key_share_shift_victim_outcome", err_class(&o[victim as usize]).to_string());
            }
            rec.count(&format!("key_share_shift_victim_outcome_on_attacked_shard/{}", err_class(&run.outs[shard as usize][victim as usize])));
            rec.distinct(&(R::NAME, shards, n, who.as_str(), "detected"));
            if rec.want_sample() && idx % 5 == 0 {
                rec.sample(json!({"type": R::NAME, "rows": n, "shards": shards, "key_share_shift": witness()}));
            }
            continue;
        }
        let sig = |outcome: &str| json!({"kind": "key_share_shift_accepted", "table": table, "attacker": format!("H{}", attacker + 1),
                                         "type": R::NAME, "multi_shard": shards > 1, "outcome": outcome});
        match reconstruct(&run, Some(corrupt)) {
            Ok(rows_out) if sorted(rows_out.clone()) == sorted(values.clone()) => {
                rec.count("key_share_shift_without_effect");
            }
            Ok(rows_out) => {
                let (mut gone, mut new): (Vec<u128>, Vec<u128>) = (sorted(values.clone()), sorted(rows_out));
                let (g2, n2) = (gone.clone(), new.clone());
                gone.retain(|v| n2.binary_search(v).is_err());
                new.retain(|v| g2.binary_search(v).is_err());
                rec.violation(
                    "a rushing helper altered a row of a table it sent and shifted the MAC key share it opened towards the checking helper; every honest helper returned rows, one of them altered",
                    sig("multiset_changed"),
                    json!({"w": witness(), "rows_gone": gone.iter().take(4).map(|v| format!("{v:x}")).collect::<Vec<_>>(),
                           "rows_new": new.iter().take(4).map(|v| format!("{v:x}")).collect::<Vec<_>>()}),
                );
            }
            Err(e) => rec.violation(
                "a rushing helper altered a row of a table it sent and shifted the MAC key share it opened towards the checking helper; every honest helper returned rows, but inconsistent ones",
                sig("inconsistent_output"),
                json!({"w": witness(), "detail": e}),
            ),
        }
    }
}

#[test]
fn verif_c05_key_share_shift_attack() {
    let env = vlib::env();
    let mut rec = Recorder::new("C05", "verif_c05_key_share_shift_attack");
    let only = c05_replay_case();
    if env.replay.is_some() && only.is_none() {
        rec.finish();
        return;
    }
    let mut idx = 0usize;
    for ti in 0..4 {
        for shards in 1..=3usize {
            // tables with at most one row per 32-bit word: 1 row (32-bit rows), 2 (64-bit), 4 (112-bit)
            for n in 1..=6usize {
                for _rep in 0..env.pick(4, 16) {
                    idx += 1;
                    if !env.mine(idx) || only.is_some_and(|c| c != idx) {
                        continue;
                    }
                    match ti {
                        0 => key_shift_config::<AdditiveShare<BA32>>(&mut rec, &env, idx, n, shards),
                        1 => key_shift_config::<AdditiveShare<BA64>>(&mut rec, &env, idx, n, shards),
                        2 => key_shift_config::<IndistinguishableHybridReport<BA8, BA3>>(&mut rec, &env, idx, n, shards),
                        _ => key_shift_config::<AggregateableHybridReport<BA8, BA3>>(&mut rec, &env, idx, n, shards),
                    }
                }
            }
        }
    }
    rec.finish();
}

// ---------------------------------------------------------------------------------------------
// one table of more than 2^20 rows on a single shard
// ---------------------------------------------------------------------------------------------

type LargeRow = AdditiveShare<BA32>; // the narrowest row type `ShardedShuffle::sharded_shuffle` accepts

fn large_table_input(env: &vlib::Env, case_no: usize, n: usize, malicious: bool) -> ShufCase {
    // distinct values: multiplication by an odd constant is a bijection on 32-bit integers
    let values: Vec<u128> = (0..n as u64).map(|i| u128::from((i as u32).wrapping_mul(2_654_435_761))).collect();
    ShufCase { values, assign: vec![0; n], shards: 1, malicious,
        // paused-clock executor: "never finishes" is decided by quiescence, not by wall time
        world_seed: env.seed.wrapping_mul(31) + 5 + case_no as u64, held_row_fault: None, mt: false }
}

fn large_table_run(case: &ShufCase) -> (ShufRun, u64) {
    let t0 = std::time::Instant::now();
    let run = run::<LargeRow>(case, None);
    (run, t0.elapsed().as_secs())
}

fn large_table_eval(rec: &mut Recorder, case_no: usize, case: &ShufCase, run: (ShufRun, u64)) {
    type R = LargeRow;
    let (n, malicious) = (case.values.len(), case.malicious);
    let (run, wall_s) = run;
    rec.eval();
    let mode = if malicious { "mal" } else { "sh" };
    rec.add(&format!("large_table_wall_s_{mode}"), wall_s);
    let sig_base = json!({"type": <R as Row>::NAME, "malicious": malicious, "multi_shard": false, "large_table": true});
    let w = |extra: Value| json!({"case": case_no, "rows": n, "type": <R as Row>::NAME, "malicious": malicious, "shards": 1,
                                  "world_seed": case.world_seed, "outs": outs_json(&run), "quiescent_without_result": run.quiescent, "detail": extra});
    if !run.outs.iter().all(|o| o.iter().all(Out::is_ok)) {
        rec.violation(
            "honest shuffle did not return rows on every helper and shard",
            json!({"kind": "honest_no_result", "base": sig_base, "rows_lt_shards": false, "empty": false}),
            w(json!(null)),
        );
        return;
    }
    match reconstruct(&run, None) {
        Ok(rows) => {
            let (a, b) = (sorted(rows), sorted(case.values.clone()));
            if a == b {
                rec.count("multiset_equal");
                rec.count(&format!("large_table_multiset_equal_{mode}"));
                rec.add("rows_checked", n as u64);
                rec.add("large_table_rows_checked", n as u64);
                rec.distinct(&("large", <R as Row>::NAME, malicious, n));
                if rec.want_sample() {
                    rec.sample(json!({"type": <R as Row>::NAME, "rows": n, "shards": 1, "malicious": malicious, "large_table": true}));
                }
            } else {
                let lost = b.iter().filter(|v| a.binary_search(v).is_err()).count();
                rec.violation(
                    "shuffle output is not a permutation of its input",
                    json!({"kind": "multiset_differs", "base": sig_base, "len_in": n, "len_out_equal": a.len() == n}),
                    w(json!({"len_out": a.len(), "input_rows_missing_from_output": lost})),
                );
            }
        }
        Err(e) => rec.violation(
            "shuffle output rows are not consistent replicated sharings",
            json!({"kind": "inconsistent_output", "base": sig_base}),
            w(json!(e)),
        ),
    }
}

/// Thorough tier only, single process: one table well beyond 2^20 rows (1,100,003, semi-honest) and one just beyond
/// (2^20 + 7, malicious) on one shard; neither count is a multiple of a chunk size.
#[test]
fn verif_c05_large_table_x1() {
    let env = vlib::env();
    let mut rec = Recorder::new("C05", "verif_c05_large_table_x1");
    if !env.thorough {
        rec.count("large_table_skipped_in_quick_tier");
        rec.finish();
        return;
    }
    let only = c05_replay_case();
    const N: [usize; 2] = [1_100_003, (1 << 20) + 7];
    // the semi-honest and the malicious shuffle run side by side (each on its own multi-thread runtime)
    let cases: Vec<(usize, ShufCase)> = [false, true]
        .into_iter()
        .enumerate()
        .filter(|(case_no, _)| !only.is_some_and(|c| c != *case_no))
        .map(|(case_no, malicious)| (case_no, large_table_input(&env, case_no, N[case_no], malicious)))
        .collect();
    let runs: Vec<_> = std::thread::scope(|sc| {
        let hs: Vec<_> = cases.iter().map(|(_, case)| sc.spawn(move || vlib::catch(|| large_table_run(case)))).collect();
        hs.into_iter().map(|h| h.join().unwrap_or_else(|_| Err("thread panicked".into()))).collect()
    });
    for ((case_no, case), run) in cases.iter().zip(runs) {
        match run {
            Ok(run) => large_table_eval(&mut rec, *case_no, case, run),
            Err(p) => rec.inconclusive(format!("large table case {case_no}: the harness panicked outside the code under test: {p}")),
        }
    }
    rec.finish();
}
