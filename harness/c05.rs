// C05 Shuffle outputs a re-shared permutation of its input; tampering is detected.
//
// Honest monitor: rows carry ids; the multiset of rows reconstructed from the three helpers' outputs
// over all shards must equal the input multiset and every output row must be a consistent replicated
// sharing. Fault monitor (malicious variant): one sender's chunk altered, or one held input share
// altered => an honest helper must fail / never finish; for table messages (TransferXY / TransferC)
// and held rows that is required strictly, for all other shuffle traffic the safe disjunct
// (abort, or unchanged multiset) is required.

use std::{
    collections::BTreeMap,
    sync::{Arc, Mutex},
    time::Duration,
};

use futures::future::join_all;
use serde_json::{Value, json};

use super::{
    vlib::{self, Paused, Recorder, VRng, catch_fut},
    wl::{self, ChunkInfo, Fault, Pattern, TapState},
};
use crate::{
    ff::{
        U128Conversions,
        boolean_array::{BA3, BA8, BA32, BA64, BA112},
    },
    helpers::in_memory_config::DynStreamInterceptor,
    protocol::ipa_prf::shuffle::{MaliciousShuffleable, ShardedShuffle, Shuffleable},
    report::hybrid::{AggregateableHybridReport, IndistinguishableHybridReport},
    secret_sharing::replicated::semi_honest::AdditiveShare,
    test_fixture::{TestWorld, TestWorldConfig, WithShards},
};

pub trait Row: MaliciousShuffleable + Send + Sync + 'static {
    const NAME: &'static str;
    const ID_BITS: u32;
    fn make(l: u128, r: u128) -> Self;
    fn lr(&self) -> (u128, u128);
}
fn mask(bits: u32) -> u128 {
    if bits >= 128 { u128::MAX } else { (1u128 << bits) - 1 }
}
macro_rules! row_impl {
    ($t:ty, $share:ty, $name:expr, $bits:expr) => {
        impl Row for $t {
            const NAME: &'static str = $name;
            const ID_BITS: u32 = $bits;
            fn make(l: u128, r: u128) -> Self {
                <$t as Shuffleable>::new(<$share>::truncate_from(l & mask($bits)), <$share>::truncate_from(r & mask($bits)))
            }
            fn lr(&self) -> (u128, u128) {
                (Shuffleable::left(self).as_u128(), Shuffleable::right(self).as_u128())
            }
        }
    };
}
row_impl!(AdditiveShare<BA32>, BA32, "ba32", 32);
row_impl!(AdditiveShare<BA64>, BA64, "ba64", 64);
row_impl!(IndistinguishableHybridReport<BA8, BA3>, BA112, "hybrid_report_ba112", 75);
row_impl!(AggregateableHybridReport<BA8, BA3>, BA32, "aggregateable_report_ba32", 11);

#[derive(Clone, Debug)]
pub enum Out {
    Ok(Vec<(u128, u128)>),
    Err(String),
    Panic(String),
    NoOutput,
}
impl Out {
    fn brief(&self) -> String {
        match self {
            Out::Ok(v) => format!("ok[{}]", v.len()),
            Out::Err(e) => format!("err:{}", e.chars().take(70).collect::<String>()),
            Out::Panic(e) => format!("panic:{}", e.chars().take(70).collect::<String>()),
            Out::NoOutput => "no_output".into(),
        }
    }
    fn is_ok(&self) -> bool {
        matches!(self, Out::Ok(_))
    }
}

#[derive(Clone, Debug)]
pub struct ShufCase {
    pub values: Vec<u128>,  // plaintext row values (ids)
    pub assign: Vec<usize>, // shard per row
    pub shards: usize,
    pub malicious: bool,
    pub world_seed: u64,
    /// (helper, row index, flip left(0)/right(1) share, bit)
    pub held_row_fault: Option<(usize, usize, u8, u32)>,
    pub mt: bool,
}
impl ShufCase {
    fn to_json(&self, ty: &str) -> Value {
        json!({"type": ty, "values": self.values.iter().map(|v| format!("{v:x}")).collect::<Vec<_>>(), "assign": self.assign,
               "shards": self.shards, "malicious": self.malicious, "world_seed": self.world_seed,
               "held_row_fault": self.held_row_fault.map(|(h, i, s, b)| json!([h, i, s, b])), "mt": self.mt})
    }
}

type Slots = Arc<Mutex<Vec<Option<Out>>>>;

async fn body<const S: usize, R: Row>(case: ShufCase, interceptor: Option<DynStreamInterceptor>, slots: Slots) {
    let mut cfg = TestWorldConfig::default();
    cfg.seed = case.world_seed;
    cfg.timeout = None;
    if let Some(i) = interceptor {
        cfg.stream_interceptor = i;
    }
    let world = TestWorld::<WithShards<S>>::with_shards(&cfg);
    let mut r = VRng::new(case.world_seed ^ 0xc05, 1);
    let mut per: [Vec<Vec<R>>; 3] = std::array::from_fn(|_| (0..S).map(|_| Vec::new()).collect());
    for (i, (v, shard)) in case.values.iter().zip(&case.assign).enumerate() {
        let m = mask(R::ID_BITS);
        let s0 = r.u128() & m;
        let s1 = r.u128() & m;
        let s2 = (v & m) ^ s0 ^ s1;
        let mut sh = [(s0, s1), (s1, s2), (s2, s0)];
        if let Some((h, row, side, bit)) = case.held_row_fault {
            if row == i {
                let b = 1u128 << (bit % R::ID_BITS);
                if side == 0 { sh[h].0 ^= b } else { sh[h].1 ^= b }
            }
        }
        for h in 0..3 {
            per[h][*shard].push(R::make(sh[h].0, sh[h].1));
        }
    }
    let mut futs: Vec<std::pin::Pin<Box<dyn std::future::Future<Output = ()> + Send + '_>>> = Vec::new();
    macro_rules! push {
        ($ctxs:expr) => {
            for (role, (hctxs, hrows)) in $ctxs.into_iter().zip(per).enumerate() {
                for (shard, (ctx, rows)) in hctxs.into_iter().zip(hrows).enumerate() {
                    let slots = Arc::clone(&slots);
                    futs.push(Box::pin(async move {
                        let out = match catch_fut(ctx.sharded_shuffle(rows)).await {
                            Ok(Ok(v)) => Out::Ok(v.iter().map(Row::lr).collect()),
                            Ok(Err(e)) => Out::Err(format!("{e:?}")),
                            Err(p) => Out::Panic(p),
                        };
                        slots.lock().unwrap()[shard * 3 + role] = Some(out);
                    }));
                }
            }
        };
    }
    if case.malicious {
        push!(world.malicious_contexts());
    } else {
        push!(world.contexts());
    }
    join_all(futs).await;
}

pub struct ShufRun {
    pub outs: Vec<[Out; 3]>,
    pub quiescent: bool,
    pub wall_timeout: bool,
}

fn run_s<const S: usize, R: Row>(case: &ShufCase, interceptor: Option<DynStreamInterceptor>) -> ShufRun {
    let slots: Slots = Arc::new(Mutex::new(vec![None; S * 3]));
    let b = body::<S, R>(case.clone(), interceptor, Arc::clone(&slots));
    let (quiescent, wall_timeout) = if case.mt {
        (false, vlib::run_mt(4, Duration::from_secs(600), b).is_none())
    } else {
        (matches!(vlib::run_paused(Duration::from_secs(60), b), Paused::Quiescent), false)
    };
    let got = slots.lock().unwrap().clone();
    let outs = (0..S).map(|s| std::array::from_fn(|r| got[s * 3 + r].clone().unwrap_or(Out::NoOutput))).collect();
    ShufRun { outs, quiescent, wall_timeout }
}

pub fn run<R: Row>(case: &ShufCase, interceptor: Option<DynStreamInterceptor>) -> ShufRun {
    match case.shards {
        1 => run_s::<1, R>(case, interceptor),
        2 => run_s::<2, R>(case, interceptor),
        3 => run_s::<3, R>(case, interceptor),
        5 => run_s::<5, R>(case, interceptor),
        n => panic!("unsupported shard count {n}"),
    }
}

/// Reconstruct all rows over all shards. Uses all three helpers when `corrupt` is None, otherwise
/// only the two honest ones. Err on inconsistent shares / length disagreement.
fn reconstruct(run: &ShufRun, corrupt: Option<usize>) -> Result<Vec<u128>, String> {
    let mut all = Vec::new();
    for (s, o) in run.outs.iter().enumerate() {
        match corrupt {
            None => {
                let (Out::Ok(a), Out::Ok(b), Out::Ok(c)) = (&o[0], &o[1], &o[2]) else { return Err("missing output".into()) };
                if a.len() != b.len() || b.len() != c.len() {
                    return Err(format!("shard {s}: helpers returned different row counts {} {} {}", a.len(), b.len(), c.len()));
                }
                for i in 0..a.len() {
                    if a[i].1 != b[i].0 || b[i].1 != c[i].0 || c[i].1 != a[i].0 {
                        return Err(format!("shard {s} row {i}: inconsistent replicated sharing"));
                    }
                    all.push(a[i].0 ^ b[i].0 ^ c[i].0);
                }
            }
            Some(c) => {
                let (Out::Ok(a), Out::Ok(b)) = (&o[(c + 1) % 3], &o[(c + 2) % 3]) else { return Err("missing output".into()) };
                if a.len() != b.len() {
                    return Err(format!("shard {s}: honest helpers returned different row counts"));
                }
                for i in 0..a.len() {
                    if a[i].1 != b[i].0 {
                        return Err(format!("shard {s} row {i}: honest helpers disagree on the shared share"));
                    }
                    all.push(a[i].0 ^ b[i].0 ^ b[i].1);
                }
            }
        }
    }
    Ok(all)
}

fn sorted(mut v: Vec<u128>) -> Vec<u128> {
    v.sort_unstable();
    v
}

fn outs_json(run: &ShufRun) -> Value {
    json!(run.outs.iter().map(|o| o.iter().map(Out::brief).collect::<Vec<_>>()).collect::<Vec<_>>())
}

fn gen_values<R: Row>(n: usize, r: &mut VRng, dup: bool) -> Vec<u128> {
    let m = mask(R::ID_BITS);
    let mut v: Vec<u128> = (0..n).map(|i| (((i as u128 + 1) << 40) ^ r.u128()) & m).collect();
    if dup && n >= 2 {
        v[n - 1] = v[0];
    }
    v
}

fn assign(dist: usize, n: usize, shards: usize, r: &mut VRng) -> (Vec<usize>, &'static str) {
    match dist % 4 {
        0 => ((0..n).map(|i| i % shards).collect(), "round_robin"),
        1 => ((0..n).map(|_| r.below(shards as u64) as usize).collect(), "random"),
        2 => (vec![shards - 1; n], "all_to_last_shard"),
        _ => (vec![0; n], "all_to_first_shard"),
    }
}

fn honest_case<R: Row>(rec: &mut Recorder, env: &vlib::Env, idx: usize, n: usize, shards: usize, malicious: bool, dist: usize) {
    let mut r = VRng::new(env.seed ^ 0xc05a, idx as u64);
    let values = gen_values::<R>(n, &mut r, idx % 3 == 0);
    let (assign, dname) = assign(dist, n, shards, &mut r);
    let case = ShufCase {
        values: values.clone(),
        assign,
        shards,
        malicious,
        world_seed: env.seed.wrapping_mul(131) + idx as u64,
        held_row_fault: None,
        mt: idx % 7 == 6,
    };
    let run = run::<R>(&case, None);
    rec.eval();
    rec.seen("honest_classes", format!("{}/S{shards}/{}/{dname}", R::NAME, if malicious { "mal" } else { "sh" }));
    if run.wall_timeout {
        rec.inconclusive(format!("honest shuffle case {idx} hit the wall-clock guard on the multi-thread runtime"));
        return;
    }
    let sig_base = json!({"type": R::NAME, "malicious": malicious, "multi_shard": shards > 1});
    let witness = || json!({"case": idx, "shuffle_case": case.to_json(R::NAME), "outs": outs_json(&run), "quiescent": run.quiescent});
    if !run.outs.iter().all(|o| o.iter().all(Out::is_ok)) {
        rec.violation(
            "honest shuffle did not return rows on every helper and shard",
            json!({"kind": "honest_no_result", "base": sig_base, "rows_lt_shards": n < shards, "empty": n == 0}),
            witness(),
        );
        return;
    }
    match reconstruct(&run, None) {
        Ok(rows) if sorted(rows.clone()) == sorted(values.clone()) => {
            rec.count("multiset_equal");
            rec.add("rows_checked", n as u64);
            rec.distinct(&(R::NAME, shards, malicious, dname, n));
            if n >= 8 && rows == values && shards == 1 {
                rec.count("identity_permutation_seen");
            }
        }
        Ok(rows) => rec.violation(
            "shuffle output is not a permutation of its input",
            json!({"kind": "multiset_differs", "base": sig_base, "len_in": n, "len_out_equal": rows.len() == n}),
            json!({"w": witness(), "got": sorted(rows).iter().map(|v| format!("{v:x}")).collect::<Vec<_>>()}),
        ),
        Err(e) => rec.violation(
            "shuffle output rows are not consistent replicated sharings",
            json!({"kind": "inconsistent_output", "base": sig_base}),
            json!({"w": witness(), "detail": e}),
        ),
    }
    if rec.want_sample() && idx % 5 == 1 {
        rec.sample(json!({"type": R::NAME, "rows": n, "shards": shards, "malicious": malicious, "dist": dname,
                          "out_rows_per_shard": run.outs.iter().map(|o| match &o[0] { Out::Ok(v) => v.len(), _ => 0 }).collect::<Vec<_>>()}));
    }
}

const SIZES: &[usize] = &[0, 1, 2, 3, 4, 5, 6, 31, 32, 33, 100];

#[test]
fn verif_c05_honest() {
    let env = vlib::env();
    let mut rec = Recorder::new("C05", "verif_c05_honest");
    if env.replay.is_some() {
        rec.finish();
        return;
    }
    let shard_set: &[usize] = if env.thorough { &[1, 2, 3, 5] } else { &[1, 2, 3] };
    let mut idx = 0usize;
    for (ti, _) in (0..4).enumerate() {
        for &shards in shard_set {
            for (si, &n) in SIZES.iter().enumerate() {
                for malicious in [false, true] {
                    let reps = env.pick(1, 10);
                    for rep in 0..reps {
                        idx += 1;
                        // quick: thin out the grid deterministically
                        if !env.thorough && vlib::fxhash(&(idx, ti, si, env.seed)) % 3 == 0 {
                            continue;
                        }
                        if !env.mine(idx) {
                            continue;
                        }
                        let dist = idx + rep;
                        match ti {
                            0 => honest_case::<AdditiveShare<BA32>>(&mut rec, &env, idx, n, shards, malicious, dist),
                            1 => honest_case::<AdditiveShare<BA64>>(&mut rec, &env, idx, n, shards, malicious, dist),
                            2 => honest_case::<IndistinguishableHybridReport<BA8, BA3>>(&mut rec, &env, idx, n, shards, malicious, dist),
                            _ => honest_case::<AggregateableHybridReport<BA8, BA3>>(&mut rec, &env, idx, n, shards, malicious, dist),
                        }
                    }
                }
            }
        }
    }
    rec.finish();
}

fn run_tapped<R: Row>(case: &ShufCase, fault: Option<Fault>) -> (ShufRun, TapState) {
    let st = Arc::new(Mutex::new(TapState { fault, ..Default::default() }));
    let run = run::<R>(case, Some(wl::tap(Arc::clone(&st))));
    let st = std::mem::take(&mut *st.lock().unwrap());
    (run, st)
}

fn is_table_step(fam: &str) -> bool {
    fam.contains("transfer_x_y") || fam.contains("transfer_c")
}

fn fault_sweep<R: Row>(rec: &mut Recorder, env: &vlib::Env, cfg_no: usize, n: usize, shards: usize, idx: &mut usize) {
    let mut r = VRng::new(env.seed ^ 0xc05f, cfg_no as u64);
    let values = gen_values::<R>(n, &mut r, false);
    let (assign, _) = assign(0, n, shards, &mut r);
    let case = ShufCase { values: values.clone(), assign, shards, malicious: true,
        world_seed: env.seed.wrapping_mul(977) + cfg_no as u64, held_row_fault: None, mt: false };
    let (honest, st) = run_tapped::<R>(&case, None);
    let ok = honest.outs.iter().all(|o| o.iter().all(Out::is_ok))
        && reconstruct(&honest, None).map(sorted).as_ref() == Ok(&sorted(values.clone()));
    if !ok {
        rec.inconclusive(format!("honest pass of fault config {cfg_no} ({}) failed; decided by verif_c05_honest", R::NAME));
        return;
    }
    rec.add("honest_chunks_inventoried", st.chunks.len() as u64);
    let mut by_family: BTreeMap<(String, u8), Vec<&ChunkInfo>> = BTreeMap::new();
    for c in &st.chunks {
        let fam = wl::step_family(&c.key.gate);
        rec.seen("shuffle_step_families_seen", fam.clone());
        by_family.entry((fam, c.key.src)).or_default().push(c);
    }
    // message faults
    // sparse worlds (fewer rows than shards) have few, tiny chunks: fault every one of them several times
    let per_family = if n < shards { env.pick(8, 40) } else { env.pick(3, 24) };
    for ((fam, src), chunks) in &by_family {
        for k in 0..per_family.min(chunks.len() * 3) {
            *idx += 1;
            if !env.mine(*idx) {
                continue;
            }
            let c = if n < shards { chunks[k % chunks.len()] } else { chunks[(r.below(chunks.len() as u64)) as usize] };
            let pattern = match (k + *idx) % 4 {
                0 => Pattern::FlipBit { byte: r.below(c.len.max(1) as u64) as usize, bit: r.below(8) as u8 },
                1 => Pattern::FlipLastBit,
                2 => Pattern::XorFf { byte: r.below(c.len.max(1) as u64) as usize },
                _ => Pattern::FlipBit { byte: 0, bit: 0 },
            };
            // A tampered row-count word makes the receiving helper allocate that many rows: a large value aborts the
            // process on allocation failure (which cannot be caught in-process), so only small changes are injected there.
            let pattern = if fam.contains("cardinality") { Pattern::FlipBit { byte: 0, bit: (k % 3) as u8 } } else { pattern };
            let fault = Fault { key: c.key.clone(), chunk_no: c.chunk_no, pattern };
            let (run, st2) = run_tapped::<R>(&case, Some(fault.clone()));
            if !matches!(st2.fault_applied, Some((_, true))) {
                rec.count("fault_not_applied");
                continue;
            }
            rec.eval();
            rec.seen("shuffle_step_families_faulted", fam.clone());
            let corrupt = *src as usize;
            let honest_ok = run.outs.iter().all(|o| (0..3).filter(|h| *h != corrupt).all(|h| o[h].is_ok()));
            let witness = || json!({"case": *idx, "shuffle_case": case.to_json(R::NAME), "fault": fault.to_json(), "outs": outs_json(&run)});
            if !honest_ok {
                rec.count("fault_abort");
                rec.distinct(&(R::NAME, fam.as_str(), *src, shards));
                continue;
            }
            let table = is_table_step(fam);
            match reconstruct(&run, Some(corrupt)) {
                Ok(rows) if sorted(rows.clone()) == sorted(values.clone()) && !table => {
                    rec.count("fault_accepted_multiset_unchanged");
                    rec.seen("accepted_unchanged_families", fam.clone());
                    rec.distinct(&(R::NAME, fam.as_str(), *src, shards));
                }
                Ok(rows) => rec.violation(
                    if table { "an altered shuffle table message was accepted (rows returned on the honest helpers)" }
                    else { "altered shuffle traffic was accepted and changed the output multiset" },
                    json!({"kind": if table { "table_fault_accepted" } else { "fault_accepted_wrong" }, "type": R::NAME, "step_family": fam,
                           "src": src, "multi_shard": shards > 1,
                           "multiset_unchanged": sorted(rows) == sorted(values.clone())}),
                    witness(),
                ),
                Err(e) => rec.violation(
                    "altered shuffle traffic was accepted and left honest helpers with inconsistent rows",
                    json!({"kind": "fault_accepted_inconsistent", "type": R::NAME, "step_family": fam, "src": src, "multi_shard": shards > 1}),
                    json!({"w": witness(), "detail": e}),
                ),
            }
        }
    }
    // held-row faults: the corrupt helper's own copy of one input share is altered
    for k in 0..env.pick(6, 120) {
        *idx += 1;
        if !env.mine(*idx) || n == 0 {
            continue;
        }
        let h = k % 3;
        let f = (h, r.below(n as u64) as usize, (k / 3 % 2) as u8, r.below(u64::from(R::ID_BITS)) as u32);
        let mut c2 = case.clone();
        c2.held_row_fault = Some(f);
        let run = run::<R>(&c2, None);
        rec.eval();
        let honest_ok = run.outs.iter().all(|o| (0..3).filter(|x| *x != h).all(|x| o[x].is_ok()));
        if !honest_ok {
            rec.count("held_row_fault_abort");
            rec.distinct(&(R::NAME, "held_row", h, f.2, shards));
        } else {
            rec.violation(
                "a helper altered a row share it holds and the malicious shuffle still returned rows on the honest helpers",
                json!({"kind": "held_row_fault_accepted", "type": R::NAME, "helper": h, "side": f.2, "multi_shard": shards > 1}),
                json!({"case": *idx, "shuffle_case": c2.to_json(R::NAME), "outs": outs_json(&run)}),
            );
        }
    }
}

#[test]
fn verif_c05_faults() {
    let env = vlib::env();
    let mut rec = Recorder::new("C05", "verif_c05_faults");
    if env.replay.is_some() {
        rec.finish();
        return;
    }
    let mut idx = 0usize;
    fault_sweep::<AdditiveShare<BA64>>(&mut rec, &env, 0, 9, 1, &mut idx);
    fault_sweep::<IndistinguishableHybridReport<BA8, BA3>>(&mut rec, &env, 1, 12, 2, &mut idx);
    // fewer rows than shards: some shards forward rows but end up with none (or receive none at all)
    fault_sweep::<AdditiveShare<BA32>>(&mut rec, &env, 5, 3, 5, &mut idx);
    fault_sweep::<AdditiveShare<BA32>>(&mut rec, &env, 6, 2, 3, &mut idx);
    if env.thorough {
        fault_sweep::<AdditiveShare<BA32>>(&mut rec, &env, 2, 33, 3, &mut idx);
        fault_sweep::<AggregateableHybridReport<BA8, BA3>>(&mut rec, &env, 3, 20, 1, &mut idx);
        fault_sweep::<IndistinguishableHybridReport<BA8, BA3>>(&mut rec, &env, 4, 40, 1, &mut idx);
    }
    rec.finish();
}
