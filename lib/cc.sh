#!/bin/bash
# compile the b1 harness test binary and print concise errors
cd /repo && IPA_VERIF_DIR=${IPA_VERIF_DIR:-/verif} CARGO_TARGET_DIR=${IPA_VERIF_DIR:-/verif}/.target/b1 cargo test -p ipa-core --lib --no-run --offline --features ipa-verif --message-format=short --config 'profile.dev.package."*".opt-level=2' --config 'profile.dev.debug="line-tables-only"' --config 'profile.test.package."*".opt-level=2' --config 'profile.test.debug="line-tables-only"' 2>&1 | grep -E "^(/verif|ipa-core).*error|^error" | head -40
