#!/usr/bin/env python3
"""Markdown table of what each check is and what its last run observed (from lib/props.py and evidence/*.json)."""
import json, os, sys
HERE = os.path.dirname(os.path.dirname(os.path.realpath(__file__)))
sys.path.insert(0, os.path.join(HERE, "lib"))
import props
print("| id | level | builds (quick / thorough) | tests | last run: tier, evaluations, distinct, wall |")
print("|---|---|---|---|---|")
for pid in sorted(props.PROPS):
    c = props.PROPS[pid]
    b = c["builds"]
    try:
        e = json.load(open(os.path.join(HERE, "evidence", pid + ".json")))
        cov = e["coverage"]
        tests = len(cov.get("per_test", {}))
        last = f"{e['tier']}, {cov['evaluations']:,}, {cov['distinct_nontrivial']:,}, {e['wall_s']:.0f} s"
    except Exception:  # noqa: BLE001
        tests, last = "-", "-"
    print(f"| {pid} | {c['level']} | {'+'.join(b.get('quick', ['b1']))} / {'+'.join(b.get('thorough', b.get('quick', ['b1'])))} | {tests} | {last} |")
