#!/usr/bin/env python3
"""Regenerates /verif/MANIFEST.json from lib/props.py (claimed checks) so that it is always valid."""
import json
import os
import subprocess
import sys

HERE = os.path.dirname(os.path.dirname(os.path.realpath(__file__)))
sys.path.insert(0, os.path.join(HERE, "lib"))
import props  # noqa: E402

ALL = [f"C{i:02d}" for i in range(1, 21)]


def hook_commits():
    try:
        out = subprocess.run(["git", "-C", "/repo", "log", "--format=%H %s"], capture_output=True, text=True).stdout
        return [ln.split()[0] for ln in out.splitlines() if " verif hook" in ln or ln.split(" ", 1)[1].startswith("verif hook")]
    except Exception:
        return []


def main():
    checks = []
    for pid in sorted(props.PROPS):
        c = props.PROPS[pid]
        checks.append(dict(
            property_id=pid,
            quick_cmd=f"./check {pid} --tier quick",
            thorough_cmd=f"./check {pid} --tier thorough",
            evidence_file=f"/verif/evidence/{pid}.json",
            replay_cmd_template=f"./check {pid} --replay {{path}}",
            engine="harness",
            level_claimed=dict(category=c["level"], text=c.get("level_text") or ("Runtime monitoring of the real code: the property held on every execution this run produced (measured counts are in the evidence file); nothing is claimed for inputs, schedules or faults outside the workload. Workload and oracle: " + c["rule"]), design_ref=c.get("design_ref", f"DESIGN.md section 4, {pid}")),
            level_note=c.get("level_note", "; ".join(c.get("assumptions", []) + props.COMMON_ASSUMPTIONS)),
            technique=c.get("technique") or props.TECHNIQUE.get(pid, "runtime monitoring: oracle over observed executions of the real code under generated and hostile workloads"),
        ))
    na = [dict(property_id=p, reason=props.NOT_CLAIMED.get(p, "check not built yet (work in progress); not claimed")) for p in ALL if p not in props.PROPS]
    m = dict(
        version=1,
        setup_cmd="./check --setup",
        hooks=dict(
            guard="cargo feature `ipa-verif` of ipa-core (off by default)",
            enable="IPA_VERIF_DIR=/verif cargo test -p ipa-core --lib --features ipa-verif (the ./check driver does this for every build)",
            baseline_off_cmd="./check --baseline-off",
            source_commits=hook_commits(),
            add_only=True,
        ),
        engines=[dict(name="harness", path="/verif/harness", serves_properties=sorted(props.PROPS),
                      kind_free_text="Rust monitors include!d into the ipa-core unit-test binary through feature-guarded hooks; python driver ./check shards workloads over processes, merges observations into evidence, matches known findings")],
        checks=checks,
        notes="Runtime monitoring and sanitizers only. See DESIGN.md. Exit 2 of a check = inconclusive (never folded into held/violated).",
        not_applicable=na,
    )
    with open(os.path.join(HERE, "MANIFEST.json"), "w") as f:
        json.dump(m, f, indent=1)
        f.write("\n")
    try:
        import jsonschema
        jsonschema.validate(m, json.load(open("/root/.vp/MANIFEST.schema.json")))
        print("MANIFEST.json valid;", len(checks), "checks")
    except ImportError:
        print("MANIFEST.json written (jsonschema not importable here)")


if __name__ == "__main__":
    main()
