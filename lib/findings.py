"""Known-findings matching. known_findings.json is committed and never written at run time.

Entry: {"id": str, "property": "Cxx", "status": "open"|"fixed", "match": {fact: value, ...},
        "description": str, "commit": optional}
A violation matches an *open* entry iff every (fact, value) in "match" equals the violation's sig[fact].
Fixed entries suppress nothing.
"""
import json
import os


def load(path):
    if not os.path.exists(path):
        return []
    return json.load(open(path)).get("findings", [])


def split(pid, violations, kf):
    new, known = [], []
    for v in violations:
        sig = v.get("sig") or {}
        hit = None
        for f in kf:
            if f.get("property") != pid or f.get("status") != "open":
                continue
            m = f.get("match") or {}
            if m and all(sig.get(k) == val for k, val in m.items()):
                hit = f
                break
        if hit:
            known.append(dict(violation=v, finding=hit))
        else:
            new.append(v)
    return new, known
