"""Turn sanitizer / interpreter reports found in a harness process log into violation records.

Miri:  `error: Undefined Behavior: <message>` (includes `Data race detected ...`) followed by a backtrace whose
       frames read `= note: inside `func` at path:line:col` / `--> path:line:col`.
TSan:  blocks `WARNING: ThreadSanitizer: <kind> (pid=N)` ... `==================`.
A report is a fact about the execution that was observed (not a harness failure), so it is a violation with the
signature (tool, message class, first frame inside ipa-core's sources that is not harness code). Anything else that
makes the process exit non-zero (unsupported operation in Miri, crash, OOM) stays *inconclusive*.
"""
import hashlib
import json
import os
import re

_ADDR = re.compile(r"0x[0-9a-f]+|alloc\d+|<\d+>|\d+")


def _norm(msg):
    return _ADDR.sub("#", msg).strip()[:200]


def _repo_frame(lines):
    """first frame in ipa-core/src that is not the harness (harness files live outside the repo)"""
    for ln in lines:
        m = re.search(r"((?:/[\w.\-]+)*/?ipa-core/src/[\w/.\-]+\.rs):(\d+)", ln)
        if m and "/harness/" not in ln:
            return re.sub(r"^.*?(ipa-core/src/)", r"\1", m.group(1))
    return None


def _tsan_frame(lines):
    """symbolised frames read `#N <function> <path>:<line>:<col> (<module>+0x..)`: first source file of ipa-core"""
    for ln in lines:
        if not re.match(r"\s*#\d+ ", ln):
            continue
        f = _repo_frame([ln])
        if f:
            return f
    return None


def parse(text):
    """-> list of dict(tool, message, frame, report)"""
    out = []
    lines = text.splitlines()
    i = 0
    while i < len(lines):
        ln = lines[i]
        m = re.search(r"error: Undefined Behavior: (.*)$", ln)
        if m:
            j = i + 1
            while j < len(lines) and not lines[j].startswith("error:") and j - i < 200:
                j += 1
            block = lines[i:j]
            out.append(dict(tool="miri", message=_norm(m.group(1)), frame=_repo_frame(block), report="\n".join(block)[:6000]))
            i = j
            continue
        m = re.match(r"^WARNING: ThreadSanitizer: (.*?)(?: \(pid=\d+\))?\s*$", ln)
        if m:
            j = i + 1
            while j < len(lines) and not lines[j].startswith("==================") and j - i < 400:
                j += 1
            block = lines[i:j]
            out.append(dict(tool="tsan", message=_norm(m.group(1)), frame=_tsan_frame(block), report="\n".join(block)[:6000]))
            i = j
            continue
        i += 1
    return out


def violations(pid, job, text, witness_dir, seed, tier):
    vs = []
    short = job["test"].split("::")[-1]
    for r in parse(text):
        sig = dict(kind=r["tool"] + "_report", message=r["message"], frame=r["frame"])
        w = dict(property=pid, test=short, what=f"{r['tool']} reported: {r['message']}", sig=sig,
                 witness=dict(report=r["report"], shard=f"{job['shard']}/{job['shards']}"),
                 seed=int(seed), tier=tier, build=job["build"])
        h = hashlib.sha1(json.dumps(sig, sort_keys=True).encode()).hexdigest()[:16]
        path = os.path.join(witness_dir, f"{pid}-{short}-{r['tool']}-{h}.json")
        os.makedirs(witness_dir, exist_ok=True)
        with open(path, "w") as f:
            json.dump(w, f, indent=1)
        v = dict(w, path=path)
        v["witness"] = None
        vs.append(v)
    return vs
