#!/usr/bin/env python3
"""60-digit reference for the truncation point of the truncated double-geometric (discrete Laplace) law (C12).

Criterion (oprf_padding/README.md, eq. (11) of arXiv 2110.08177): with r = exp(-eps) and the law
Pr(x | n) = A * r^|n-x| on x in 0..2n, A = (1-r) / (1 + r - 2 r^(n+1)), the truncation point is the smallest
n >= Delta such that the total probability of the Delta outermost support points on one side,

    tail(n) = A * sum_{k=n-Delta+1}^{n} r^k = r^(n-Delta+1) * (1 - r^Delta) / (1 + r - 2 r^(n+1)),

is <= delta. tail is strictly decreasing in n, so n* is found by bisection and then certified by evaluating
tail(n*) <= delta and (n* == Delta or tail(n*-1) > delta).

Everything is evaluated with python `decimal` at 60 significant digits on the *exact binary values* of the f64
inputs (they are passed as IEEE-754 bit patterns), so that this reference and the f64 reference inside the
harness (harness/c12.rs) talk about the same real numbers.

Modes
  --stdin   read lines "<eps_bits_hex> <delta_bits_hex> <Delta>" and answer, per line,
            "<n*> <(delta - tail(n*))/delta> <(tail(n*-1) - delta)/delta | inf>"   (used by the harness at check time)
  --grid    print the documented grid (12 eps x 8 delta x 6 Delta) as JSON lines
  --check FILE...  re-verify side files written by the harness (.out/C12/c12_grid.*.jsonl): exit 1 on disagreement
"""
import json
import struct
import sys
from decimal import Decimal, getcontext

getcontext().prec = 60

EPS = [0.01, 0.02, 0.05, 0.1, 0.25, 0.5, 1.0, 2.0, 3.5, 5.0, 10.0, 20.0]
DELTA = [1e-12, 1e-10, 1e-9, 1e-8, 1e-7, 1e-6, 1e-4, 1e-2]
SENS = [1, 2, 3, 10, 100, 1000]


def f64_from_bits(h):
    return struct.unpack(">d", bytes.fromhex(h.rjust(16, "0")))[0]


def bits_of(x):
    return struct.pack(">d", x).hex()


def tail(eps, n, sens):
    """eps: Decimal. Probability of the `sens` outermost points on one side of the law on 0..2n."""
    r = (-eps).exp()
    num = (r ** (n - sens + 1)) * (1 - r ** sens)
    den = 1 + r - 2 * r ** (n + 1)
    return num / den


def tail_by_summation(eps, n, sens):
    """The same quantity, term by term (used to certify the closed form on small cases)."""
    r = (-eps).exp()
    a = (1 - r) / (1 + r - 2 * r ** (n + 1))
    return a * sum(r ** k for k in range(n - sens + 1, n + 1))


def smallest_n(eps_f, delta_f, sens):
    eps = Decimal(eps_f)  # exact binary value
    delta = Decimal(delta_f)
    lo = sens
    if tail(eps, lo, sens) <= delta:
        n = lo
    else:
        hi = max(2 * lo, 2)
        while tail(eps, hi, sens) > delta:
            lo, hi = hi, 2 * hi
            if hi > 1 << 40:
                raise RuntimeError("no truncation point below 2^40")
        # invariant: tail(lo) > delta >= tail(hi)
        while hi - lo > 1:
            mid = (lo + hi) // 2
            if tail(eps, mid, sens) <= delta:
                hi = mid
            else:
                lo = mid
        n = hi
    t = tail(eps, n, sens)
    assert t <= delta
    margin_hi = (delta - t) / delta
    if n == sens:
        margin_lo = None
    else:
        tb = tail(eps, n - 1, sens)
        assert tb > delta
        margin_lo = (tb - delta) / delta
    return n, margin_hi, margin_lo


def fmt(d):
    return "inf" if d is None else f"{d:.6E}"


def main(argv):
    if len(argv) >= 2 and argv[1] == "--stdin":
        out = []
        for ln in sys.stdin:
            p = ln.split()
            if len(p) != 3:
                continue
            n, mh, ml = smallest_n(f64_from_bits(p[0]), f64_from_bits(p[1]), int(p[2]))
            out.append(f"{n} {fmt(mh)} {fmt(ml)}")
        sys.stdout.write("\n".join(out) + "\n")
        return 0
    if len(argv) >= 2 and argv[1] == "--grid":
        for e in EPS:
            for d in DELTA:
                for s in SENS:
                    n, mh, ml = smallest_n(e, d, s)
                    print(json.dumps(dict(eps=e, delta=d, sens=s, eps_bits=bits_of(e), delta_bits=bits_of(d),
                                          n=n, margin_at_n=fmt(mh), margin_below=fmt(ml))))
        return 0
    if len(argv) >= 3 and argv[1] == "--check":
        bad = 0
        total = 0
        for path in argv[2:]:
            for ln in open(path):
                ln = ln.strip()
                if not ln:
                    continue
                g = json.loads(ln)
                n, mh, ml = smallest_n(f64_from_bits(g["eps_bits"]), f64_from_bits(g["delta_bits"]), g["sens"])
                total += 1
                if g.get("class") == "decided" and (g["n_ref_f64"] != n or g.get("n_code") != n):
                    bad += 1
                    print("DISAGREE", json.dumps(g), "python n* =", n)
        print(f"checked {total} grid points, {bad} disagreements")
        return 1 if bad else 0
    if len(argv) >= 2 and argv[1] == "--selftest":
        for e in (0.01, 0.3, 1.0, 7.0):
            for s in (1, 2, 7, 40):
                for n in (s, s + 1, s + 9, 3 * s + 50):
                    a = tail(Decimal(e), n, s)
                    b = tail_by_summation(Decimal(e), n, s)
                    assert abs(a - b) <= abs(b) * Decimal("1e-50"), (e, s, n, a, b)
        print("closed form == summation on the self-test cases")
        return 0
    sys.stderr.write(__doc__)
    return 2


if __name__ == "__main__":
    sys.exit(main(sys.argv))
