#!/usr/bin/env python3
"""Validate MANIFEST.json and every evidence file against the task schemas."""
import glob
import json
import sys
import jsonschema
ok = True
m = json.load(open('/verif/MANIFEST.json'))
jsonschema.validate(m, json.load(open('/root/.vp/MANIFEST.schema.json')))
es = json.load(open('/root/.vp/EVIDENCE.schema.json'))
for c in m['checks']:
    f = c['evidence_file']
    try:
        jsonschema.validate(json.load(open(f)), es)
        print('ok  ', f)
    except Exception as e:  # noqa: BLE001
        ok = False
        print('FAIL', f, str(e)[:300])
sys.exit(0 if ok else 1)
