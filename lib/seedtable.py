#!/usr/bin/env python3
"""Prints the markdown catch table from seeded/*/meta.json + result*.json."""
import glob, json, os
HERE = os.path.dirname(os.path.dirname(os.path.realpath(__file__)))
rows = []
for d in sorted(glob.glob(os.path.join(HERE, "seeded", "*"))):
    if not os.path.isdir(d):
        continue
    sid = os.path.basename(d)
    meta = json.load(open(os.path.join(d, "meta.json")))
    title = (meta.get("title") or "")[:110].replace("|", "/")
    res = {}
    for f in sorted(glob.glob(os.path.join(d, "result*.json"))):
        r = json.load(open(f))
        res[r.get("check", {}) and (os.path.basename(f).replace("result-", "").replace("result", "").replace(".json", "") or r["property"])] = r
    cells = []
    for k, r in res.items():
        cells.append(f"{k}: {'caught' if r.get('detected') else 'missed'} ({r['check']['tier']})")
    main = dict(res.get(meta["property"]) or {})
    sj = os.path.join(d, "suite.json")
    if os.path.exists(sj):
        main["suite_passes"] = json.load(open(sj)).get("suite_passes")
    rows.append((sid, title, "yes" if main.get("demo_confirms") else ("n/a" if "demo_confirms" not in main else "no"),
                 {True: "yes", False: "no", None: "-"}[main.get("suite_passes")], "; ".join(cells)))
print("| id | change | demo confirmed | suite passes with change | checks |")
print("|---|---|---|---|---|")
for r in rows:
    print("| " + " | ".join(r) + " |")
