#!/usr/bin/env python3
"""Regenerates the two generated tables at the end of DESIGN.md (between the BEGIN/END markers) from
seeded/*/result*.json (lib/seedtable.py) and lib/props.py + evidence/*.json (lib/asbuilt.py)."""
import os, re, subprocess, sys
HERE = os.path.dirname(os.path.dirname(os.path.realpath(__file__)))
p = os.path.join(HERE, "DESIGN.md")
s = open(p).read()
def run(script):
    return subprocess.run([sys.executable, os.path.join(HERE, "lib", script)], capture_output=True, text=True).stdout.strip()
for name, script in (("SEED-TABLE", "seedtable.py"), ("ASBUILT-TABLE", "asbuilt.py")):
    b, e = f"<!-- BEGIN {name} -->", f"<!-- END {name} -->"
    if b not in s:
        sys.exit(f"marker {b} missing")
    s = s[: s.index(b) + len(b)] + "\n" + run(script) + "\n" + s[s.index(e):]
open(p, "w").write(s)
print("DESIGN.md tables regenerated")
