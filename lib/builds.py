"""Build definitions: every build compiles /repo's *current working tree* with the hook feature on."""
import json
import os
import subprocess
import time


class BuildError(Exception):
    pass


# optimise third-party dependencies (AES, curve25519, bitvec, sha2 are very slow at opt-level 0);
# ipa-core itself stays at opt-level 0 with debug assertions (PRSS UsedSet, debug_assert!s).
PROFILE = [
    "--config", 'profile.dev.package."*".opt-level=2',
    "--config", "profile.dev.debug=\"line-tables-only\"",
    "--config", 'profile.test.package."*".opt-level=2',
    "--config", "profile.test.debug=\"line-tables-only\"",
]

BUILDS = {
    "b1": dict(features="ipa-verif", default_features=True),
    "b2": dict(features="ipa-verif shuttle", default_features=True, test_filter=r"verif_c\d+_sh_"),
    "b3": dict(features="compact-gate in-memory-infra web-app stall-detection test-fixture ipa-verif",
               default_features=False, test_filter=r"verif_c\d+_cg_"),
    "b4": dict(features="ipa-verif multi-threading", default_features=True, test_filter=r"verif_c\d+_mt_"),
    "b6": dict(features="ipa-verif", default_features=True, rustflags="-Ctarget-feature=+pclmulqdq,+sse2",
               test_filter=r"verif_c\d+_clmul_"),
    "miri": dict(features="ipa-verif", default_features=True, miri=True, test_filter=r"verif_c\d+_miri_",
                 shards_override=1),
    # ThreadSanitizer over the workloads that use real OS threads (std threads, tokio worker threads, the
    # multi-threaded seq_join); needs nightly + -Zbuild-std so that std itself is instrumented
    "tsan": dict(features="ipa-verif multi-threading", default_features=True, nightly=True, build_std=True,
                 target="x86_64-unknown-linux-gnu", rustflags="-Zsanitizer=thread", sanitizer="tsan",
                 test_filter=r"verif_c\d+_(mt_\w+|\w*threads\w*|\w*native_x1)$"),
}
# tests with these markers only exist / only make sense in their own build
SPECIAL = r"verif_c\d+_(sh|cg|mt|clmul|miri)_"
BUILDS["b1"]["test_skip"] = SPECIAL


def target_dir(name, here):
    root = os.environ.get("VERIF_TARGET_ROOT", os.path.join(here, ".target"))
    return os.path.join(root, name)


def run_env(name, here):
    b = BUILDS[name]
    env = {"IPA_VERIF_DIR": here}
    if b.get("miri"):
        env["MIRIFLAGS"] = "-Zmiri-tree-borrows -Zmiri-disable-isolation -Zmiri-ignore-leaks"
    if b.get("sanitizer") == "tsan":
        # keep going after a report and exit normally: reports are collected from the log by the driver
        env["TSAN_OPTIONS"] = "halt_on_error=0 exitcode=0 report_signal_unsafe=0 second_deadlock_stack=1"
    return env


def build(name, repo, here):
    b = BUILDS[name]
    env = dict(os.environ)
    env.update(run_env(name, here))
    env["CARGO_TARGET_DIR"] = target_dir(name, here)
    env["CARGO_NET_OFFLINE"] = "true"
    if b.get("rustflags"):
        env["RUSTFLAGS"] = b["rustflags"]
    if b.get("miri"):
        cmd = ["cargo", "+nightly", "miri", "test"]
    elif b.get("nightly"):
        cmd = ["cargo", "+nightly", "test"]
    else:
        cmd = ["cargo", "test"]
    cmd += ["-p", "ipa-core", "--lib", "--no-run", "--offline", "--message-format=json"]
    if b.get("build_std"):
        cmd += ["-Zbuild-std"]
    if b.get("target"):
        cmd += ["--target", b["target"]]
    if not b.get("miri"):
        cmd += PROFILE
    if not b.get("default_features", True):
        cmd += ["--no-default-features"]
    cmd += ["--features", b["features"]]
    t0 = time.time()
    p = subprocess.run(cmd, cwd=repo, env=env, capture_output=True, text=True)
    wall = time.time() - t0
    exe = None
    errors = []
    for ln in p.stdout.splitlines():
        if not ln.startswith("{"):
            continue
        try:
            m = json.loads(ln)
        except json.JSONDecodeError:
            continue
        if m.get("reason") == "compiler-artifact" and m.get("executable") and m.get("profile", {}).get("test") \
                and m.get("target", {}).get("name") in ("ipa_core", "ipa-core"):
            exe = m["executable"]
        if m.get("reason") == "compiler-message" and m.get("message", {}).get("level") == "error":
            errors.append(m["message"].get("rendered", "")[:2000])
    if p.returncode != 0 or not exe:
        raise BuildError(f"cargo exit {p.returncode}\n" + "\n".join(errors[:6]) + "\n" + p.stderr[-3000:])
    return exe, wall


def miri_cmd(name, repo, here, test):
    """Command + env that runs one test of the miri build through `cargo miri test` (the runner protocol of
    cargo-miri is the only supported way to execute a miri-built test binary)."""
    b = BUILDS[name]
    cmd = ["cargo", "+nightly", "miri", "test", "-p", "ipa-core", "--lib", "--offline", "--features", b["features"],
           "--", "--exact", test, "--test-threads", "1", "--nocapture"]
    env = {"CARGO_TARGET_DIR": target_dir(name, here), "CARGO_NET_OFFLINE": "true"}
    env.update(run_env(name, here))
    return cmd, env
