"""Route scanner for C20: discovers the HTTP route inventory of ipa-core from its sources.

Nothing about the routes is hard-coded here. The scanner reads `<repo>/ipa-core/src/net/**/*.rs` and

  1. collects every `const <NAME>: &str = "<literal>"` whose name contains `PATH` together with its module path
     (`http_serde::query::step::AXUM_PATH`), following inline `mod x { ... }` nesting;
  2. finds every function returning `Router` and evaluates its body as a builder chain
     (`Router::new()`, `.route(path, get(h))`, `.merge(f(..))`, `.nest(prefix, expr)`, `.layer(..)`), resolving calls to
     other router functions (`step::router(..)`, `query::query_router(..)`) and path expressions (literals or constants);
  3. finds the server roots: inside `impl IpaHttpServer<Helper|Shard>` the call `handlers::<fn>(`.

Output (JSON): path constants, nest prefixes, one entry per mounted (server, method(s), full template) with the chain
of router functions that mounts it (`via`) and whether a `HelperAuthentication` layer was applied on the way
(`auth_layer`, informational only: the run-time oracle does not trust it), `.route(` calls that are not reachable from a
server root, constants that are not mounted anywhere, every string literal passed to a `.route(`/`.nest(` call anywhere
(`loose_templates`, probed by the harness under every prefix), and `warnings` for everything the scanner could not
follow (the harness turns warnings into *inconclusive*).

Test code (`#[cfg(..test..)] mod .. { .. }`) is ignored.

CLI: python3 lib/routes.py [repo] [out.json]
"""
import json
import os
import re
import sys

METHOD_FNS = {"get": "GET", "post": "POST", "put": "PUT", "delete": "DELETE", "patch": "PATCH", "head": "HEAD",
              "options": "OPTIONS", "trace": "TRACE"}
ALL_METHODS = ["GET", "POST", "PUT", "DELETE", "PATCH", "HEAD", "OPTIONS", "TRACE"]


# ------------------------------------------------------------------------------------------------
# lexing helpers
# ------------------------------------------------------------------------------------------------

def strip_comments(src):
    """Remove // and /* */ comments, keep string literals and line structure."""
    out = []
    i, n = 0, len(src)
    while i < n:
        c = src[i]
        if src.startswith("//", i):
            j = src.find("\n", i)
            i = n if j < 0 else j
        elif src.startswith("/*", i):
            depth, j = 1, i + 2
            while j < n and depth:
                if src.startswith("/*", j):
                    depth, j = depth + 1, j + 2
                elif src.startswith("*/", j):
                    depth, j = depth - 1, j + 2
                else:
                    j += 1
            out.append("\n" * src.count("\n", i, j))
            i = j
        elif c == '"':
            j = i + 1
            while j < n and src[j] != '"':
                j += 2 if src[j] == "\\" else 1
            out.append(src[i:j + 1])
            i = j + 1
        elif c == "'" and re.match(r"'(\\.|[^\\'])'", src[i:i + 4]):
            m = re.match(r"'(\\.|[^\\'])'", src[i:i + 4])
            out.append(m.group(0))
            i += len(m.group(0))
        else:
            out.append(c)
            i += 1
    return "".join(out)


def match_brace(src, open_idx, open_ch="{", close_ch="}"):
    """Index of the bracket closing the one at open_idx (string aware)."""
    depth, i, n = 0, open_idx, len(src)
    while i < n:
        c = src[i]
        if c == '"':
            i += 1
            while i < n and src[i] != '"':
                i += 2 if src[i] == "\\" else 1
        elif c == open_ch:
            depth += 1
        elif c == close_ch:
            depth -= 1
            if depth == 0:
                return i
        i += 1
    return -1


def strip_test_items(src):
    """Drop `#[cfg(...test...)] (pub)? mod name { ... }` blocks."""
    pat = re.compile(r"#\[cfg\([^\]]*\btest\b[^\]]*\)\]\s*(?:pub(?:\([^)]*\))?\s+)?mod\s+\w+\s*\{")
    while True:
        m = pat.search(src)
        if not m:
            return src
        end = match_brace(src, m.end() - 1)
        if end < 0:
            return src[:m.start()]
        blank = "\n" * src.count("\n", m.start(), end + 1)
        src = src[:m.start()] + blank + src[end + 1:]


TOKEN = re.compile(r'''\s*(?:(?P<str>"(?:\\.|[^"\\])*")|(?P<id>[A-Za-z_][A-Za-z0-9_]*!?)|(?P<num>\d[\w.]*)|(?P<life>'[A-Za-z_]\w*)|(?P<p>::|->|=>|[-+*/%^!&|<>=]=?|[(){}\[\],.;:#?@$~]))''')


def tokenize(s):
    toks, i, n = [], 0, len(s)
    while i < n:
        m = TOKEN.match(s, i)
        if not m:
            if s[i:].strip() == "":
                break
            i += 1
            continue
        i = m.end()
        if m.group("str") is not None:
            toks.append(("str", m.group("str")))
        elif m.group("id") is not None:
            toks.append(("id", m.group("id")))
        elif m.group("num") is not None:
            toks.append(("num", m.group("num")))
        elif m.group("life") is not None:
            toks.append(("life", m.group("life")))
        else:
            toks.append(("p", m.group("p")))
    return toks


def text(toks):
    return " ".join(t[1] for t in toks)


OPEN = {"(": ")", "[": "]", "{": "}"}
CLOSE = {")", "]", "}"}


def split_args(toks):
    """Split a token list at top-level commas (angle brackets of turbofish are tracked heuristically)."""
    args, cur, depth, angle = [], [], 0, 0
    prev = None
    for t in toks:
        k, v = t
        if k == "p" and v in OPEN:
            depth += 1
        elif k == "p" and v in CLOSE:
            depth -= 1
        elif k == "p" and v == "<" and prev and (prev[1] == "::" or prev[0] == "id"):
            angle += 1
        elif k == "p" and v == ">" and angle:
            angle -= 1
        if k == "p" and v == "," and depth == 0 and angle == 0:
            args.append(cur)
            cur = []
        else:
            cur.append(t)
        prev = t
    if cur:
        args.append(cur)
    return args


def take_group(toks, i):
    """toks[i] is an opening bracket; returns (inner tokens, index after the closing bracket)."""
    depth, j = 0, i
    while j < len(toks):
        k, v = toks[j]
        if k == "p" and v in OPEN:
            depth += 1
        elif k == "p" and v in CLOSE:
            depth -= 1
            if depth == 0:
                return toks[i + 1:j], j + 1
        j += 1
    return toks[i + 1:], len(toks)


def skip_turbofish(toks, i):
    """toks[i:] starts with `::` `<` ... `>`; returns the index after it (or i)."""
    if i + 1 < len(toks) and toks[i][1] == "::" and toks[i + 1][1] == "<":
        depth, j = 0, i + 1
        while j < len(toks):
            if toks[j][1] == "<":
                depth += 1
            elif toks[j][1] == ">":
                depth -= 1
                if depth == 0:
                    return j + 1
            j += 1
    return i


def parse_chain(toks):
    """expr := primary postfix*  ->  (primary, [(method, [arg token lists])]) or None.

    primary = dict(path=[segments], call=None|[args]) | dict(group=tokens) | dict(lit=str)"""
    i = 0
    while i < len(toks) and toks[i][1] in ("&", "mut", "return"):
        i += 1
    if i >= len(toks):
        return None
    k, v = toks[i]
    if k == "str":
        prim, i = dict(lit=json.loads(v)), i + 1
    elif k == "p" and v == "(":
        inner, i = take_group(toks, i)
        prim = dict(group=inner)
    elif k == "id":
        segs = [v]
        i += 1
        while True:
            j = skip_turbofish(toks, i)
            if j != i:
                i = j
                continue
            if i + 1 < len(toks) and toks[i][1] == "::" and toks[i + 1][0] == "id":
                segs.append(toks[i + 1][1])
                i += 2
            else:
                break
        call = None
        if i < len(toks) and toks[i][1] == "(":
            inner, i = take_group(toks, i)
            call = split_args(inner)
        prim = dict(path=segs, call=call)
    else:
        return None
    post = []
    while i < len(toks):
        k, v = toks[i]
        if v == "?":
            i += 1
            continue
        if v == "." and i + 1 < len(toks) and toks[i + 1][0] in ("id", "num"):
            name = toks[i + 1][1]
            i += 2
            i = skip_turbofish(toks, i)
            if i < len(toks) and toks[i][1] == "(":
                inner, i = take_group(toks, i)
                post.append((name, split_args(inner)))
            else:
                post.append((name, None))  # field access / await
            continue
        return None  # something this mini-parser does not understand (operators, closures, ...)
    return prim, post


# ------------------------------------------------------------------------------------------------
# scanning
# ------------------------------------------------------------------------------------------------

class Scan:
    def __init__(self, net_dir):
        self.net_dir = net_dir
        self.files = {}       # rel path -> cleaned source
        self.consts = []      # dict(name=[segments], value, file, line)
        self.fns = []         # dict(name, mod=[segments], file, line, body_tokens, n_route_calls)
        self.warnings = []
        self.roots = {}       # server label -> fn name

    def warn(self, w):
        if w not in self.warnings:
            self.warnings.append(w)

    @staticmethod
    def file_mod(rel):
        parts = rel[:-3].split(os.sep)
        if parts[-1] == "mod":
            parts = parts[:-1]
        return parts

    def load(self):
        for root, _dirs, names in sorted(os.walk(self.net_dir)):
            for n in sorted(names):
                if not n.endswith(".rs"):
                    continue
                p = os.path.join(root, n)
                rel = os.path.relpath(p, self.net_dir)
                try:
                    src = open(p, encoding="utf-8", errors="replace").read()
                except OSError as e:
                    self.warn(f"cannot read {rel}: {e}")
                    continue
                self.files[rel] = strip_test_items(strip_comments(src))

    def scan_items(self, rel, src, mod, offset_line=0):
        """Collect consts and router fns of one module body; recurse into inline modules."""
        i = 0
        mod_pat = re.compile(r"\bmod\s+(\w+)\s*\{")
        const_pat = re.compile(r"\b(?:const|static)\s+(\w*PATH\w*)\s*:\s*&\s*(?:'static\s+)?str\s*=\s*(\"(?:\\.|[^\"\\])*\")\s*;")
        fn_pat = re.compile(r"\bfn\s+(\w+)\s*(?:<[^{;]*?>)?\s*\(")
        # inline modules first: remember their spans so that items are attributed to the innermost module
        spans = []
        for m in mod_pat.finditer(src):
            if any(a <= m.start() < b for a, b, _ in spans):
                continue
            end = match_brace(src, m.end() - 1)
            if end < 0:
                continue
            spans.append((m.start(), end + 1, m.group(1)))
        outer = list(src)
        for a, b, name in spans:
            inner = src[m_end(src, a):b - 1]
            self.scan_items(rel, inner, mod + [name], offset_line + src.count("\n", 0, m_end(src, a)))
            for k in range(a, b):
                if outer[k] != "\n":
                    outer[k] = " "
        flat = "".join(outer)
        for m in const_pat.finditer(flat):
            self.consts.append(dict(name=mod + [m.group(1)], value=json.loads(m.group(2)), file=rel,
                                    line=offset_line + flat.count("\n", 0, m.start()) + 1))
        for m in fn_pat.finditer(flat):
            close = match_brace(flat, m.end() - 1, "(", ")")
            if close < 0:
                continue
            rest = flat[close + 1:]
            sig = re.match(r"\s*->\s*([^{;]+?)\s*(?:where[^{;]*)?\{", rest, re.S)
            if not sig:
                continue
            ret = sig.group(1).strip()
            if not re.fullmatch(r"(?:axum\s*::\s*)?Router(?:\s*<[^>]*>)?", ret):
                continue
            b_open = close + 1 + sig.end() - 1
            b_close = match_brace(flat, b_open)
            if b_close < 0:
                continue
            body = flat[b_open + 1:b_close]
            self.fns.append(dict(name=m.group(1), mod=mod, file=rel,
                                 line=offset_line + flat.count("\n", 0, m.start()) + 1,
                                 body=body, n_route_calls=len(re.findall(r"\.\s*route(?:_service)?\s*\(", body))))
        _ = i

    def find_roots(self):
        pat = re.compile(r"\bimpl\s+IpaHttpServer\s*<\s*(\w+)\s*>\s*\{")
        for rel, src in self.files.items():
            for m in pat.finditer(src):
                end = match_brace(src, m.end() - 1)
                block = src[m.end():end if end > 0 else len(src)]
                for c in re.finditer(r"\bhandlers\s*::\s*(\w+)\s*\(", block):
                    label = {"Helper": "mpc", "Shard": "shard"}.get(m.group(1), m.group(1).lower())
                    if label in self.roots and self.roots[label] != c.group(1):
                        self.warn(f"server {label} has more than one root router: {self.roots[label]}, {c.group(1)}")
                    self.roots[label] = c.group(1)
        if not self.roots:
            for f in self.fns:
                if f["name"] in ("mpc_router", "shard_router"):
                    self.roots[{"mpc_router": "mpc", "shard_router": "shard"}[f["name"]]] = f["name"]
            if self.roots:
                self.warn("server roots found by name only (impl IpaHttpServer<..> blocks not recognised)")

    # ---- resolution -----------------------------------------------------------------------------

    def resolve_const(self, segs, here_mod):
        segs = [s for s in segs if s not in ("crate", "self", "super", "net")]
        cands = [c for c in self.consts if c["name"][-len(segs):] == segs]
        if len(cands) > 1:
            same = [c for c in cands if c["name"][:-1] == here_mod]
            if len(same) == 1:
                cands = same
        if len(cands) > 1 and len({c["value"] for c in cands}) == 1:
            cands = cands[:1]
        if len(cands) == 1:
            return cands[0]
        return None

    def resolve_fn(self, segs, here_mod):
        name = segs[-1]
        cands = [f for f in self.fns if f["name"] == name]
        if len(cands) > 1 and len(segs) > 1:
            q = [s for s in segs[:-1] if s not in ("crate", "self", "super", "net")]
            narrowed = [f for f in cands if q and f["mod"][-len(q):] == q]
            if narrowed:
                cands = narrowed
        if len(cands) > 1 and len(segs) == 1:
            narrowed = [f for f in cands if f["mod"] == here_mod]
            if narrowed:
                cands = narrowed
        return cands[0] if len(cands) == 1 else None

    def path_value(self, toks, fn):
        ch = parse_chain(toks)
        if ch and not ch[1]:
            prim = ch[0]
            if "lit" in prim:
                return prim["lit"], None
            if "path" in prim and prim["call"] is None:
                c = self.resolve_const(prim["path"], fn["mod"])
                if c:
                    return c["value"], "::".join(c["name"])
        self.warn(f"unresolved path expression `{text(toks)}` in {fn['file']}:{fn['name']}")
        return None, None

    def methods_of(self, toks, fn):
        ch = parse_chain(toks)
        if not ch or "path" not in ch[0] or ch[0]["call"] is None:
            self.warn(f"unrecognised method router `{text(toks)[:80]}` in {fn['file']}:{fn['name']}")
            return list(ALL_METHODS)
        out = []
        names = [ch[0]["path"][-1]] + [p[0] for p in ch[1]]
        for nm in names:
            if nm in METHOD_FNS:
                out.append(METHOD_FNS[nm])
            elif nm in ("any", "any_service", "on", "on_service") or nm.endswith("_service") and nm[:-8] not in METHOD_FNS:
                return list(ALL_METHODS)
            elif nm.endswith("_service") and nm[:-8] in METHOD_FNS:
                out.append(METHOD_FNS[nm[:-8]])
            elif nm in ("layer", "route_layer", "with_state", "fallback", "handle_error"):
                continue
            else:
                self.warn(f"unrecognised method router `{text(toks)[:80]}` in {fn['file']}:{fn['name']}")
                return list(ALL_METHODS)
        return out or list(ALL_METHODS)

    def eval_fn(self, fn, stack):
        key = (fn["file"], "::".join(fn["mod"]), fn["name"])
        if key in stack:
            self.warn(f"recursive router function {fn['name']}")
            return []
        body = fn["body"].strip()
        # a body made of `let` statements followed by a tail expression: evaluate the tail only, with a warning
        toks = tokenize(body)
        if any(t == ("id", "let") for t in toks):
            self.warn(f"router function {fn['file']}:{fn['name']} has let-bindings; only its tail expression is followed")
            depth, last = 0, 0
            for idx, (k, v) in enumerate(toks):
                if k == "p" and v in OPEN:
                    depth += 1
                elif k == "p" and v in CLOSE:
                    depth -= 1
                elif k == "p" and v == ";" and depth == 0:
                    last = idx + 1
            toks = toks[last:]
        fn["reached"] = True
        routes = self.eval_expr(toks, fn, stack + [key])
        label = "::".join(fn["mod"][-1:] + [fn["name"]]) if fn["name"] == "router" else fn["name"]
        for r in routes:
            r["via"] = [label] + r["via"]
        return routes

    def eval_expr(self, toks, fn, stack):
        ch = parse_chain(toks)
        if not ch:
            self.warn(f"cannot parse router expression `{text(toks)[:100]}` in {fn['file']}:{fn['name']}")
            return []
        prim, post = ch
        routes = []
        if "group" in prim:
            routes = self.eval_expr(prim["group"], fn, stack)
        elif "path" in prim:
            segs = prim["path"]
            if segs[-2:] == ["Router", "new"] or segs == ["Router", "default"]:
                routes = []
            elif prim["call"] is not None:
                target = self.resolve_fn(segs, fn["mod"])
                if target is None:
                    self.warn(f"unresolved router call `{'::'.join(segs)}(..)` in {fn['file']}:{fn['name']}")
                else:
                    routes = self.eval_fn(target, stack)
            else:
                self.warn(f"router expression starts with a variable `{'::'.join(segs)}` in {fn['file']}:{fn['name']}")
        else:
            self.warn(f"cannot parse router expression `{text(toks)[:100]}` in {fn['file']}:{fn['name']}")
        for name, args in post:
            if args is None:
                continue
            if name in ("route", "route_service") and len(args) == 2:
                path, const = self.path_value(args[0], fn)
                if path is None:
                    continue
                methods = self.methods_of(args[1], fn) if name == "route" else list(ALL_METHODS)
                routes.append(dict(path=path, const=const, methods=methods, file=fn["file"], name=fn["mod"][-1] if fn["mod"] else "",
                                   via=[], auth_layer=False, layers=[]))
            elif name == "merge" and len(args) == 1:
                routes += self.eval_expr(args[0], fn, stack)
            elif name in ("nest", "nest_service") and len(args) == 2:
                prefix, _c = self.path_value(args[0], fn)
                sub = self.eval_expr(args[1], fn, stack) if name == "nest" else []
                if name == "nest_service":
                    self.warn(f"nest_service in {fn['file']}:{fn['name']} is not followed")
                if prefix is None:
                    continue
                for r in sub:
                    r["path"] = join_path(prefix, r["path"])
                    r.setdefault("prefixes", []).insert(0, prefix)
                routes += sub
            elif name in ("layer", "route_layer"):
                t = text(args[0]) if args else ""
                ids = [v for k, v in (args[0] if args else []) if k == "id"]
                lname = next((x for x in ids if x[:1].isupper()), ids[0] if ids else "?")
                for r in routes:
                    r["layers"].append(lname)
                    if "Authentication" in t:
                        r["auth_layer"] = True
            elif name in ("with_state", "into_make_service", "fallback", "fallback_service", "method_not_allowed_fallback"):
                continue
            else:
                self.warn(f"router builder method `.{name}(..)` in {fn['file']}:{fn['name']} is not understood")
        return routes


def m_end(src, start):
    """index just after the `{` of the `mod x {` starting at `start`"""
    return src.index("{", start) + 1


def join_path(prefix, path):
    """axum's `path_for_nested_route`: nesting `/` under `/query` registers `/query` (not `/query/`)."""
    if prefix.endswith("/"):
        return prefix + path.lstrip("/")
    if path == "/":
        return prefix
    return prefix + path


def router_label(via):
    for v in reversed(via):
        if v in ("h2h_router",):
            return "h2h"
        if v in ("s2s_router",):
            return "s2s"
        if v in ("query_router",):
            return "report-collector"
    return "top"


def scan(repo):
    net_dir = os.path.join(repo, "ipa-core", "src", "net")
    s = Scan(net_dir)
    if not os.path.isdir(net_dir):
        return dict(repo=repo, error=f"{net_dir} does not exist", routes=[], constants=[], prefixes=[""], unmounted=[],
                    warnings=[f"{net_dir} does not exist"], scanned_files=0)
    s.load()
    for rel, src in s.files.items():
        s.scan_items(rel, src, Scan.file_mod(rel))
    s.find_roots()
    routes = []
    for server, root in sorted(s.roots.items()):
        target = s.resolve_fn([root], [])
        if target is None:
            s.warn(f"root router function {root} of server {server} not found")
            continue
        for r in s.eval_fn(target, []):
            r = dict(r)
            r["server"] = server
            r["full"] = r.pop("path")
            r["router"] = router_label(r["via"])
            routes.append(r)
    # `.route(` calls in functions never reached from a server root
    unreachable = []
    for f in s.fns:
        if f["n_route_calls"] and not f.get("reached"):
            unreachable.append(dict(file=f["file"], fn=f["name"], route_calls=f["n_route_calls"]))
            s.warn(f"{f['n_route_calls']} .route( call(s) in {f['file']}:{f['name']} are not reachable from a server router")
    # `.route(` calls outside of any function returning Router
    for rel, src in s.files.items():
        total = len(re.findall(r"\.\s*route(?:_service)?\s*\(", src))
        in_fns = sum(f["n_route_calls"] for f in s.fns if f["file"] == rel)
        if total > in_fns:
            s.warn(f"{total - in_fns} .route( call(s) in {rel} are outside of functions returning Router")
    # every string literal that is the first argument of a .route/.nest call anywhere (also in code the evaluator could
    # not follow): the harness probes these under every prefix on both servers
    loose = set()
    for rel, src in s.files.items():
        for m in re.finditer(r"\.\s*(?:route|route_service|nest|nest_service)\s*\(\s*(\"(?:\\.|[^\"\\])*\")", src):
            try:
                loose.add(json.loads(m.group(1)))
            except ValueError:
                pass
    used_consts = {r["const"] for r in routes if r.get("const")}
    prefixes = sorted({""} | {p for r in routes for p in r.get("prefixes", [])})
    unmounted = []
    for c in s.consts:
        q = "::".join(c["name"])
        if q in used_consts or c["value"] in prefixes:
            continue
        if "AXUM" in c["name"][-1] or c["value"].startswith("/"):
            unmounted.append(dict(const=q, value=c["value"], file=c["file"], line=c["line"]))
    for r in routes:
        r.pop("prefixes", None)
    return dict(
        repo=repo,
        scanned_files=len(s.files),
        roots=s.roots,
        constants=[dict(name="::".join(c["name"]), value=c["value"], file=c["file"], line=c["line"]) for c in s.consts],
        prefixes=prefixes,
        routes=routes,
        unmounted=unmounted,
        loose_templates=sorted(loose),
        unreachable=unreachable,
        warnings=s.warnings,
    )


def pre_run(repo, here, tier, seed, outdir):
    """Driver hook: scan, write <outdir>/routes.json, hand its path to the harness processes."""
    inv = scan(repo)
    os.makedirs(outdir, exist_ok=True)
    out = os.path.join(outdir, "routes.json")
    with open(out, "w") as f:
        json.dump(inv, f, indent=1, sort_keys=True)
        f.write("\n")
    return {"VERIF_ROUTES": out}


if __name__ == "__main__":
    repo_ = sys.argv[1] if len(sys.argv) > 1 else os.environ.get("VERIF_REPO", "/repo")
    inv_ = scan(repo_)
    if len(sys.argv) > 2:
        with open(sys.argv[2], "w") as f_:
            json.dump(inv_, f_, indent=1, sort_keys=True)
    else:
        json.dump(inv_, sys.stdout, indent=1, sort_keys=True)
        print()
