"""Per-property configuration of the driver: builds, shard counts, level, rule, assumptions."""

COMMON_ASSUMPTIONS = [
    "verdicts are about the executions produced by this run only (held on what was observed, not verified)",
    "harness is compiled into the ipa-core unit-test binary (cfg(test): TARGET_PROOF_SIZE=8192, debug assertions on)",
    "third-party dependencies are trusted (built at opt-level 2, ipa-core at opt-level 0)",
]

PROPS = {}


def prop(pid, **kw):
    kw.setdefault("builds", {"quick": ["b1"], "thorough": ["b1"]})
    kw.setdefault("level", "exploration")
    PROPS[pid] = kw


prop(
    "C10",
    level="fault_enumeration",
    rule=("cases = generated impression/conversion reports (site-domain lengths {0,1,2,24,63,255}, extreme timestamps/floats, "
          "3 key ids) x every single-bit flip at every offset x every truncation length x 1..3-byte extensions x wrong key x "
          "unknown key id; seeded garbage records of length 0..400; malformed length-delimited bodies through the production "
          "input pipeline; a case is distinct by (report kind, record region, offset, bit) / (length, first byte) / (framing "
          "mutation, record count, chunking) and non-trivial when it reached the parser or decryptor and was decided by the oracle"),
    assumptions=["site domains are ASCII without NUL (a NUL inside a domain is the wire delimiter of the metadata encoding)"],
    shards={"quick": 8, "thorough": 16},
    min_evaluations={"quick": 20000, "thorough": 400000},
    must_see=[("framing_mutations", 9), ("bitflip_rejected", 1000)],
    builds={"quick": ["b1"], "thorough": ["b1", "miri"]},
)

# properties not claimed (yet), with the reason shown in MANIFEST.not_applicable
NOT_CLAIMED = {}

prop(
    "C01",
    level="exploration",
    rule=("cases = report multisets (fixed corner list: empty, single, only-impressions, only-conversions, all-unmatched, imp+conv, conv+conv "
          "3-bit wrap, imp+imp 8-bit wrap, >2 repeats, colliding bucket, 8-bit saturation, >256 rows, duplicated pair; plus seeded "
          "multisets over a small match-key pool; plus sparse multi-shard inputs) x shards {1,2,3,5} x report-to-shard assignment "
          "{round-robin, random, all-to-one, one-empty} x {semi-honest, malicious} x {no padding, small explicit padding} x output width "
          "{8,32} x executor {paused-clock single thread, 4-thread tokio}; each run executes the real hybrid_protocol on 3xS in-memory "
          "helpers and compares the reconstructed leader histogram with an independent plaintext reference; a case is distinct by "
          "(class, assignment, shards, mode, padding, width, hash of the multiset) and non-trivial when all three leader helpers returned "
          "Ok and the histogram was compared"),
    assumptions=["BK=BA8, V=BA3, 256 buckets (the production instantiation); noise (DpMechanism) off - covered by C12",
                 "non-completion is decided by quiescence under tokio's paused clock (60 virtual seconds), not by wall time"],
    builds={"quick": ["b1"], "thorough": ["b1", "b3", "b2"]},
    shards={"quick": 16, "thorough": 16},
    min_evaluations={"quick": 60, "thorough": 600},
    must_see=[("histogram_equal", 30), ("stages_logged", 4)],
    watchdog_s={"quick": 1500, "thorough": 10800},
)

prop(
    "C02",
    level="fault_enumeration",
    rule=("pass 1 inventories every MPC chunk (gate, sender, receiver, shard, chunk#, length) of an honest malicious-mode hybrid query; "
          "each fault run replays the same deterministic execution with one chunk of one sender altered (flip bit 0, flip last bit, xor 0xFF "
          "on a seeded byte, zero the chunk, +1 on the first 8 bytes); quick = one fault per (step family, corrupt helper) for 1 shard "
          "(padding on and off) plus a quarter of them for 2 shards; thorough = every inventoried chunk x 2 patterns (1 shard), 30 % "
          "sample (2 shards); a case is distinct by (step family, sender, receiver, pattern) and non-trivial when the fault actually "
          "changed bytes of a live chunk and the outcome was classified (abort on an honest helper / accepted with the untampered value / "
          "accepted with a different value = violation)"),
    assumptions=["the corrupt helper only alters MPC (helper-to-helper) traffic it sends; shard-to-shard traffic is inside one trust domain",
                 "the execution replayed for a fault is the same as the inventoried one (same seeds, paused single-thread runtime)",
                 "an honest helper that never finishes is detected by quiescence under tokio's paused clock"],
    shards={"quick": 16, "thorough": 16},
    min_evaluations={"quick": 100, "thorough": 2000},
    must_see=[("step_families_faulted", 40), ("abort-honest-err", 20)],
    watchdog_s={"quick": 1800, "thorough": 14400},
)

prop(
    "C05",
    level="fault_enumeration",
    rule=("honest: row counts {0,1,2,3,4,5,6,31,32,33,100} x shards {1,2,3,5} x row types {BA32, BA64, hybrid report (BA112), aggregateable "
          "report (BA32)} x assignment {round-robin, random, all-to-last, all-to-first} x {semi-honest, malicious} x executor; oracle = "
          "multiset of reconstructed output rows over all shards equals the input multiset (duplicates included) and every row is a "
          "consistent replicated sharing. faults (malicious): pass 1 inventories every MPC chunk of the shuffle; each fault run alters one "
          "chunk of one sender, or one bit of one input share held by one helper; table messages (transfer_x_y, transfer_c) and held rows "
          "must make an honest helper fail; other traffic must abort or leave the multiset unchanged. adaptive (malicious): row types x "
          "shards {1,2,3} x row counts {1,2,3,5,10,33,100,300 (+700, 2000 thorough)} x (attacker, table) in {(H1,X2), (H2,Y1), (H2,C1), (H3,C2)}: "
          "an honest reference run with the same world seed yields the attacker's own two shares of every MAC key (its RevealMACKey "
          "messages); in the attack run the third share is only taken from RevealMACKey messages already delivered to the attacker (any "
          "shard) at the moment a chunk of its table is handed to the receiver (the in-memory transport runs the interceptor when the "
          "receiver pulls the chunk; a real sender could hold the chunk back until then; pulling the reveal messages earlier than the "
          "attacker's honest code does is not modelled); then delta is added to one 32-bit word of one row and k*delta (GF(2^32)) to its tag; "
          "applied + all honest helpers return rows => violation (key not yet known => counted). row permutation (malicious): row types x "
          "shards {1,2,3} x row counts {2,3,10,100,300 (+5, 33, 700 thorough)} x (attacker, table) in {(H1,X2), (H2,Y1), (H2,C1), (H3,C2)}: two whole rows "
          "(content and tag) of one table channel are exchanged in the bytes the receiver pulls, once two rows of one transport chunk and, "
          "for tables of several chunks, once two rows of different chunks (bytes of the other row taken from a reference run with the same "
          "world seed and re-checked against the attack run's own traffic); some honest helper must fail; all honest helpers Ok and the "
          "output multiset changed / inconsistent => violation; all Ok and multiset unchanged => counted as without effect. key-share shift "
          "(malicious): row types x shards {1,2,3} x row counts 1..6 x attacker/victim in {H1 -> H2 (table X2), H2 -> H3 (table C1)} on a shard "
          "where the tables the victim digests for an honest verifier (X2; Y1 and C) have at most one row per 32-bit word: the attacker adds d to "
          "one word of one row when the table is pulled, and when its own RevealMACKey message to the victim is pulled and the share it "
          "lacks has already been delivered to it (any shard) it adds the solution delta of sum_j delta_j*T'[r][j] = k_j0*d*[r=r0] (GF(2^32)) "
          "to the key shares in that message; applied + all honest helpers return rows + output altered => violation; an honest helper "
          "failing => counted as detected. large table (thorough, one process): "
          "BA32 rows on one shard, 1,100,003 rows semi-honest and 2^20+7 rows malicious (both > 2^20), paused-clock executor (quiescence decides "
          "'never finishes'), multiset oracle. distinct = (type, shards, mode, "
          "assignment, size) / (type, step family, sender, shards) / (type, shards, size, attacker/table, outcome) / (type, shards, size, "
          "attacker/table, chunk placement, outcome); non-trivial = outcome classified"),
    assumptions=["only MPC (helper-to-helper) traffic is tampered with", "MAC tag forgery probability 2^-32 per run is ignored",
                 "the adaptive attacker follows the protocol's own schedule: it alters a message when it is delivered and never asks for a message earlier than the honest code",
                 "a sender knows its whole table before the first row leaves: the row-permutation attacker's table bytes are taken from a reference run with the same world seed (re-checked on the attack run)"],
    shards={"quick": 16, "thorough": 16},
    min_evaluations={"quick": 400, "thorough": 3000},
    must_see=[("multiset_equal", 60), ("fault_abort", 20), ("shuffle_step_families_faulted", 7),
              ("adaptive_attack_runs", 300), ("adaptive_table_chunks_observed", 1000), ("adaptive_classes", 40),
              ("row_permutation_applied", 200), ("row_permutation_applied/same_chunk", 100), ("row_permutation_applied/different_chunks", 40),
              ("row_permutation_applied/H1/x2", 40), ("row_permutation_applied/H2/y1", 40), ("row_permutation_applied/H2/c1", 40),
              ("row_permutation_applied/H3/c2", 40), ("row_permutation_tables", 40),
              ("key_share_shift_applied", 150), ("key_share_shift_applied/H1/x2", 80), ("key_share_shift_applied/H2/c1", 40),
              ("key_share_shift_shapes", 20),
              ("large_table_skipped_in_quick_tier", 1, "quick"),
              ("large_table_multiset_equal_sh", 1, "thorough"), ("large_table_multiset_equal_mal", 1, "thorough"),
              ("large_table_rows_checked", 1100003 + (1 << 20) + 7, "thorough")],
    watchdog_s={"quick": 1500, "thorough": 10800},
)

prop(
    "C06",
    level="exploration",
    rule=("direct: three endpoints (make_participants and the real negotiate_prss path) x 10 short step names (incl. concatenation look-alikes a/b, "
          "ab, aa, bit1/bit10) and ~50 step strings of 15..1030 bytes that differ only in their final byte or by one child level x 11 indices (0 .. u32::MAX) x single and multi-block draws: right value == right neighbour's left value, "
          "all values pairwise distinct across (pair, step, index, offset); offsets 0..=2048 served and distinct, 2049 panics; sequential "
          "generators agree and are exclusive with indexed access; cross-shard randomness (real gen_and_distribute and the context's) "
          "identical on all shards of a helper and matching neighbours; with a leader that closes its seed channels without sending, "
          "sibling shards must fail or hold their neighbours' randomness. per-shard vs cross-shard: in runs on >= 2 shards (incl. complete queries "
          "through the production entry point execute_hybrid_protocol with independently negotiated per-shard endpoints) the draws of one (step, index) "
          "on several shards must not all be replicas of each other. consumption: for the multi-block values (16 x Fp25519, 32 x Fp32BitPrime, "
          "32 x Gf32Bit, Fp25519, BA144, BA256) every source block of from_random must feed exactly its own lane. log monitor: every PRSS draw of complete hybrid queries (1-2 "
          "shards, several sizes, padding on/off) and sharded shuffles (0..257 rows, 1-5 shards) is recorded by hook H5 and checked offline: "
          "no (generator, index:offset) drawn twice, equal outputs only for equal (step, index:offset). distinct = (origin, step, index, "
          "blocks) / (workload, number of distinct draws)"),
    assumptions=["statistical independence of AES outputs is not observable; only equality / inequality of outputs is checked",
                 "a 128-bit accidental collision is ignored as impossible"],
    shards={"quick": 10, "thorough": 16},
    min_evaluations={"quick": 500, "thorough": 5000},
    must_see=[("prss_draws_checked", 100000), ("offset_beyond_cap_panics", 4), ("cross_shard_values_agree", 8), ("negotiated_worlds", 4)],
    watchdog_s={"quick": 1500, "thorough": 7200},
)

prop(
    "C16",
    level="exploration",
    rule=("history = (total n, records-per-batch 1..4, arrival permutation of the n validate_record calls, set of batches whose "
          "check returns Err, order in which the harness lets the batch checks finish (in order / reverse / seeded), driving mode "
          "{sequential: each call driven as far as it can go, concurrent: all calls first, interleaved: seeded walk over "
          "call/poll/finish, hold_last: last call withheld until everything else is idle}, poll policy fifo/lifo/seeded, optional "
          "yield between call and first poll, total set late) on the bare Batcher under the deterministic poll scheduler: ALL "
          "permutations for n<=6 (quick) / n<=7 (thorough), every fail-set for <=3 batches (none/all/2 seeded otherwise); an event "
          "log req/batch_begin/batch_end/release with one logical clock is judged by an offline rule checker (R1 release after all "
          "req of the batch and after batch_end, R2 result == batch verdict, R3 check exactly once per complete batch, with its "
          "own state, never for an incomplete one, R4 partial last batch closes exactly at the total, R6 no idle-but-unreleased "
          "state); misuse cases = every (legal prefix, misused record) for same-record-twice (batch pending / check running / "
          "validated), record >= total, get_batch of a validated batch, missing total: must be Err or panic, never Ok or parked "
          "forever (R5); sampled real users: DZKP validate_record with real proofs (batch 1,2,4,8,32 x totals incl. non-multiples) "
          "and MAC validate_record (batch = active work 2,4,8,16, honest and with one spoiled input share) on the paused-clock "
          "runtime with seeded request order per helper. A history is distinct by all of these parameters and non-trivial when at "
          "least one batch check ran and one record was released (misuse: when the oracle classified the rejection)"),
    assumptions=[
        "'requested' means the call validate_record(i) was made (the Batcher registers the record at the call, not at the first poll)",
        "the future of the call that completes a batch is polled to completion (dropping it mid-check is outside the property)",
        "a misuse whose future neither fails nor completes by the time every legal record is released counts as silently accepted",
        "real-user runs: records are admitted like seq_join (window = active work of the upgraded context) or all at once; the "
        "order of validate_record calls is varied with seeded virtual-time pauses; MAC tamper detection is assumed (probability 1-2^-31)",
    ],
    shards={"quick": 8, "thorough": 16},
    min_evaluations={"quick": 150000, "thorough": 1000000},
    must_see=[("shapes", 24), ("modes", 12), ("histories_with_out_of_order_batch_start", 1000),
              ("histories_with_out_of_order_batch_completion", 1000), ("partial_last_batch_closed", 1000),
              ("release_error_classes", 2), ("misuse_kinds_rejected", 6), ("real_dzkp_honest_ok", 50),
              ("real_mac_honest_ok", 20), ("real_mac_tampered_batch_rejected_others_ok", 20),
              ("real_runs_with_out_of_order_requests", 20), ("real_runs_with_out_of_order_batch_release", 3)],
)

prop(
    "C11",
    level="exploration",
    rule=("cases = real Query::execute runs on 3 helpers x S shards (S = 1..5) over HPKE-encrypted length-delimited inputs of 2..40 reports; "
          "0..3 reports are present twice (copies in the same or in another shard's input, at seeded positions; exhaustively all (report, "
          "position) pairs for inputs of 2..4 (quick) / 2..6 (thorough) reports in three placement styles); oracle: for each helper the shard "
          "tag mod S computed independently from that helper's ciphertext must return DuplicateBytes and must not pass the duplicate check, "
          "every other shard must not report a duplicate, pairwise distinct inputs are never rejected; executors: paused clock and 4-thread "
          "tokio; distinct = (shards, input layout, duplicated reports); non-trivial = every (helper, shard) outcome was classified"),
    assumptions=["hook H5 ends the query right after the duplicate check (a few runs per tier go without it and must give the same verdict)",
                 "all helpers share one HPKE key registry (as in the repository's own tests)"],
    shards={"quick": 16, "thorough": 16},
    min_evaluations={"quick": 600, "thorough": 6000},
    must_see=[("duplicate_rejected_on_expected_shards", 300), ("distinct_input_accepted", 60), ("dup_classes", 10), ("tag_set_duplicates_rejected", 1000), ("tag_set_near_equal_tags_accepted", 10000)],
    watchdog_s={"quick": 1200, "thorough": 7200},
)

prop(
    "C03",
    level="fault_enumeration",
    rule=("(a) all 64 combinations of one multiplication's six intermediates: sum g_i*h_i over the u/v tables = -1/2 iff e = ab^cd^f; all 256 "
          "positions of a storage block x 128 combinations of the seven recorded bits: prover and both verifier table indices equal the "
          "reference. (b) batches built directly on the three helpers from a reference three-party multiplication model, segment widths "
          "{1,3,8,20,32,64,256,512} x sizes straddling the recursion boundaries (1,2,3,4,5,7,15,16,17,31,33,64 blocks) x 1-4 gates per batch "
          "x implicit/explicit first record, validated by the real Batch::validate on three helpers: honest => all Ok; one recorded bit "
          "(helper x gate x record x one of the 7 arrays x bit) flipped => at least one helper rejects (thorough: all 7x256x3 single-bit flips "
          "of one block). (c) real select / multiply protocols over BA3..BA256 under dzkp_validator in validate() and validate_record modes "
          "(1-5 batches): honest => Ok; one transmitted multiplication bit flipped by the interceptor => some helper rejects (faults on proof "
          "messages are recorded as observations only). (d) deviating provers: one helper sent 1-5 wrong product bits and builds its proofs "
          "itself (u/v from the verifiers' views or its own, points of the first/intermediate/final proof shifted or compensated, mask slot, "
          "Fiat-Shamir continued from the altered proofs) so that exactly a chosen non-empty set of the verifier's differences is non-zero "
          "(every singleton, every pair, larger even/odd sets; 1-7 (thorough: 1-8) compressed proofs; each helper as prover) against the real "
          "Batch::validate / BatchToVerify calls: some helper must reject; controls: honest data with the crate's and with the harness "
          "prover are accepted. distinct = (shape) / (flip class) / (type, step family, sender) / (shape, prover, target set)"),
    assumptions=["soundness error of the proof system (~2^-50 per batch) is ignored", "TARGET_PROOF_SIZE = 8192 (cfg(test))"],
    shards={"quick": 16, "thorough": 16},
    min_evaluations={"quick": 30000, "thorough": 40000},
    must_see=[("honest_batch_accepted", 20), ("flipped_batch_rejected", 60), ("transmitted_flip_rejected", 20), ("block_position_indices_ok", 32768),
              ("crafted_proof_rejected", 500), ("crafted_intended_set_produced", 1500), ("control_harness_prover_accepted", 40),
              ("control_honest_accepted", 40), ("honest_code_on_wrong_product_rejected", 40), ("crafted_singletons", 40),
              ("crafted_strategies", 10), ("crafted_shapes", 14),
              ("batch_push_orders", 3), ("deep_recursion_skipped_in_quick_tier", 1, "quick"), ("deep_recursion_multiplications", 12000000, "thorough")],
    watchdog_s={"quick": 1200, "thorough": 7200},
)

prop(
    "C04",
    level="fault_enumeration",
    rule=("protocol per record: upgrade two inputs, two chained MAC multiplications, validate_record, reveal; fields Fp31, Fp32BitPrime, Fp25519 "
          "and the PRF evaluation eval_dy_prf; totals vs active work (= records per batch) {2,4,16} giving 1, 2 and 3 batches incl. a short "
          "last batch; pass 1 inventories every chunk; each fault run alters one chunk of one sender (+1 on a seeded element, a bit flip, "
          "xor 0xFF) in the first / middle / last chunk of every (step family, sender): upgrade, multiply, duplicate multiply, "
          "propagate-u-w, reveal-r, check-zero, reveal. Oracle: honest runs validate and open a*b*a on all helpers; with a fault some honest "
          "helper must fail (Fp31: undetected runs counted against a binomial allowance for p = 2/31). distinct = (field, step family, "
          "sender, position class, pattern class). adaptive adversary: eps on the [a*b] message and r_old*eps on the [r*a*b] message of a record, with r_old the MAC key that the validation of another batch has opened (2-3 batches of 2/4/16 records, every helper as attacker): must be rejected, the MAC key has to be per batch. "
          "rushing adversary (verif_c04_rushing_attack): the corrupt helper A is a deviating party written in the harness (crate contexts, PRSS, "
          "send/receive channels at the real gates and record ids; multiplication and accumulator arithmetic re-implemented), its neighbours L and R "
          "run the unmodified validator/upgrade/multiply/validate_record path; per case (attacker in 3) x (records per batch 2/4/16) x (target "
          "first/middle/last of its batch) x (1-3 batches, seeded target batch) x seeded field Fp32BitPrime/Fp31 x honest helpers batch-by-batch or "
          "one try_join: A withholds the [a*b] and [r*a*b] messages of the target record (and the later records of that ordered channel) towards L, "
          "sends its honest (u,w) to R, waits for R's share of the SAME batch's r on validate/reveal_r, then sends the withheld messages with +eps / "
          "+r*eps; 'A knows r' is a data dependency on a message received on A's own channel (no interceptor writes; a passive tap only confirms the "
          "delivery order). Verdict classes: both honest helpers Ok and their shares reconstruct to != a*b => violation rushing_tamper_accepted; an "
          "honest Err => rushing_attack_detected; A parked on the receive of R's share with the system quiescent => rushing_attack_not_mountable "
          "(the barrier exists). Controls on the same schedule: eps = 0 must validate with the right product, +(r+1)*eps must be rejected (Fp32BitPrime)"),
    assumptions=["detection failure probability <= 2/|F| per run is ignored for the 32-bit and 255-bit fields",
                 "rushing adversary: only attacks a network adversary can mount are claimed (A delays and alters its own messages and reads messages addressed to it); "
                 "a stall of the honest helpers under attack is counted (rushing_attack_stalled), not judged"],
    shards={"quick": 16, "thorough": 16},
    min_evaluations={"quick": 150, "thorough": 1500},
    must_see=[("deviation_detected", 100), ("step_families_faulted", 20), ("honest_runs_validated_and_opened", 5), ("lane_attack_detected", 5), ("reveal_flavours_faulted", 6), ("altered_copy_rejected", 30), ("opened_key_attack_detected", 40), ("opened_key_honest_controls_accepted", 8),
              ("rushing_attack_decided", 60), ("rushing_controls_decided", 30), ("validation_failed_nothing_opened", 50)],
    watchdog_s={"quick": 1200, "thorough": 7200},
)

prop(
    "C15",
    level="exploration",
    rule=("cases = (entry point in {seq_join, seq_try_join_all, SeqJoin::try_join, SeqJoin::parallel_join, validated_seq_join}) x "
          "input length n x window w in 1..8 x task kinds (gated; completes after a task d <= w-1 positions earlier / later; Ok or "
          "Err result) x source kind (always ready / items behind gates => Pending between items) x schedule (order in which the "
          "test opens gates and source items, runs to quiescence, spurious polls): every permutation of the gated tasks for n <= 6 "
          "(quick) / n <= 7 (thorough) on the deterministic poll scheduler, seeded schedules for 7 <= n <= 40; validated_seq_join "
          "with the semi-honest and the malicious DZKP validator (records per batch 1,2,4,8 => window = batch) for every "
          "permutation of n <= 4 (quick) / 5 (thorough) x error positions on the paused-clock runtime; thorough additionally runs the "
          "multi-threaded implementation on tokio multi-thread runtimes with 2..8 workers (build b4: all permutations n <= 6, seeded "
          "n <= 40). A case is distinct by (entry point, variant, n, w, source kind, task kinds, schedule, executor) and non-trivial "
          "when n >= 1 (at least one task went through the join and the oracle decided)"),
    assumptions=[
        "'in flight' is read as 'pulled from the source and result not yet yielded' (the window): a task that completed out of "
        "order keeps its slot until everything before it has been yielded; Pending returns where fewer than min(w, remaining) "
        "tasks were unfinished for that reason are counted (window_slots_held_by_completed), not reported",
        "progress is asserted only for dependency distance <= w-1 (earlier or later task inside the window); distance >= w is not exercised",
        "parallel_join 'first error' accepts first in input order among the errors that had happened, or first in logical time",
        "multi-threaded implementation: verdicts from logical events only; an expired run_mt wall deadline is inconclusive; "
        "window lower bound only with an always-ready source; 'polled at least once / re-polled' not observable (tasks are spawned)",
        "validated_seq_join: items record no multiplications (empty batches validate without communication, one helper's context "
        "suffices); an item error may surface at any position of the failing item's validation batch; a panic of the validator's "
        "drop check after the join's outcome was decided is counted (validated_validator_drop_panics_after_outcome), not judged here",
    ],
    builds={"quick": ["b1"], "thorough": ["b1", "b4", "miri", "tsan"]},
    shards={"quick": 8, "thorough": 16},
    min_evaluations={"quick": 150000, "thorough": 1000000},
    must_see=[("variants", 16), ("windows", 8), ("pending_returns", 20000), ("lower_bound_checks_need_ge2", 5000),
              ("repoll_checks", 5000), ("out_of_order_completions", 5000), ("dependency_distances", 8),
              ("tasks_cancelled_by_early_exit", 1000), ("validated_batch_and_window", 7), ("error_positions", 20), ("mt_quiescence_checks", 100000, "thorough"), ("mt_early_exits_at_scope_drop", 1000, "thorough")],
)

prop(
    "C17",
    level="exploration",
    rule=("cases = (parser, byte string, delivery) where parser in {RecordsStream<T,Single|Batch> for harness records of 1..8 bytes and "
          "16 real field/boolean-array/share types, LengthDelimitedStream<T> (T keeps / T fails on a marker byte) alone and through "
          "try_flatten_iters, BufferedBytesStream alone and in front of RecordsStream, process_slice_by_chunks, process_stream_by_chunks, "
          "Chunk::unpack, TryFlattenIters, FixedLength}; delivery = ALL 2^(n-1) chunkings of every test stream of n <= 11 (quick) / 14 "
          "(thorough) bytes, each also with Pending before every chunk, with one empty chunk inserted at every position, with empty "
          "chunks everywhere, and (n <= 9 / 12) with an upstream Err at every position; seeded chunkings (9 styles) of streams up to "
          "4 KiB with record lengths {0..300}; every verdict is against an independent reference parser over the contiguous bytes; a "
          "case is distinct by (parser, stream length, content variant, #chunks, #empty chunks, upstream error?, Pending?, outcome "
          "class) and non-trivial when the byte string is non-empty and the oracle decided it"),
    assumptions=[
        "a stream is consumed the way try_collect does: polling stops at the first Err item (RecordsStream repeats its trailing-data "
        "error when polled again, that is outside the property)",
        "errors are compared by class (trailing partial data = io WriteZero, failed deserialisation / try_from = ParseError / io "
        "InvalidData, upstream error = io UnexpectedEof carrying the upstream message), not by message text",
        "items of the batch being assembled may be dropped when an error is hit (DESIGN section 6 item 6): before an error the batching "
        "parsers must yield a prefix of the reference records, the one-record-per-poll parser exactly the records before the error",
        "FixedLength with a declared length that differs from the real one trips its documented debug-build assertion; that loud "
        "rejection is counted (fixed_length_mismatch_debug_assert), not reported",
    ],
    builds={"quick": ["b1"], "thorough": ["b1", "miri"]},
    shards={"quick": 8, "thorough": 16},
    min_evaluations={"quick": 2_000_000, "thorough": 20_000_000},
    must_see=[("parsers", 70), ("record_sizes", 8), ("ld_record_lengths", 301), ("truncation_sites", 5), ("chunking_styles", 9),
              ("chunkings_enumerated", 200_000), ("parses_with_pending_upstream", 100_000), ("parses_with_empty_chunks", 100_000),
              ("held_err_upstream", 100_000), ("held_err_trailing_partial_data", 100_000), ("held_err_invalid_record", 100_000),
              ("held_all_records", 100_000), ("held_rechunked", 10_000), ("held_unpack", 500), ("held_slice_chunks", 500),
              ("held_stream_chunks", 500), ("held_flatten_err", 500), ("held_fixed_length", 300)],
)

prop(
    "C08",
    level="exploration",
    rule=("exhaustive part: every element / ordered pair of Fp31, Gf2, Boolean, Gf3Bit, Gf8Bit, Gf9Bit (add, sub, mul, neg, assign forms, "
          "commutativity, identities, exactly-one-inverse, no zero divisor, canonical value + serialisation), every ordered triple where |F| <= 32 "
          "(associativity, distributivity), every non-zero element of Gf20Bit (a * a^(2^20-2) = 1, i.e. inverse by power); sampled part: boundary x boundary pairs "
          "({0,1,2,3,|F|-1..|F|-3,|F|/2,2^k,2^k+-1,(p+-1)/2, polynomial tail}) and seeded random triples of Gf20Bit/Gf32Bit/Gf40Bit/Fp32BitPrime/"
          "Fp61BitPrime/Fp25519 against the harness' own reference (schoolbook carry-less multiply reduced by the exported POLYNOMIAL, u128 % PRIME, "
          "own 256-bit arithmetic mod l), conversions of unreduced integers, run-time certificates of the exported constants (Rabin irreducibility, "
          "deterministic Miller-Rabin, DZKP constants), accumulator sequences (8 operand patterns x 16 lengths around the 64-product reduce interval, every "
          "prefix observed), batch_invert, 17 Lagrange table shapes vs direct interpolation, AdditiveShare/StdArray/BAxx vector ops vs element-wise "
          "plain ops; a case is distinct by (field, operand tuple) / (field, pattern, length, initial value) / (field, N, M, trial) / (container, width, case) "
          "and non-trivial when the operation under test was executed and decided by the oracle; thorough additionally repeats Galois multiplication "
          "in a build with -Ctarget-feature=+pclmulqdq"),
    assumptions=["the harness' reference arithmetic is correct (self-tested against known irreducible/reducible polynomials, primes/composites, "
                 "Horner evaluation, primality of l)",
                 "Fp25519 has no exported modulus constant; its reference modulus is the documented group order l = 2^252 + 27742317777372353535851937790883648493",
                 "batch_invert / invert on a zero element are only required to be loud (panic), as documented"],
    builds={"quick": ["b1"], "thorough": ["b1", "b6"]},
    shards={"quick": 8, "thorough": 16},
    min_evaluations={"quick": 4_000_000, "thorough": 8_000_000},
    must_see=[("exhaustive_pairs_Gf9Bit", 262144), ("exhaustive_pairs_Gf8Bit", 65536), ("exhaustive_pairs_Fp31", 961),
              ("exhaustive_pairs_Gf3Bit", 64), ("exhaustive_pairs_Gf2", 4), ("exhaustive_pairs_Boolean", 4),
              ("exhaustive_triples_Fp31", 29791), ("exhaustive_triples_Gf3Bit", 512), ("exhaustive_triples_Gf2", 8), ("exhaustive_triples_Boolean", 8),
              ("gf20_elements_checked", 1048575), ("moduli", 11), ("big_fields", 5), ("dzkp_constants_checked", 1),
              ("accumulator_lengths", 16), ("accumulator_sequences", 500), ("lagrange_configs", 17), ("lagrange_inputs", 8),
              ("batch_invert_arrays", 300), ("share_types", 21), ("array_types", 21), ("boundary_pairs_Fp25519", 3000),
              ("unreduced_conversions", 2000)],
)

prop(
    "C09",
    level="exploration",
    rule=("cases = (a) every byte string of every Serializable type of <= 2 bytes (Fp31, Boolean, Gf2/3/8/9Bit, BA3..BA16, their "
          "AdditiveShare / StdArray<_,1> wrappers), all 2^24 strings of BA20 / Gf20Bit / StdArray<BA20,1> in the thorough tier (quick: "
          "every top byte x 64 low parts); (b) for the larger primitives and composites (Fp32BitPrime, Fp61BitPrime, Fp25519, RP25519, "
          "BA32..BA256, Gf32Bit, Gf40Bit, shares, StdArray<_,16|32|64|256>, proof / hash arrays, Seed, UniqueTag, PublicKey, "
          "PrfHybridReport, malicious shares): type-specific edge strings, their single-bit neighbourhood, seeded arbitrary and seeded "
          "canonical strings, and values built through truncate_from / rng / ZERO; (c) plaintext impression / conversion reports: "
          "generated reports x every bit flip (first cases) / seeded flips x truncations of the info tail x 1..3 byte extensions x "
          "garbage; Vec<T>::to_bytes for 8 element types x 6 lengths; (d) every TransposeFrom impl of transpose.rs (60 incl. the Vec / "
          "BitDecomposed shims) x patterns {all-zero, all-one, left plane only, a single bit at every position (<= 1024 cells) or at "
          "block-boundary positions, row+column, diagonals, seeded random}; (e) BooleanArrayWriter/Reader layouts, join/split through "
          "Shuffleable for all 2^3 values x boundary keys, BA<->BitDecomposed, AdditiveShare<BA_N><->AdditiveShare<Boolean,N>; "
          "(f) QueryConfig for all combinations of 48 epsilon values x 8 max_breakdown_key x 4 with_dp x 2 plaintext flags and all "
          "query types x field types x 6 sizes through 4 routes (HTTP create, HTTP prepare, JSON, PrepareQuery JSON) plus hand-written "
          "query strings. A case is distinct by (type, last byte, verdict) / (type, generator, index class, verdict) / (report type, "
          "mutation, length, oracle verdict) / (impl, pattern) / (layout, value class) / (route, field values), and non-trivial when "
          "the (de)serialiser or kernel was actually invoked and the independent oracle decided it"),
    assumptions=[
        "buffers handed to Serializable::deserialize have exactly T::Size bytes (enforced by the type system in production); the "
        "plaintext report deserialisers are only exercised with at least the fixed-size prefix (16 + share bytes), as produced by HPKE "
        "decryption of a length-checked record",
        "the Ristretto canonicity oracle is curve25519-dalek's own decoder (third-party, trusted) plus s < 2^255-19 and s even",
        "epsilon values that are NaN / infinite are outside the documented range: for them a loud rejection is accepted, a silently "
        "different value is not",
        "query-string spellings whose acceptance the property does not fix ('+1', '01', ' 1') are only checked for absence of panics",
    ],
    builds={"quick": ["b1"], "thorough": ["b1", "miri"]},
    shards={"quick": 8, "thorough": 16},
    min_evaluations={"quick": 1500000, "thorough": 50000000},
    must_see=[("types_exhaustive", 29), ("types_three_byte", 3), ("types_large", 50), ("types_value_side", 22),
              ("transpose_impls", 60), ("transpose_inverse_pairs", 17), ("writer_reader_layouts", 9), ("query_types", 4),
              ("exhaustive_strings", 921344), ("transposes_equal_reference", 5000), ("join_split_roundtrips", 5000),
              ("config_roundtrips", 5000), ("report_bytes_rejected", 1000), ("to_bytes_layout_ok", 48),
              ("length_errors_reported", 15)],
)

import routes as _routes  # noqa: E402  (lib/routes.py: source scanner used by C20)

prop(
    "C20",
    level="exploration",
    rule=("route inventory discovered at check time by lib/routes.py (AXUM_PATH constants, .route/.nest/.merge/.layer chains of every "
          "function returning Router under ipa-core/src/net, server roots from impl IpaHttpServer<Helper|Shard>); cases = discovered "
          "(server, path template) x request variants (canonical ids/gates/query strings, malformed query ids, gates, query strings, "
          "over-long values, seeded URL-safe strings, three body kinds) x methods {GET, POST, PUT, DELETE, PATCH}; every case is sent "
          "(a) through IpaHttpServer::handle_req without the identity extension (with and without a caller-supplied identity header, on "
          "the TLS and the plain server objects) and (b) over loopback to TestServer with TLS on {no client certificate, + identity "
          "header of every peer / malformed / other flavour, certificate of helper 1..3 resp. shard 0, + header claiming another peer, "
          "certificate unknown to the server} and TLS off {no header, header of a peer, malformed header, other flavour's header}; the "
          "same request with a known client certificate is the existence reference (status other than 404/405); oracle = fixed "
          "report-collector allow-list, everything else that exists must answer 401 without a verified identity and must not reach the "
          "request handler; record-stream routes additionally: the stream is filed under the certificate's identity, never under the "
          "header's (TLS), and under the header's with TLS off; all loopback cases run against both ways a listener comes to be in "
          "IpaHttpServer::start_on: pre-bound listener handed in (TestServer) and listener = None (a second IpaHttpServer on the same "
          "transport with ServerConfig.port = None that binds by itself, as bin/helper.rs does), i.e. all four (disable_https, listener) "
          "arms for both flavours; a case is distinct by (server, method, template, variant, identity mode, header value, start mode) "
          "and non-trivial when a response was received and judged. "
          "Two further monitors drive hyper's connection-level client over sockets they open themselves: verif_c20_http_versions sends every "
          "(server, route, registered method) over TLS and plain as HTTP/1.1 {origin-form, absolute-form http://, absolute-form https://} and "
          "HTTP/2 {:scheme https, :scheme http} x {no certificate, certificate of a configured peer, unknown certificate} x {no header, "
          "identity header of each peer, malformed, other flavour's} - under TLS a header never authenticates and never changes the outcome "
          "whatever the HTTP version / request-URI scheme, with TLS off it is honoured whatever they are; verif_c20_unpinned_peers starts "
          "further TLS servers (pre-bound and self-bound) whose network configuration has certificate: None for every subset of the peers "
          "(helper ring of 3, shard network of 2) and probes the protected routes with no certificate / each peer's certificate / a foreign "
          "certificate: only a caller whose certificate is pinned in that configuration is served (record stream filed under its own "
          "identity), everybody else gets 401 or a failed TLS handshake, the request handler is not invoked and no record stream is created. "
          "verif_c20_incomplete_tls_config starts servers of both kinds (new_mpc / new_shards, pre-bound and self-bound) from the repository's test "
          "configuration with disable_https = false and missing or incomplete TLS material (tls: None; inline certificate without key, key "
          "without certificate, both empty; certificate / key files that do not exist, one or both): either start_on refuses to start "
          "(incomplete_tls_refused_at_startup) or the server that came up must answer 401, without invoking the request handler or creating a "
          "record stream, to every caller that is not authenticated by a client certificate - plain HTTP and TLS (no certificate, foreign "
          "certificate), HTTP/1.1 and HTTP/2, without header and with the identity header of every helper / shard, malformed, other flavour's"),
    assumptions=["routes are declared with the repository's idiom (AXUM_PATH constants or literals in .route(..) inside functions returning "
                 "Router reachable from handlers::mpc_router / shard_router); anything the scanner cannot follow makes the check inconclusive",
                 "report-collector allow-list (GET /echo, GET /metrics, POST /query, POST /query/:query_id/input, GET /query/:query_id, "
                 "POST /query/:query_id/kill, GET /query/:query_id/complete on the helper server; GET /echo on the shard server) is part of "
                 "the oracle: a new public route has to be added to it deliberately",
                 "TestServer topology: one ring, one shard per helper (two shards in the unpinned-peer configurations), the repository's three unexpired "
                 "test certificates; clients: IpaHttpClient (HTTP/2) and hyper's connection-level HTTP/1.1 and HTTP/2 client over tokio-rustls",
                 "a network configuration in which no peer has a pinned certificate cannot be started with TLS (rustls refuses an empty trust "
                 "store: start_on panics); that loud refusal is recorded (unpinned_configs_refused_at_startup) and not probed further",
                 "connection errors and timeouts (30 s per request) are reported as inconclusive, never as violations"],
    shards={"quick": 8, "thorough": 16},
    min_evaluations={"quick": 4000, "thorough": 40000},
    must_see=[("routes", 13), ("protected_routes", 6), ("allowed_routes", 8), ("routes_confirmed", 14), ("binding_ok", 10),
              ("binding_refused_ok", 5), ("status_classes", 20), ("start_modes", 8), ("judged_ok_on_self_bound_listener", 1000),
              ("binding_ok_on_self_bound_listener", 5), ("binding_refused_ok_on_self_bound_listener", 3),
              # verif_c20_http_versions: {mpc, shard} x {https, http} x 5 wire forms answered; HTTP/1.1 and HTTP/2 seen on both
              ("http_variants", 20), ("http_versions_answered", 4), ("client_kinds", 4), ("httpver_refused_401", 100),
              ("httpver_tls_header_ignored", 100), ("httpver_pinned_peer_accepted", 100), ("httpver_plain_header_accepted", 40),
              ("httpver_plain_malformed_refused", 20), ("httpver_stream_under_own_identity", 40),
              # verif_c20_unpinned_peers: (7 + 3 startable configurations) x 2 start modes; 2 x 2 all-unpinned ones refused at startup
              ("unpinned_configs", 20), ("unpinned_configs_refused_at_startup", 4), ("unpinned_configs_answered", 30),
              ("unpinned_refused_401", 100), ("unpinned_refused_at_tls", 100), ("unpinned_pinned_peer_accepted", 100),
              ("unpinned_stream_under_own_identity", 40), ("unpinned_no_stream_checked", 5), ("unpinned_routes_refused", 6),
              # verif_c20_incomplete_tls_config: {mpc, shard} x 7 incomplete TLS configurations x 2 start modes, each either refused at
              # startup or started and probed
              ("incomplete_tls_configs", 28), ("incomplete_tls_configs_decided", 28)],
    watchdog_s={"quick": 600, "thorough": 1800},
    pre_run=_routes.pre_run,
)


prop(
    "C07",
    level="exploration",
    rule=("cases = operand tuples pushed through the real protocol on three in-memory helpers (one record carries N <= 256 independent lanes): "
          "every operand pair for every width pair <= 4 bits and all 2^16 pairs of 8-bit operands for integer_add, integer_sat_add (8-bit space "
          "thorough only), compare_gt, bool_or, bool_and_8_bit (N = 256 lanes) and for integer_sub, compare_geq, integer_sat_sub (one pair per "
          "record; quick runs a seed-rotated quarter of the 8-bit space, thorough all of it plus every pair of the unequal widths 8x4, 4x8, 8x5, 5x8 …); every (cond, a, b) of 3- and 5-bit select; boundary "
          "(0, 1, 2, 3, max, max-1, 2^k, 2^k+-1 at middle/top/limb borders, 0x55.., 0xAA..) x boundary, equal operands, pairs summing to exactly "
          "2^w-1 and 2^w, neighbours and seeded pairs for 16/32/64/128/256 bits incl. y narrower and wider than x where documented; SecureMul and "
          "the field `or` over Fp31, Fp32BitPrime, Fp61BitPrime, Fp25519, Boolean, Gf2/3/8/9/20/32/40Bit and Boolean vectors of 3..256 lanes with "
          "{0,1,2,p-1,p-2,seeded}^2; convert_to_fp25519 for 1/8/40/64/100/127-bit inputs (zero, all-ones, boundary, seeded; 256 lanes, PRF chunk 1 "
          "and 16); eval_dy_prf (N = 1, 16; record counts around the MAC batch size); aggregate_values for 0..40 rows x value widths {1..32} x 14 "
          "(context, lanes, output type) shapes with column classes (all-max, zero, single, sparse, sum == limit, sum == limit+1, seeded); "
          "share_known_value / reshare towards H1, H2, H3 / validate_replicated_shares over 9 field types. Contexts: semi-honest, DZKP semi-honest, "
          "DZKP malicious (proof generated and verified in every run), MAC semi-honest and MAC malicious (prime fields, Gf2, Fp25519), every vector "
          "width with a BooleanProtocols / FieldSimd impl (1, 3, 5, 8, 16, 20, 32, 64, 256). Oracle per tuple: the three outputs are a consistent "
          "replicated sharing (H_i.right == H_{i+1}.left, checked by the harness) and open to the plaintext reference computed with 256-bit integer "
          "arithmetic / u128 modular arithmetic / plain field and curve operations; any Err, panic or quiescence of an honest run is a violation. A "
          "case is distinct by (circuit, context, lanes, operand widths, operand values) and non-trivial when all three helpers returned Ok and the "
          "opened value was compared"),
    assumptions=["operands of the comparisons and of integer_sat_sub respect the documented precondition (excess bits of a wider y are zero); "
                 "integer_sat_add is exercised up to 32 bits (its step enum documents that limit) and with y no wider than x",
                 "eval_dy_prf is not evaluated at x = -k (1/0); convert_to_fp25519 inputs are < 2^128 as its debug assertion demands",
                 "boolean_ops::multiplication::integer_mul is unreachable from the harness (private module, no re-export, no caller) and is not covered",
                 "non-completion is decided by quiescence under tokio's paused clock (60 virtual seconds), not by wall time",
                 "plain field arithmetic (checked by C08) is trusted for the Galois-field and Fp25519 reference products"],
    shards={"quick": 8, "thorough": 16},
    min_evaluations={"quick": 500000, "thorough": 2000000},
    must_see=[("ops", 9), ("modes", 5), ("lane_widths", 6), ("fields", 12), ("field_mode_n", 100), ("tuples_integer_add", 100000),
              ("tuples_compare_gt", 100000), ("tuples_convert_to_fp25519", 2000), ("tuples_eval_dy_prf", 100),
              ("tuples_aggregate_values", 20000), ("aggregate_rows", 41), ("aggregate_saturated_columns", 1000), ("reshare_ok", 1000),
              ("share_validation_honest_ok", 10), ("known_value_ok", 100), ("convert_all_ones_inputs", 10)],
    watchdog_s={"quick": 1800, "thorough": 10800},
)

prop(
    "C14",
    level="exploration",
    builds={"quick": ["b1", "b2"], "thorough": ["b1", "b2", "miri", "tsan"]},
    rule=("ring buffer: every op sequence over {write one unit, take, close} of depth 8 (thorough 9) from every reachable cursor "
          "origin for 45 (capacity, write size, read size) triples (1-5 units, unit 1-3 bytes, incl. non-power-of-two) plus seeded "
          "sequences of 40-800 ops on capacities up to 24 units, each in lock-step with a reference VecDeque<u8>; distinct by "
          "(triple, origin, sequence), non-trivial when it contains a successful write and a non-empty take (seeded: a cursor wrap "
          "and a full buffer). send buffer: histories of 1-6 writers (sequential or join_all, 1-90 unique-payload messages of "
          "1/2/3/4/8 bytes) + closer + draining reader on buffers of 1-4 messages, executed on the deterministic poll scheduler "
          "(exhaustive DFS over ready-queue choices for 2-3 writers, seeded picks incl. spurious polls), on tokio worker threads, on std "
          "threads, and in build b2 under shuttle (random, PCT depth 3, bounded DFS; writers as async tasks or as threads); an "
          "execution is distinct by (history, hash of the observed event trace: writer polls/pending/done, closer, reader polls, chunk "
          "sizes) and non-trivial when at least one writer poll had to wait (order or full buffer). receive buffer: every chunking "
          "(2^(n-1)) of streams of <= 10 (thorough 12) bytes x message size 1-4 x every order of <= 5 requests (with and without the "
          "first missing record) x capacity {2,3} x 3 timings (requests first / data first / alternating), plus seeded streams of up to "
          "48 records with empty chunks, spurious polls and far-ahead requests, plus shuttle schedules of request tasks against a feeder "
          "task; distinct by the full case tuple. waker identity: seeded histories on a pool executor where one task (one waker) "
          "owns several send / receive requests and pending futures are moved to another task (re-polled with a different waker); "
          "at quiescence every future must have completed and the bytes must be in index order. receive side: a fallible message "
          "type (records starting with a marker byte are invalid encodings: they fail for their own request only) and byte streams "
          "that report an upstream error and then keep producing (through the gateway's LogErrors adapter): nothing from behind "
          "the gap may be handed out"),
    assumptions=[
        "messages have one fixed size per buffer and capacity/read size are multiples of it (the configuration the gateway uses); "
        "read size <= capacity",
        "each index is written exactly once and the closer closes at index = number of messages; a writer that sends sequentially "
        "sends its indices in increasing order (otherwise the history itself would be circular)",
        "the reader keeps polling until the stream ends; requests at the receiver are never dropped or re-issued",
        "debug assertions are on: operations the ring buffer documents as panicking (write when full/closed, second close) are "
        "expected to panic and leave the state unchanged",
        "after the end of the stream only the first missing record is required to fail with EndOfStream; requests further "
        "ahead may stay pending (not part of the property)",
        "a history that does not finish on real threads within its wall deadline is never a verdict: it is re-run on the poll "
        "scheduler and reported as inconclusive if no stall is reproducible there",
        "shuttle's atomics are sequentially consistent (weaker orderings of the Acquire/AcqRel accesses are not explored)",
    ],
    shards={"quick": 8, "thorough": 16},
    min_evaluations={"quick": 1000000, "thorough": 5000000},
    must_see=[("ring_triples", 45), ("ring_cursor_wraps", 1000), ("ring_write_rejected_full", 100),
              ("ring_takes_short_after_close", 100), ("sender_blocked_writer_polls", 10000),
              ("sender_writes_filling_buffer", 1000), ("sender_short_final_chunks", 100),
              ("sender_manual_dfs_exhausted_cases", 10), ("sender_thread_histories_completed", 1000),
              ("sh_executions", 50000), ("sh_recv_executions", 5000),
              ("recv_stream_shapes", 20), ("recv_overflow_registrations", 1000),
              ("recv_messages_straddling_chunks", 1000), ("recv_resolved_end_of_stream", 100),
              ("identity_pending_futures_moved_to_another_waker", 1000), ("identity_task_polls_sharing_one_waker", 1000),
              ("recv_resolved_invalid_record", 1000), ("upstream_error_records_refused_after_error", 1000)],
)

prop(
    "C12",
    level="exploration",
    rule=("(1) truncation point: grid 12 eps in [0.01,20] x 8 delta in [1e-12,1e-2] x sensitivity {1,2,3,10,100,1000} + 72 constructed exact ties / near ties "
          "(delta = tail(n) x {1, 1+-1e-6}) + seeded log-uniform points (1200 quick, 30000 thorough); OPRFPaddingDp::new(..).get_shift() vs the smallest n >= sensitivity whose one-sided tail mass of the `sensitivity` "
          "outermost points is <= delta, computed in closed form in f64 and re-computed with 60 digits by lib/dp_ref.py at check time; a point is "
          "distinct by (eps, delta, sensitivity) and non-trivial when both references agree and the decision margin is >= 1e-9 (otherwise "
          "boundary-ambiguous: counted, skipped); (2) scripted RNG: every (attempts1, attempts2) path with up to 2n+2 failures per geometric "
          "(n <= 60; for larger n the diagonal band |a1-a2| <= n+3 at three depths) through Geometric / DoubleGeometric / "
          "TruncatedDoubleGeometric / OPRFPaddingDp::sample; distinct by (configuration, path) resp. (configuration, value), non-trivial when "
          "output and number of consumed trials were both observed; Bernoulli threshold read back by bisection at 3-4 trial positions per "
          "configuration; (3) ShiftedTruncatedDiscreteLaplace::sample_shares driven to every support point x in 0..2n in both directions at "
          "widths 8/16/32; distinct by (width, configuration, x); (4) constructor grids (NoiseParams::new 10x8x8 + 25, OPRFPaddingDp::new "
          "10x14x8, dp_for_histogram epsilon list for Binomial and DiscreteLaplace in a 3-helper world); distinct by parameter tuple, non-trivial "
          "when the documentation decides the tuple (values exactly on an ambiguously documented bound and NaN/inf are observed only); "
          "(5) 3-helper in-memory worlds under the paused clock: apply_dp_padding / apply_dp_padding_pass (match-key and breakdown-key "
          "dummies, semi-honest and malicious contexts, 0/1/5 real rows) and the three Laplace passes + dp_for_histogram on the same world "
          "seed (widths 8/16/32, 32 and 256 buckets, SS_BITS 0/3); distinct by the case tuple, non-trivial when all three helpers returned Ok "
          "and every row / bucket was reconstructed and compared"),
    assumptions=["rand 0.8 Bernoulli draws exactly one u64 v per trial and succeeds iff v < floor(p*2^64) (checked: any other use of the RNG makes the scripted test inconclusive)",
                 "independence of successive RNG words is C06's subject; the pmf is derived from the observed path->value map under that assumption",
                 "documented range of a constructor = the conditions in its own doc comment / error texts; a value exactly on a bound that the texts "
                 "state inconsistently (success_prob 0 and 1, delta = 1.0, epsilon = MAX_EPSILON, sensitivity 0) and non-finite values are observed, not judged",
                 "the per-pass noise of dp_for_histogram is obtained from a pass-by-pass replica run on the same world seed and gate names; if the world "
                 "is not reproducible from its seed the comparison is reported as inconclusive",
                 "the chi-square run on a seeded real RNG is evidence only (alarm at p < 1e-12)"],
    shards={"quick": 8, "thorough": 16},
    min_evaluations={"quick": 100000, "thorough": 1000000},
    must_see=[("truncation_point_equal", 400), ("truncation_classes", 2), ("truncation_origin", 4), ("bernoulli_threshold_read", 100), ("truncated_paths_accepted_exact", 10000),
              ("truncated_paths_rejected_exact", 1000), ("support_exact", 30), ("pmf_derived_proportional_to_exp_minus_eps_dist", 30),
              ("share_mapping_widths", 3), ("share_mapping_points_exact", 1000), ("ctor_reject_as_documented", 100),
              ("ctor_accept_as_documented", 40), ("hist_eps_reject_as_documented", 5), ("hist_eps_accept_as_documented", 2),
              ("dummy_rows_consistent_and_value_free", 1000), ("padding_shapes", 10), ("noise_shapes", 10),
              ("buckets_total_equals_exact_plus_three_draws", 500), ("per_pass_noise_negative_seen", 10), ("chi2_runs", 4), ("three_pass_cases_every_helper_left_out_once", 8), ("padded_runs_with_a_shard_without_rows", 2)],
)

prop(
    "C18",
    level="exploration",
    rule=("cases = histories of API calls {new_query, prepare_helper, prepare_shard, receive_inputs, query_status, shard_status, complete, kill} "
          "(+ 'release' of a peer that is slow to answer prepare) issued through the production request handlers of three real HelperApps x "
          "{1,2,3} shards on in-memory MPC/shard transports, at coordinator / follower helpers and leader / non-leader shards, with real "
          "TestMultiply / TestAddInPrimeField queries over Fp31 (good input; wrong-length input) and a hybrid query whose task returns Err, and "
          "with a peer (follower leader, own shard, follower's shard) that rejects one prepare. Exhaustive part, after symmetry pruning "
          "(followers H2/H3 and shards 1/2 interchangeable until first addressed; calls that are refused because of where they are sent "
          "count as one letter whose instance rotates, at most one per history): every call sequence up to length 4 quick / 5 thorough for "
          "1 shard, 3 / 4 for 2 shards, 2 / 3 for 3 shards, 1-2 / 2-3 for the reject and slow-peer worlds and the other query kinds, and "
          "beyond that one continuation per distinct automaton state up to length 4-5 / 5-6 (82 k / 1.19 M histories); seeded random "
          "histories of length 7 (20 000 / 240 000); a fixed list of whole lifecycles (two queries in a row), failed creates followed by a "
          "create, kill in every state, calls during preparing; every combination of shard states of one helper (184 points) for the "
          "status meet. After every call the paused-clock runtime runs until idle; response class, parked calls that must (not) return, and a "
          "final status read of every (helper, shard) are compared with an independent six-state reference automaton + meet. A case is "
          "distinct by the full state of the reference automaton reached before a call and non-trivial when the call was answered and compared"),
    assumptions=["run-until-idle after every call: a query task has returned iff all three helpers of its shard column were given inputs (no Running/Completed race)",
                 "the stream tables of a node are cleared when it answers complete/kill successfully, as the production HTTP transport does (ClearOnDrop) and TestApp does by hand",
                 "answers to prepare sent over the in-memory MPC network are released 4 virtual ms after arrival so that the coordinator never drops an acknowledgement the test transport unwraps",
                 "histories in which a query task was aborted (kill while running), orphaned or panicked itself are outside the no-panic clause; their task-dependent statuses are not predicted",
                 "a sharded leader's complete that would park a shard's transport listener ends the history (artefact of the sequential in-memory listener)",
                 "missing rollback of peers after a failed create is documented (TODOs in new_query/prepare_helper): both outcomes allowed, settled by a side-effect free probe"],
    shards={"quick": 8, "thorough": 16},
    min_evaluations={"quick": 300000, "thorough": 4000000},
    must_see=[("transitions", 400), ("calls_answered", 38), ("lattice_points", 180), ("scenarios", 30),
              ("histories_checked_to_the_end", 60000), ("results_reconstruct_to_expected_value", 10),
              ("meet_table_entries_equal", 25)],
    watchdog_s={"quick": 900, "thorough": 5400},
)

import os as _os  # noqa: E402
_C19_BUILDS = _os.environ.get("VERIF_C19_BUILDS", "b1 b2").split()  # a mutation pass may restrict the check to "b1"

prop(
    "C19",
    level="exploration",
    rule=("a record is a unique 64-bit id (origin shard, position, salt) in a BA64; all three helpers get identical copies, so "
          "per-shard orders are compared directly. honest grid: API {reshard_iter, reshard_stream, reshard_try_stream, reshard_aad} x "
          "shards {1,2,3,5} x selection {all-to-one, round-robin by record id, all-stay, seeded hash of the id, ctx.pick_shard (PRSS; "
          "helpers i and i+1 share the direction, the third helper draws on its own)} x {semi-honest, malicious sharded context} x "
          "initial placement {seeded, all on one shard, one shard empty, equal, all empty, alternating; 0..200 records per shard} x "
          "size hint {exact, larger than the stream (+1, +7, +100)}; every case is executed 2 (quick) / 3 (thorough) times: paused-clock "
          "single thread with every (helper, shard) spawned as a task, 4-thread tokio runtime, paused-clock with all futures joined in "
          "one task, with gateway buffer capacity {1,2,4,8,16,32,64} records and seeded per-(helper, shard) delays of the input streams; "
          "oracle per run: every (helper, shard) returns Ok (quiescence without result = did not complete), multiset over shards == "
          "input, every record on the shard selected for it (computed by the harness; for PRSS read from the picker log), every picker call carries "
          "record id = position of the record in its input stream, per-shard order equal on all helpers (PRSS: on the two helpers "
          "sharing the randomness, whose selections must also agree), reshard_aad data part kept as a multiset and in equal order; "
          "across the runs of a case: per-shard order equal. shuttle: 2-5 shards x 0..20 records, 8 (quick) / 20 (thorough) random + as "
          "many PCT(depth 3) schedules per case, same oracle, orders compared against the first schedule. faults (paused clock, on one "
          "helper; the other two must pass the honest oracle): input stream yields Err in place of item k (k = 0, n, seeded), input "
          "stream longer than its size hint (hint 0, n-1, seeded), one chunk of one shard-to-shard byte stream truncated so that the "
          "stream ends inside a record: the affected shard must return Err; every other shard of that helper may wait forever or fail, "
          "but if it returns Ok it must hold every record selected for it that its origin had consumed. distinct = (API, shards, "
          "selection, mode, placement, counts, hint class) / (fault, ...); non-trivial = the oracle reached a verdict on the run. resharding by pseudonym inside the hybrid protocol (compute_prf_and_reshard on 2/3/5 shards, some of which start without rows, semi-honest and malicious): the sequence of (public) pseudonyms per shard must be identical on the three helpers and identical between two runs of the same world in which one shard starts 2 virtual seconds late"),
    assumptions=[
        "the shard picker is a pure function of (record id, record) - or PRSS at the given record id - as in every caller in the repository",
        "a 'transport error' is a shard-to-shard byte stream that ends inside a record (the in-memory transport has no integrity check: "
        "loss of whole records inside the transport is outside the property)",
        "non-completion is decided by quiescence under tokio's paused clock (60 virtual seconds) or by shuttle's deadlock detection, never by wall time",
        "the order demanded is only 'equal across helpers and across schedules'; no particular layout is required",
    ],
    builds={"quick": list(_C19_BUILDS), "thorough": list(_C19_BUILDS)},
    shards={"quick": 8, "thorough": 16},
    min_evaluations={"quick": 2500 if "b2" in _C19_BUILDS else 1200, "thorough": 60000 if "b2" in _C19_BUILDS else 35000},
    must_see=[("apis", 4), ("selections", 5), ("shard_counts", 4), ("modes", 2), ("combinations", 160), ("executors", 6),
              ("cross_run_order_equal", 400), ("stream_shorter_than_hint_ok", 150), ("prss_runs_using_several_targets", 30),
              ("fault_kinds", 3), ("error_classes", 3), ("failing_shard_returned_err", 250), ("other_shard_waits_forever", 100),
              ("prf_reshard_order_equal_between_timings", 8), ("prf_reshard_cases_with_shards_without_rows", 3)]
             + ([("schedulers", 2), ("sh_schedules_ok_and_compared", 1000)] if "b2" in _C19_BUILDS else []),
)


prop(
    "C13",
    level="exploration",
    rule=("history = call/return of send(chan,i), receive(chan,i), close(chan) recorded at the client boundary of the gateway with one "
          "logical clock, for a seeded case: world (active work {2,4,16} x read_size {1,3,7,16,40,96,2048} x shards {1,2,3}) with k=1..6 "
          "concurrent channels (the six helper pairs H1->H2 ... H3->H1 in both directions, same step to two peers, two look-alike steps "
          "between the same peers, shard-to-shard channels of one helper) x message type of 1,2,3,4,5,8,12,14,18,32 bytes (BA8/Fp31, BA16, "
          "BA20, BA32/Fp32BitPrime, Gf40Bit, BA64/Fp61BitPrime, BA96, BA112, BA144, BA256/Fp25519) x total {1,2,a-1,a,a+1,3a, "
          "indeterminate+close} x per-channel active-work override (half / double the gateway's) x coordination {none, "
          "request-before-data, data-before-request, duplex circuit: unit i = send(i), receive(i) on the reverse channel, then a "
          "barrier per batch of `active` units, as multiplication + batched validation do} x "
          "seeded send/receive priority orders inside the active window x endpoint per operation or shared x operations as own tasks or "
          "one task; payload = unique id (channel tag, record) padded to the width. Executors: shuttle random / PCT depth 3 (seeded "
          "schedulers, several schedules per case) and bounded DFS for one-channel cases with <= 2 records (build b2); tokio paused "
          "clock with seeded virtual-time jitter; 4-thread tokio stress (wall deadline => paused re-run); deterministic poll scheduler "
          "enumerating the order of the first polls of all operations of a small channel (all 24 / 720 orders for 1 / 2 records, 720 "
          "seeded orders for 3 records and for two channels), transport tasks run to idle after every poll or only when nothing is ready. An offline "
          "checker judges each history: payload of receive(chan,i) == payload handed to send(chan,i) and not before that call; a wrong "
          "payload is classified by its owner (other record / other step / other peer / other shard); receive(total) = EndOfStream and "
          "not before all sends (or close) were called; send(i>=total) = TooManyRecords; legal operations return Ok; the workload "
          "completes (shuttle deadlock report / paused-clock quiescence; open operations stay open). A history is distinct by "
          "(executor, case shape, hash of the order of its events) and non-trivial when it completed and at least one receive was matched"),
    assumptions=[
        "both ends keep at most `active` (the channel's active work) operations outstanding: an operation for record i is started only "
        "while i < lowest unfinished record + active, and every record inside that window is started (sending further ahead may block by design)",
        "coordination between the two ends (request-before-data / data-before-request) is per record and never withholds a record that is inside the window",
        "receive(i) for i > total is not probed (the receiver only reports EndOfStream to the request at the read cursor)",
        "non-completion is decided by shuttle's deadlock report or by quiescence under tokio's paused clock (60 virtual seconds), never by wall time",
        "in-memory transport (TestWorld); default role assignment",
    ],
    builds={"quick": ["b1", "b2"], "thorough": ["b1", "b2", "tsan"]},
    shards={"quick": 8, "thorough": 16},
    min_evaluations={"quick": 30000, "thorough": 300000},
    must_see=[("widths", 10), ("message_types", 14), ("total_classes", 7), ("channel_kinds", 7), ("actives", 3), ("shard_counts", 3),
              ("modes", 4), ("executors", 6), ("distinct_schedules", 8000), ("receives_matched", 200000),
              ("end_of_stream_at_total", 40000), ("too_many_records_rejected", 50000), ("closes_ok", 5000),
              ("receive_requested_before_send_called", 60000), ("receive_requested_after_send_returned", 120000),
              ("sends_called_out_of_order", 90000), ("receive_requested_beyond_receiver_capacity", 8000),
              ("histories_same_gate_to_two_peers", 2000), ("histories_duplex_circuit", 3000),
              ("histories_with_active_work_override", 9000), ("manual_orders_completed", 2000), ("full_windows_sent_then_received", 8)],
)

# the deciding method per property (MANIFEST "technique")
TECHNIQUE = {
    "C01": "runtime differential monitoring: real hybrid_protocol on 3xS in-memory helpers vs independent plaintext reference; hangs decided by paused-clock quiescence; shuttle schedules; H5 stage log classifies failures",
    "C02": "runtime fault injection: one sender's chunk altered through the stream interceptor on a replayed deterministic execution; outcome oracle (abort / honest shares determine reference result)",
    "C03": "runtime fault enumeration on recorded and transmitted multiplication bits against a reference three-party multiplication model; real Batch::validate on three helpers; deviating-prover family (every non-empty set of non-zero verifier differences) against the real verifier; maximum recursion depth batch",
    "C04": "runtime additive-fault injection on MAC-protected protocols (incl. coordinated cross-lane attack, every malicious opening flavour, adaptive opened-key and rushing deviating-party attacks); binomial allowance for Fp31",
    "C05": "runtime multiset / share-consistency oracle on sharded shuffles (incl. one table of more than 2^20 rows) plus fault injection on tables and held rows (bit faults and row permutations), an adaptive key-aware tag-forging helper and a rushing helper that shifts the MAC key share it opens",
    "C06": "runtime equality/inequality checks on three PRSS endpoints (incl. long step strings, seed-distribution fault), block-consumption probe of multi-block values, offline checker over the hook-H5 log of every PRSS draw (no reuse, no collision, per-shard vs replicated values) incl. queries through the production entry point",
    "C07": "runtime differential monitoring of every circuit against plaintext reference functions (exhaustive for small widths, 256 lanes per run)",
    "C08": "runtime exhaustive axiom checking, independent big-integer reference, run-time irreducibility/primality certificates of the exported moduli",
    "C09": "runtime round-trip and canonicity oracle (exhaustive for <=2-byte types), naive reference for transposes; Miri on kernels",
    "C10": "runtime fault enumeration (every bit flip / truncation / garbage) with panic capture on the parse+decrypt pipeline; Miri on parsers",
    "C11": "runtime monitoring of the real Query::execute with an independent routing oracle (tag mod S); hook-H5 switch ends the query after the duplicate check; duplicate set in lock-step with a reference set over near-equal tags",
    "C12": "scripted-randomness enumeration of the samplers, two independent references for the truncation point, three-helper runs for padding and noise (left-out helper per pass), wire monitor of the padding passes on every shard of complete hybrid runs",
    "C13": "offline checker over client-boundary histories (unique payloads) under shuttle random/PCT/DFS, paused clock, threads and a deterministic poll scheduler (new waker per poll, second polls); full-window workloads up to 2^18 records; ThreadSanitizer on the thread workload",
    "C14": "model-based checking against a reference byte queue plus history checkers under shuttle, deterministic poll scheduler (waker identity: shared wakers, futures changing hands), threads; fallible records and upstream errors on the receive side; Miri and ThreadSanitizer",
    "C15": "event-log monitors (order, window, re-poll, progress, first error) under a deterministic poll scheduler over all completion permutations; spawning implementation on real threads (ThreadSanitizer) and at quiescence on a paused current-thread runtime; Miri",
    "C16": "event log req/begin/end/release with one logical clock and an offline rule checker over all arrival permutations; real DZKP and MAC users",
    "C17": "runtime differential monitoring against a reference parser over all chunkings (with Pending, empty chunks, upstream errors); Miri",
    "C18": "history enumeration through the production request handlers against an independent reference automaton, run-until-idle under a paused clock",
    "C19": "unique-id histories: multiset/placement oracle, cross-helper and cross-schedule order comparison; fault injection on input and shard streams; shuttle; pseudonym order after compute_prf_and_reshard across helpers and timings",
    "C20": "route discovery from source + request matrix over in-process handler and real TLS/plain loopback listeners (pre-bound and self-bound; HTTP/1.1 and HTTP/2 request forms; network configurations with unpinned peers; server configurations with missing / incomplete TLS material) with a default-deny oracle",
}

# Thorough tiers whose seeded workloads finish in well under two minutes are repeated under derived seeds
# (seed + 7919 * round); enumerations, `_x1` tests and the Miri build run once.
ROUNDS = {"C03": 8, "C04": 8, "C05": 4, "C06": 8, "C09": 4, "C10": 6, "C11": 6, "C12": 6, "C19": 4, "C20": 8}
for _pid, _r in ROUNDS.items():
    PROPS[_pid]["rounds"] = {"thorough": _r}
