"""Per-property configuration of the driver: builds, shard counts, level, rule, assumptions."""

COMMON_ASSUMPTIONS = [
    "verdicts are about the executions produced by this run only (held on what was observed, not verified)",
    "harness is compiled into the ipa-core unit-test binary (cfg(test): TARGET_PROOF_SIZE=8192, debug assertions on)",
    "third-party dependencies are trusted (built at opt-level 2, ipa-core at opt-level 0)",
]

PROPS = {}


def prop(pid, **kw):
    kw.setdefault("builds", {"quick": ["b1"], "thorough": ["b1"]})
    kw.setdefault("level", "exploration")
    PROPS[pid] = kw


prop(
    "C10",
    level="fault_enumeration",
    rule=("cases = generated impression/conversion reports (site-domain lengths {0,1,2,24,63,255}, extreme timestamps/floats, "
          "3 key ids) x every single-bit flip at every offset x every truncation length x 1..3-byte extensions x wrong key x "
          "unknown key id; seeded garbage records of length 0..400; malformed length-delimited bodies through the production "
          "input pipeline; a case is distinct by (report kind, record region, offset, bit) / (length, first byte) / (framing "
          "mutation, record count, chunking) and non-trivial when it reached the parser or decryptor and was decided by the oracle"),
    assumptions=["site domains are ASCII without NUL (a NUL inside a domain is the wire delimiter of the metadata encoding)"],
    shards={"quick": 8, "thorough": 16},
    min_evaluations={"quick": 20000, "thorough": 400000},
    must_see=[("framing_mutations", 9), ("bitflip_rejected", 1000)],
    builds={"quick": ["b1"], "thorough": ["b1", "miri"]},
)

# properties not claimed (yet), with the reason shown in MANIFEST.not_applicable
NOT_CLAIMED = {}

prop(
    "C01",
    level="exploration",
    rule=("cases = report multisets (fixed corner list: empty, single, only-impressions, only-conversions, all-unmatched, imp+conv, conv+conv "
          "3-bit wrap, imp+imp 8-bit wrap, >2 repeats, colliding bucket, 8-bit saturation, >256 rows, duplicated pair; plus seeded "
          "multisets over a small match-key pool; plus sparse multi-shard inputs) x shards {1,2,3,5} x report-to-shard assignment "
          "{round-robin, random, all-to-one, one-empty} x {semi-honest, malicious} x {no padding, small explicit padding} x output width "
          "{8,32} x executor {paused-clock single thread, 4-thread tokio}; each run executes the real hybrid_protocol on 3xS in-memory "
          "helpers and compares the reconstructed leader histogram with an independent plaintext reference; a case is distinct by "
          "(class, assignment, shards, mode, padding, width, hash of the multiset) and non-trivial when all three leader helpers returned "
          "Ok and the histogram was compared"),
    assumptions=["BK=BA8, V=BA3, 256 buckets (the production instantiation); noise (DpMechanism) off - covered by C12",
                 "non-completion is decided by quiescence under tokio's paused clock (60 virtual seconds), not by wall time"],
    shards={"quick": 16, "thorough": 16},
    min_evaluations={"quick": 60, "thorough": 600},
    must_see=[("histogram_equal", 30), ("stages_logged", 4)],
    watchdog_s={"quick": 1500, "thorough": 10800},
)

prop(
    "C02",
    level="fault_enumeration",
    rule=("pass 1 inventories every MPC chunk (gate, sender, receiver, shard, chunk#, length) of an honest malicious-mode hybrid query; "
          "each fault run replays the same deterministic execution with one chunk of one sender altered (flip bit 0, flip last bit, xor 0xFF "
          "on a seeded byte, zero the chunk, +1 on the first 8 bytes); quick = one fault per (step family, corrupt helper) for 1 shard "
          "(padding on and off) plus a quarter of them for 2 shards; thorough = every inventoried chunk x 3 patterns (1 shard), 30 % "
          "sample (2 shards); a case is distinct by (step family, sender, receiver, pattern) and non-trivial when the fault actually "
          "changed bytes of a live chunk and the outcome was classified (abort on an honest helper / accepted with the untampered value / "
          "accepted with a different value = violation)"),
    assumptions=["the corrupt helper only alters MPC (helper-to-helper) traffic it sends; shard-to-shard traffic is inside one trust domain",
                 "the execution replayed for a fault is the same as the inventoried one (same seeds, paused single-thread runtime)",
                 "an honest helper that never finishes is detected by quiescence under tokio's paused clock"],
    shards={"quick": 16, "thorough": 16},
    min_evaluations={"quick": 100, "thorough": 2000},
    must_see=[("step_families_faulted", 40), ("abort-honest-err", 20)],
    watchdog_s={"quick": 1800, "thorough": 14400},
)

prop(
    "C05",
    level="fault_enumeration",
    rule=("honest: row counts {0,1,2,3,4,5,6,31,32,33,100} x shards {1,2,3,5} x row types {BA32, BA64, hybrid report (BA112), aggregateable "
          "report (BA32)} x assignment {round-robin, random, all-to-last, all-to-first} x {semi-honest, malicious} x executor; oracle = "
          "multiset of reconstructed output rows over all shards equals the input multiset (duplicates included) and every row is a "
          "consistent replicated sharing. faults (malicious): pass 1 inventories every MPC chunk of the shuffle; each fault run alters one "
          "chunk of one sender, or one bit of one input share held by one helper; table messages (transfer_x_y, transfer_c) and held rows "
          "must make an honest helper fail; other traffic must abort or leave the multiset unchanged. distinct = (type, shards, mode, "
          "assignment, size) / (type, step family, sender, shards); non-trivial = outcome classified"),
    assumptions=["only MPC (helper-to-helper) traffic is tampered with", "MAC tag forgery probability 2^-32 per run is ignored"],
    shards={"quick": 16, "thorough": 16},
    min_evaluations={"quick": 120, "thorough": 1500},
    must_see=[("multiset_equal", 60), ("fault_abort", 20), ("shuffle_step_families_faulted", 7)],
    watchdog_s={"quick": 1500, "thorough": 10800},
)

prop(
    "C06",
    level="exploration",
    rule=("direct: three endpoints (make_participants and the real negotiate_prss path) x 10 step names (incl. concatenation look-alikes a/b, "
          "ab, aa, bit1/bit10) x 11 indices (0 .. u32::MAX) x single and multi-block draws: right value == right neighbour's left value, "
          "all values pairwise distinct across (pair, step, index, offset); offsets 0..=2048 served and distinct, 2049 panics; sequential "
          "generators agree and are exclusive with indexed access; cross-shard randomness (real gen_and_distribute and the context's) "
          "identical on all shards of a helper and matching neighbours. log monitor: every PRSS draw of complete hybrid queries (1-2 "
          "shards, several sizes, padding on/off) and sharded shuffles (0..257 rows, 1-5 shards) is recorded by hook H5 and checked offline: "
          "no (generator, index:offset) drawn twice, equal outputs only for equal (step, index:offset). distinct = (origin, step, index, "
          "blocks) / (workload, number of distinct draws)"),
    assumptions=["statistical independence of AES outputs is not observable; only equality / inequality of outputs is checked",
                 "a 128-bit accidental collision is ignored as impossible"],
    shards={"quick": 10, "thorough": 16},
    min_evaluations={"quick": 500, "thorough": 5000},
    must_see=[("prss_draws_checked", 100000), ("offset_beyond_cap_panics", 4), ("cross_shard_values_agree", 8), ("negotiated_worlds", 4)],
    watchdog_s={"quick": 1500, "thorough": 7200},
)

prop(
    "C16",
    level="exploration",
    rule=("history = (total n, records-per-batch 1..4, arrival permutation of the n validate_record calls, set of batches whose "
          "check returns Err, order in which the harness lets the batch checks finish (in order / reverse / seeded), driving mode "
          "{sequential: each call driven as far as it can go, concurrent: all calls first, interleaved: seeded walk over "
          "call/poll/finish, hold_last: last call withheld until everything else is idle}, poll policy fifo/lifo/seeded, optional "
          "yield between call and first poll, total set late) on the bare Batcher under the deterministic poll scheduler: ALL "
          "permutations for n<=6 (quick) / n<=7 (thorough), every fail-set for <=3 batches (none/all/2 seeded otherwise); an event "
          "log req/batch_begin/batch_end/release with one logical clock is judged by an offline rule checker (R1 release after all "
          "req of the batch and after batch_end, R2 result == batch verdict, R3 check exactly once per complete batch, with its "
          "own state, never for an incomplete one, R4 partial last batch closes exactly at the total, R6 no idle-but-unreleased "
          "state); misuse cases = every (legal prefix, misused record) for same-record-twice (batch pending / check running / "
          "validated), record >= total, get_batch of a validated batch, missing total: must be Err or panic, never Ok or parked "
          "forever (R5); sampled real users: DZKP validate_record with real proofs (batch 1,2,4,8,32 x totals incl. non-multiples) "
          "and MAC validate_record (batch = active work 2,4,8,16, honest and with one spoiled input share) on the paused-clock "
          "runtime with seeded request order per helper. A history is distinct by all of these parameters and non-trivial when at "
          "least one batch check ran and one record was released (misuse: when the oracle classified the rejection)"),
    assumptions=[
        "'requested' means the call validate_record(i) was made (the Batcher registers the record at the call, not at the first poll)",
        "the future of the call that completes a batch is polled to completion (dropping it mid-check is outside the property)",
        "a misuse whose future neither fails nor completes by the time every legal record is released counts as silently accepted",
        "real-user runs: records are admitted like seq_join (window = active work of the upgraded context) or all at once; the "
        "order of validate_record calls is varied with seeded virtual-time pauses; MAC tamper detection is assumed (probability 1-2^-31)",
    ],
    shards={"quick": 8, "thorough": 16},
    min_evaluations={"quick": 150000, "thorough": 1000000},
    must_see=[("shapes", 24), ("modes", 12), ("histories_with_out_of_order_batch_start", 1000),
              ("histories_with_out_of_order_batch_completion", 1000), ("partial_last_batch_closed", 1000),
              ("release_error_classes", 2), ("misuse_kinds_rejected", 6), ("real_dzkp_honest_ok", 50),
              ("real_mac_honest_ok", 20), ("real_mac_tampered_batch_rejected_others_ok", 20),
              ("real_runs_with_out_of_order_requests", 20), ("real_runs_with_out_of_order_batch_release", 3)],
)

prop(
    "C11",
    level="exploration",
    rule=("cases = real Query::execute runs on 3 helpers x S shards (S = 1..5) over HPKE-encrypted length-delimited inputs of 2..40 reports; "
          "0..3 reports are present twice (copies in the same or in another shard's input, at seeded positions; exhaustively all (report, "
          "position) pairs for inputs of 2..4 (quick) / 2..6 (thorough) reports in three placement styles); oracle: for each helper the shard "
          "tag mod S computed independently from that helper's ciphertext must return DuplicateBytes and must not pass the duplicate check, "
          "every other shard must not report a duplicate, pairwise distinct inputs are never rejected; executors: paused clock and 4-thread "
          "tokio; distinct = (shards, input layout, duplicated reports); non-trivial = every (helper, shard) outcome was classified"),
    assumptions=["hook H5 ends the query right after the duplicate check (a few runs per tier go without it and must give the same verdict)",
                 "all helpers share one HPKE key registry (as in the repository's own tests)"],
    shards={"quick": 16, "thorough": 16},
    min_evaluations={"quick": 600, "thorough": 8000},
    must_see=[("duplicate_rejected_on_expected_shards", 300), ("distinct_input_accepted", 60), ("dup_classes", 10)],
    watchdog_s={"quick": 1200, "thorough": 7200},
)

prop(
    "C03",
    level="fault_enumeration",
    rule=("(a) all 64 combinations of one multiplication's six intermediates: sum g_i*h_i over the u/v tables = -1/2 iff e = ab^cd^f; all 256 "
          "positions of a storage block x 128 combinations of the seven recorded bits: prover and both verifier table indices equal the "
          "reference. (b) batches built directly on the three helpers from a reference three-party multiplication model, segment widths "
          "{1,3,8,20,32,64,256,512} x sizes straddling the recursion boundaries (1,2,3,4,5,7,15,16,17,31,33,64 blocks) x 1-4 gates per batch "
          "x implicit/explicit first record, validated by the real Batch::validate on three helpers: honest => all Ok; one recorded bit "
          "(helper x gate x record x one of the 7 arrays x bit) flipped => at least one helper rejects (thorough: all 7x256x3 single-bit flips "
          "of one block). (c) real select / multiply protocols over BA3..BA256 under dzkp_validator in validate() and validate_record modes "
          "(1-5 batches): honest => Ok; one transmitted multiplication bit flipped by the interceptor => some helper rejects (faults on proof "
          "messages are recorded as observations only). distinct = (shape) / (flip class) / (type, step family, sender)"),
    assumptions=["soundness error of the proof system (~2^-50 per batch) is ignored", "TARGET_PROOF_SIZE = 8192 (cfg(test))"],
    shards={"quick": 16, "thorough": 16},
    min_evaluations={"quick": 30000, "thorough": 40000},
    must_see=[("honest_batch_accepted", 20), ("flipped_batch_rejected", 60), ("transmitted_flip_rejected", 20), ("block_position_indices_ok", 32768)],
    watchdog_s={"quick": 1200, "thorough": 7200},
)

prop(
    "C04",
    level="fault_enumeration",
    rule=("protocol per record: upgrade two inputs, two chained MAC multiplications, validate_record, reveal; fields Fp31, Fp32BitPrime, Fp25519 "
          "and the PRF evaluation eval_dy_prf; totals vs active work (= records per batch) {2,4,16} giving 1, 2 and 3 batches incl. a short "
          "last batch; pass 1 inventories every chunk; each fault run alters one chunk of one sender (+1 on a seeded element, a bit flip, "
          "xor 0xFF) in the first / middle / last chunk of every (step family, sender): upgrade, multiply, duplicate multiply, "
          "propagate-u-w, reveal-r, check-zero, reveal. Oracle: honest runs validate and open a*b*a on all helpers; with a fault some honest "
          "helper must fail (Fp31: undetected runs counted against a binomial allowance for p = 2/31). distinct = (field, step family, "
          "sender, position class, pattern class)"),
    assumptions=["detection failure probability <= 2/|F| per run is ignored for the 32-bit and 255-bit fields"],
    shards={"quick": 16, "thorough": 16},
    min_evaluations={"quick": 150, "thorough": 1500},
    must_see=[("deviation_detected", 100), ("step_families_faulted", 20), ("honest_runs_validated_and_opened", 5)],
    watchdog_s={"quick": 1200, "thorough": 7200},
)

prop(
    "C15",
    level="exploration",
    rule=("cases = (entry point in {seq_join, seq_try_join_all, SeqJoin::try_join, SeqJoin::parallel_join, validated_seq_join}) x "
          "input length n x window w in 1..8 x task kinds (gated; completes after a task d <= w-1 positions earlier / later; Ok or "
          "Err result) x source kind (always ready / items behind gates => Pending between items) x schedule (order in which the "
          "test opens gates and source items, runs to quiescence, spurious polls): every permutation of the gated tasks for n <= 6 "
          "(quick) / n <= 7 (thorough) on the deterministic poll scheduler, seeded schedules for 7 <= n <= 40; validated_seq_join "
          "with the semi-honest and the malicious DZKP validator (records per batch 1,2,4,8 => window = batch) for every "
          "permutation of n <= 4 (quick) / 5 (thorough) x error positions on the paused-clock runtime; thorough additionally runs the "
          "multi-threaded implementation on tokio multi-thread runtimes with 2..8 workers (build b4: all permutations n <= 6, seeded "
          "n <= 40). A case is distinct by (entry point, variant, n, w, source kind, task kinds, schedule, executor) and non-trivial "
          "when n >= 1 (at least one task went through the join and the oracle decided)"),
    assumptions=[
        "'in flight' is read as 'pulled from the source and result not yet yielded' (the window): a task that completed out of "
        "order keeps its slot until everything before it has been yielded; Pending returns where fewer than min(w, remaining) "
        "tasks were unfinished for that reason are counted (window_slots_held_by_completed), not reported",
        "progress is asserted only for dependency distance <= w-1 (earlier or later task inside the window); distance >= w is not exercised",
        "parallel_join 'first error' accepts first in input order among the errors that had happened, or first in logical time",
        "multi-threaded implementation: verdicts from logical events only; an expired run_mt wall deadline is inconclusive; "
        "window lower bound only with an always-ready source; 'polled at least once / re-polled' not observable (tasks are spawned)",
        "validated_seq_join: items record no multiplications (empty batches validate without communication, one helper's context "
        "suffices); an item error may surface at any position of the failing item's validation batch; a panic of the validator's "
        "drop check after the join's outcome was decided is counted (validated_validator_drop_panics_after_outcome), not judged here",
    ],
    builds={"quick": ["b1"], "thorough": ["b1", "b4", "miri"]},
    shards={"quick": 8, "thorough": 16},
    min_evaluations={"quick": 150000, "thorough": 1000000},
    must_see=[("variants", 16), ("windows", 8), ("pending_returns", 20000), ("lower_bound_checks_need_ge2", 5000),
              ("repoll_checks", 5000), ("out_of_order_completions", 5000), ("dependency_distances", 8),
              ("tasks_cancelled_by_early_exit", 1000), ("validated_batch_and_window", 7), ("error_positions", 20)],
)

prop(
    "C17",
    level="exploration",
    rule=("cases = (parser, byte string, delivery) where parser in {RecordsStream<T,Single|Batch> for harness records of 1..8 bytes and "
          "16 real field/boolean-array/share types, LengthDelimitedStream<T> (T keeps / T fails on a marker byte) alone and through "
          "try_flatten_iters, BufferedBytesStream alone and in front of RecordsStream, process_slice_by_chunks, process_stream_by_chunks, "
          "Chunk::unpack, TryFlattenIters, FixedLength}; delivery = ALL 2^(n-1) chunkings of every test stream of n <= 11 (quick) / 14 "
          "(thorough) bytes, each also with Pending before every chunk, with one empty chunk inserted at every position, with empty "
          "chunks everywhere, and (n <= 9 / 12) with an upstream Err at every position; seeded chunkings (9 styles) of streams up to "
          "4 KiB with record lengths {0..300}; every verdict is against an independent reference parser over the contiguous bytes; a "
          "case is distinct by (parser, stream length, content variant, #chunks, #empty chunks, upstream error?, Pending?, outcome "
          "class) and non-trivial when the byte string is non-empty and the oracle decided it"),
    assumptions=[
        "a stream is consumed the way try_collect does: polling stops at the first Err item (RecordsStream repeats its trailing-data "
        "error when polled again, that is outside the property)",
        "errors are compared by class (trailing partial data = io WriteZero, failed deserialisation / try_from = ParseError / io "
        "InvalidData, upstream error = io UnexpectedEof carrying the upstream message), not by message text",
        "items of the batch being assembled may be dropped when an error is hit (DESIGN section 6 item 6): before an error the batching "
        "parsers must yield a prefix of the reference records, the one-record-per-poll parser exactly the records before the error",
        "FixedLength with a declared length that differs from the real one trips its documented debug-build assertion; that loud "
        "rejection is counted (fixed_length_mismatch_debug_assert), not reported",
    ],
    builds={"quick": ["b1"], "thorough": ["b1", "miri"]},
    shards={"quick": 8, "thorough": 16},
    min_evaluations={"quick": 2_000_000, "thorough": 20_000_000},
    must_see=[("parsers", 70), ("record_sizes", 8), ("ld_record_lengths", 301), ("truncation_sites", 5), ("chunking_styles", 9),
              ("chunkings_enumerated", 200_000), ("parses_with_pending_upstream", 100_000), ("parses_with_empty_chunks", 100_000),
              ("held_err_upstream", 100_000), ("held_err_trailing_partial_data", 100_000), ("held_err_invalid_record", 100_000),
              ("held_all_records", 100_000), ("held_rechunked", 10_000), ("held_unpack", 500), ("held_slice_chunks", 500),
              ("held_stream_chunks", 500), ("held_flatten_err", 500), ("held_fixed_length", 300)],
)
