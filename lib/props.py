"""Per-property configuration of the driver: builds, shard counts, level, rule, assumptions."""

COMMON_ASSUMPTIONS = [
    "verdicts are about the executions produced by this run only (held on what was observed, not verified)",
    "harness is compiled into the ipa-core unit-test binary (cfg(test): TARGET_PROOF_SIZE=8192, debug assertions on)",
    "third-party dependencies are trusted (built at opt-level 2, ipa-core at opt-level 0)",
]

PROPS = {}


def prop(pid, **kw):
    kw.setdefault("builds", {"quick": ["b1"], "thorough": ["b1"]})
    kw.setdefault("level", "exploration")
    PROPS[pid] = kw


prop(
    "C10",
    level="fault_enumeration",
    rule=("cases = generated impression/conversion reports (site-domain lengths {0,1,2,24,63,255}, extreme timestamps/floats, "
          "3 key ids) x every single-bit flip at every offset x every truncation length x 1..3-byte extensions x wrong key x "
          "unknown key id; seeded garbage records of length 0..400; malformed length-delimited bodies through the production "
          "input pipeline; a case is distinct by (report kind, record region, offset, bit) / (length, first byte) / (framing "
          "mutation, record count, chunking) and non-trivial when it reached the parser or decryptor and was decided by the oracle"),
    assumptions=["site domains are ASCII without NUL (a NUL inside a domain is the wire delimiter of the metadata encoding)"],
    shards={"quick": 8, "thorough": 16},
    min_evaluations={"quick": 20000, "thorough": 400000},
    must_see=[("framing_mutations", 9), ("bitflip_rejected", 1000)],
)

# properties not claimed (yet), with the reason shown in MANIFEST.not_applicable
NOT_CLAIMED = {}
