#!/bin/bash
# usage: lib/mkws.sh <name> <module> [<module>...]   e.g. lib/mkws.sh c08 c08
# Creates an isolated copy of /verif under /var/tmp/ws-<name>/verif whose harness root only includes vlib and the
# listed modules (so that a compile error in somebody else's module cannot break this workspace), plus a seeded
# target directory. Modules c14 / c16+c03 / c12 live in the H2 / H3 / H4 include points and are always stubs unless listed.
set -e
name=$1; shift
ws=/var/tmp/ws-$name
rm -rf "$ws"; mkdir -p "$ws/verif"
rsync -a --exclude .target --exclude .out --exclude .git /verif/ "$ws/verif/"
cd "$ws/verif"
{ sed -n '1,/^vmod!(vlib);/p' /verif/harness/root.rs; } > harness/root.rs
for m in "$@"; do
  case $m in
    c14|c16|c03|c12) ;;  # included through buffers.rs/context.rs/dp.rs
    *) echo "vmod!($m);" >> harness/root.rs; [ -f harness/$m.rs ] || echo "// $m monitors" > harness/$m.rs ;;
  esac
done
for m in c14 c16 c03 c12; do
  keep=0; for x in "$@"; do [ "$x" = "$m" ] && keep=1; done
  [ $keep = 1 ] || echo "// stub in this workspace" > harness/$m.rs
done
mkdir -p .target
cp -a /verif/.target/b1 .target/b1
echo "workspace ready: $ws/verif  (run ./check <ID> there)"
