#!/usr/bin/env python3
"""Confirm a seeded change and run the matching check against it, in scratch copies (never in /repo itself).

  lib/seedrun.py <seeded-id> [--skip-confirm] [--skip-suite] [--tier quick]

Steps (all in a scratch worktree /tmp/seedv of /repo HEAD and a scratch copy /var/tmp/seed-verif of /verif):
  1. patch applies; crate compiles; demo FAILS with the patch and PASSES without it;
  2. the repository's own lib test-suite passes with the patch (failures are re-run in isolation once: load timeouts);
  3. the property's check is run against the patched tree: detected = exit 1 with a VIOLATION line.
Results are written to seeded/<id>/result.json.
"""
import json, os, re, subprocess, sys, time, shutil

ID = sys.argv[1]
ARGS = sys.argv[2:]
HERE = os.path.dirname(os.path.dirname(os.path.realpath(__file__)))
SD = os.path.join(HERE, "seeded", ID)
SLOT = os.environ.get("SEED_SLOT", "")
WT = "/tmp/seedv" + SLOT
SV = "/var/tmp/seed-verif" + SLOT
TGT = "/var/tmp/seed-target" + SLOT
meta = json.load(open(os.path.join(SD, "meta.json")))
prop = meta["property"]
if "--prop" in ARGS:
    prop = ARGS[ARGS.index("--prop") + 1]
how = str(meta.get("how_demonstrated", ""))
m = re.search(r"--\s+(c\d+_demo\w+)", how)
demo_filter = meta.get("demo_filter") or (m.group(1) if m else None)
m2 = re.search(r"(?:>>|append(?:ed)? to)\s+(ipa-core/src/[\w/]+\.rs)", how)
demo_file = meta.get("demo_file") or (m2.group(1) if m2 else None)
res = dict(id=ID, property=prop, demo_filter=demo_filter, demo_file=demo_file, at=time.strftime("%F %T"))

def sh(cmd, **kw):
    return subprocess.run(cmd, shell=True, capture_output=True, text=True, **kw)

def reset_wt():
    if not os.path.isdir(WT):
        r = sh(f"git -C /repo worktree add --detach {WT}")
        assert r.returncode == 0, r.stderr
    sh(f"git -C {WT} checkout -q --detach $(git -C /repo rev-parse HEAD) && git -C {WT} checkout -- . && git -C {WT} clean -fdq -e target")

ENV = dict(os.environ, CARGO_TARGET_DIR=os.path.join(TGT, "plain"), CARGO_INCREMENTAL="0", CARGO_NET_OFFLINE="true")

def cargo_test(filt, extra="", cargo_args=""):
    r = subprocess.run(f"cargo test -p ipa-core --lib --offline {cargo_args} -- {filt} {extra}", shell=True, cwd=WT, env=ENV, capture_output=True, text=True)
    out = r.stdout + r.stderr
    m = re.search(r"test result: (\w+)\. (\d+) passed; (\d+) failed", out)
    return r.returncode, (m.groups() if m else None), out

reset_wt()
r = sh(f"git -C {WT} apply --check {SD}/patch.diff")
res["patch_applies"] = r.returncode == 0
if r.returncode != 0:
    res["error"] = r.stderr[-500:]
    json.dump(res, open(os.path.join(SD, "result.json"), "w"), indent=1)
    print(json.dumps(res, indent=1)); sys.exit(1)

if "--skip-confirm" not in ARGS and demo_filter and demo_file:
    # demo with patch
    sh(f"git -C {WT} apply {SD}/patch.diff")
    sh(f"cat {SD}/demo.rs >> {WT}/{demo_file}")
    dca = meta.get("demo_cargo_args", "")
    rc, tr, out = cargo_test(demo_filter, cargo_args=dca)
    res["demo_with_patch"] = dict(rc=rc, result=tr, tail=out[-600:])
    # demo without patch
    sh(f"git -C {WT} apply -R {SD}/patch.diff")
    rc2, tr2, out2 = cargo_test(demo_filter, cargo_args=dca)
    res["demo_without_patch"] = dict(rc=rc2, result=tr2, tail=out2[-300:])
    res["demo_confirms"] = bool(tr and int(tr[2]) > 0 and tr2 and int(tr2[2]) == 0 and int(tr2[1]) > 0)
    reset_wt()

if "--skip-suite" not in ARGS:
    sh(f"git -C {WT} apply {SD}/patch.diff")
    rc, tr, out = cargo_test("", "")
    failed = re.findall(r"^test (\S+) \.\.\. FAILED", out, re.M)
    still = []
    for t in failed[:12]:
        rc1, tr1, _ = cargo_test(t, "--exact")
        if not (tr1 and int(tr1[2]) == 0 and int(tr1[1]) == 1):
            still.append(t)
    res["suite_with_patch"] = dict(rc=rc, result=tr, failed_first_run=failed, failed_after_isolated_rerun=still)
    res["suite_passes"] = bool(tr) and not still and len(failed) <= 12
    reset_wt()
    if "--suite-only" in ARGS:
        json.dump(dict(id=ID, at=res["at"], suite_with_patch=res["suite_with_patch"], suite_passes=res["suite_passes"],
                       note="whole `cargo test -p ipa-core --lib` with only the patch applied, run by lib/seedrun.py --suite-only in a scratch worktree"),
                  open(os.path.join(SD, "suite.json"), "w"), indent=1)
        print(json.dumps(res["suite_with_patch"], indent=1)[:600])
        sys.exit(0)

# run the check against the patched tree
sh(f"git -C {WT} apply {SD}/patch.diff")
os.makedirs(SV, exist_ok=True)
sh(f"rsync -a --delete --exclude .target --exclude .out --exclude .git {HERE}/ {SV}/")
tier = "quick"
if "--tier" in ARGS:
    tier = ARGS[ARGS.index("--tier") + 1]
env = dict(os.environ, VERIF_REPO=WT, VERIF_TARGET_ROOT=os.path.join(TGT, "verif"), CARGO_INCREMENTAL="0")
t0 = time.time()
r = subprocess.run(f"./check {prop} --tier {tier}", shell=True, cwd=SV, env=env, capture_output=True, text=True)
lines = [l for l in r.stdout.splitlines() if l.startswith("VIOLATION") or "violation x" in l or "INCONCLUSIVE" in l or "tier=" in l]
res["check"] = dict(tier=tier, exit=r.returncode, wall_s=round(time.time() - t0), lines=lines[:14])
res["detected"] = r.returncode == 1 and any(l.startswith("VIOLATION") for l in lines)
reset_wt()
json.dump(res, open(os.path.join(SD, "result.json" if prop == meta["property"] else f"result-{prop}.json"), "w"), indent=1)
print(json.dumps({k: res[k] for k in res if k in ("id", "patch_applies", "demo_confirms", "suite_passes", "detected")}))
print("\n".join(lines[:8]))
